"""C09 — selective extraction equals the restriction of full extraction."""
from __future__ import annotations

import ast
from typing import List

from ..cfg import cfg_of
from ..model import Func, attr_tail, dotted, norm, walk
from ..report import Ctx
from .. import q
from . import shared, c06

EXPLANATION = (
    "Structural conditions of target selection: extract() maps every target through remove_trailing_slash after the type "
    "gate, unconditionally; in _extract every member is either registered with an output or registered None before the loop "
    "continues, and the recursive arm tests exact name OR prefix; in the per-folder writer the decode-and-discard of the "
    "accumulated unselected predecessors dominates every delivering decompress and the accumulator is emptied after it, "
    "members are accumulated iff they have a stream, and the trailing check runs when nothing may be skipped; the folder-skip "
    "predicate means 'no member of the folder is selected' (constant-folded over the four value combinations of a two-member "
    "folder) and uses the same id space as registration; only registered outputs and pre-collected directories reach mkdir. "
    "Not decided: equality with extractall for all subsets."
)
TRUSTED = ["CPython ast parser", "sa.cfg dominators", "sa.consteval (truth-table evaluation of the skip predicate)"]


def r09_1(ctx: Ctx) -> None:
    f = shared.szf(ctx, "extract")
    cfg = cfg_of(f.node)
    dele = [c for c in q.calls(f) if attr_tail(c) == "_extract"]
    ctx.floor("R09.1", len(dele), 1, "_extract call in extract")
    norms = [n for n in walk(f.node) if isinstance(n, ast.Assign) and norm(n.targets[0]) == "targets" and any(
        isinstance(c, ast.Call) and attr_tail(c) == "remove_trailing_slash" for c in ast.walk(n.value))]
    ok = len(norms) == 1
    if ok:
        n0 = norms[0]
        # every element is mapped: comprehension over targets without filter
        comp = n0.value if isinstance(n0.value, (ast.ListComp, ast.SetComp, ast.GeneratorExp)) else next((x for x in ast.walk(n0.value) if isinstance(x, (ast.ListComp, ast.SetComp, ast.GeneratorExp))), None)
        ok = comp is not None and len(comp.generators) == 1 and norm(comp.generators[0].iter) == "targets" and not comp.generators[0].ifs
        # the only guard: targets is not None
        facts = q.facts_at(f, n0)
        extra = [cd for cd, pol in facts if not (q.is_none_test(cd) is not None and norm(q.is_none_test(cd)[0]) == "targets")
                 and not (isinstance(cd, ast.Call) and attr_tail(cd) == "_is_none_or_collection")]
        ok = ok and not extra
        # on every path to the delegate with targets not None
        dn = q.node_for(f, dele[0])
        none_edges = [n for n in cfg.nodes if n.kind == "false" and norm(n.ast) == "targets is not None"]
        ok = ok and not cfg.reaches(cfg.entry, dn, avoid=[q.node_for(f, n0)] + none_edges)
    ctx.check(ok, "R09.1", f, norms[0] if norms else f.node, "every target passes remove_trailing_slash, unconditionally",
              "extract() does not normalise every target with remove_trailing_slash on every path (e.g. only when not recursive): 'dir/' no longer selects member 'dir'")
    gate = [n for n in walk(f.node) if isinstance(n, ast.Raise)]
    ok = bool(gate) and all(cfg.dominates(cfg.by_ast.get(next(x for x in walk(f.node) if isinstance(x, ast.If) and gate[0] in list(ast.walk(x)))), q.node_for(f, dele[0])) for _ in [0])
    ctx.check(ok, "R09.1", f, f.node, "type gate precedes the work", "the argument type gate does not precede the extraction", construct="extract type gate")
    # arguments are forwarded
    kws = {k.arg: norm(k.value) for k in dele[0].keywords}
    ok = norm(dele[0].args[1]) == "targets" if len(dele[0].args) > 1 else kws.get("targets") == "targets"
    ok = ok and kws.get("recursive") == "recursive"
    ctx.check(ok, "R09.1", f, dele[0], "targets and recursive are forwarded", "extract() does not forward targets/recursive to _extract")


def selection_scope(ctx: Ctx, f) -> list:
    """_extract plus the private helpers of the class that it calls and that did not exist when the rules were written (a selection predicate extracted
    from the loop): the rules about the selection look at all of them"""
    from ..inline import known_functions
    cls = ctx.prog.cls("SevenZipFile", "py7zr")
    out = [f]
    for c in q.calls(f):
        if isinstance(c.func, ast.Attribute) and norm(c.func.value) == "self":
            m = ctx.prog.method(cls, c.func.attr)
            if m is not None and known_functions() and m.qname not in known_functions() and m not in out and any(a_ == "targets" or "target" in a_ for a_ in m.params):
                out.append(m)
    return out


def member_loops(ctx: Ctx, f):
    """the loops of _extract over the members: (selection loop, registration loop, name of the set of unselected ids or None).
    One loop does both in the original code; the repaired code selects first (and asks for the password before anything is touched), records
    the ids that are not wanted in a set, and registers in a second loop: `if f.id in <set>: register None; continue`."""
    loops = [n for n in walk(f.node) if isinstance(n, ast.For) and norm(n.iter) == "self.files"]
    ctx.need(len(loops) in (1, 2), "member loop(s) of _extract not recognised")
    if len(loops) == 1:
        return loops[0], loops[0], None
    reg = [l for l in loops if any(isinstance(x, ast.Call) and attr_tail(x) == "register_filelike" for x in ast.walk(l))]
    sel = [l for l in loops if l not in reg and any(isinstance(x, ast.Call) and attr_tail(x) == "add" and isinstance(x.func.value, ast.Name) for x in ast.walk(l))]
    ctx.need(len(sel) == 1 and len(reg) == 1 and sel[0] is not reg[0] and sel[0].lineno < reg[0].lineno, "selection / registration loops of _extract not recognised")
    adds = [x for x in ast.walk(sel[0]) if isinstance(x, ast.Call) and attr_tail(x) == "add" and isinstance(x.func.value, ast.Name)]
    names = {x.func.value.id for x in adds}
    ctx.need(len(names) == 1, "the selection loop of _extract does not record the unselected members in one set")
    sname = next(iter(names))
    # nothing else writes the set between the loops
    other = [x for x in walk(f.node) if isinstance(x, ast.Call) and isinstance(x.func, ast.Attribute) and norm(x.func.value) == sname and x.func.attr not in ("add",)
             and x.func.attr in ("discard", "remove", "clear", "pop", "update", "difference_update", "intersection_update")]
    ctx.need(not other, f"the set `{sname}` of unselected members is modified outside the selection loop")
    return sel[0], reg[0], sname


def _selection_semantics(ctx: Ctx, f: Func, lp: ast.For):
    """the condition under which the selection loop passes a member over (`<set>.add(f.id); continue`), evaluated in the model
    (targets None? / recursive False, True, other / exact match / match beneath a named directory): the disjunction over the continues of the
    conjunction of their guards; a local set in every arm of an if/elif chain right in the loop (`wanted = ...`) stands for what the arms give it.
    Returns (table, None) or (None, reason)."""
    cfg = cfg_of(f.node)
    inner = {id(x) for st in lp.body for x in ast.walk(st)}
    conts = [n for n in walk(lp) if isinstance(n, ast.Continue)]

    class U(Exception):
        pass

    def chain_value(name: str):
        for st in lp.body:
            if isinstance(st, ast.If):
                arms, cur = [], st
                while True:
                    if not (len(cur.body) == 1 and isinstance(cur.body[0], ast.Assign) and len(cur.body[0].targets) == 1 and isinstance(cur.body[0].targets[0], ast.Name)
                            and cur.body[0].targets[0].id == name):
                        arms = None
                        break
                    arms.append((cur.test, cur.body[0].value))
                    if len(cur.orelse) == 1 and isinstance(cur.orelse[0], ast.If):
                        cur = cur.orelse[0]
                        continue
                    if len(cur.orelse) == 1 and isinstance(cur.orelse[0], ast.Assign) and isinstance(cur.orelse[0].targets[0], ast.Name) and cur.orelse[0].targets[0].id == name:
                        arms.append((None, cur.orelse[0].value))
                        break
                    arms = None
                    break
                if arms:
                    return arms
        return None

    def ev(e, env):
        tnone, rec, exact, prefix = env
        if isinstance(e, ast.Constant):
            return e.value
        if isinstance(e, ast.BoolOp):
            vals = (ev(v, env) for v in e.values)
            if isinstance(e.op, ast.And):
                r = True
                for v in vals:
                    r = v
                    if not v:
                        return v
                return r
            r = False
            for v in vals:
                r = v
                if v:
                    return v
            return r
        if isinstance(e, ast.UnaryOp) and isinstance(e.op, ast.Not):
            return not ev(e.operand, env)
        if isinstance(e, ast.Compare) and len(e.ops) == 1:
            l, op, r = norm(e.left), e.ops[0], e.comparators[0]
            if l == "targets" and isinstance(r, ast.Constant) and r.value is None and isinstance(op, (ast.Is, ast.IsNot)):
                return tnone == isinstance(op, ast.Is)
            if l == "recursive" and isinstance(r, ast.Constant) and isinstance(r.value, bool) and isinstance(op, (ast.Is, ast.IsNot, ast.Eq, ast.NotEq)):
                return (rec is r.value) == isinstance(op, (ast.Is, ast.Eq))
            if norm(r) == "targets" and isinstance(op, (ast.In, ast.NotIn)):
                if tnone:
                    raise U("membership in targets although targets is None")
                return exact == isinstance(op, ast.In)
        if isinstance(e, ast.Call) and dotted(e.func) == "any" and e.args and "startswith" in norm(e.args[0]) and "targets" in norm(e.args[0]):
            if tnone:
                raise U("iteration over targets although targets is None")
            return prefix
        if isinstance(e, ast.Name):
            if e.id == "recursive":
                return bool(rec)
            arms = chain_value(e.id)
            if arms is not None:
                for t_, v_ in arms:
                    if t_ is None or ev(t_, env):
                        return ev(v_, env)
                raise U(f"{e.id} not assigned")
        raise U(norm(e)[:60])
    table = {}
    try:
        for tnone in (True, False):
            for rec in (False, True, None):
                for exact in (True, False):
                    for prefix in (True, False):
                        env = (tnone, rec, exact, prefix)
                        skip = False
                        for c in conts:
                            gs = [(g, p) for g, p in cfg.guards(q.node_for(f, c)) if id(g) in inner]
                            if all(bool(ev(g, env)) == p for g, p in gs):
                                skip = True
                        table[env] = skip
    except U as u:
        return None, str(u)
    return table, None


def r09_2(ctx: Ctx) -> None:
    f = shared.szf(ctx, "_extract")
    cfg = cfg_of(f.node)
    sel, regl, sname = member_loops(ctx, f)
    lp = sel

    def registers_none(p) -> bool:
        return p.kind == "stmt" and isinstance(p.ast, ast.Expr) and isinstance(p.ast.value, ast.Call) and attr_tail(p.ast.value) == "register_filelike" \
            and isinstance(p.ast.value.args[1], ast.Constant) and p.ast.value.args[1].value is None

    conts = [n for n in walk(lp) if isinstance(n, ast.Continue)]
    semantic = None
    if len(conts) == 1 and len(selection_scope(ctx, f)) <= 1:
        # the arms are not written out as two filters: the one passing-over is judged by what it computes
        table, why = _selection_semantics(ctx, f, lp)
        want = {(tn, rc, ex, pf): ((not tn) and ((rc is False and not ex) or (rc is True and not ex and not pf)))
                for tn in (True, False) for rc in (False, True, None) for ex in (True, False) for pf in (True, False)}
        semantic = table is not None and table == want
        ctx.check(semantic, "R09.2", f, conts[0], "a member is passed over iff targets are given and it is neither named nor (recursive) beneath a named directory",
                  "the selection of _extract passes members over under another condition than `targets is not None and ((recursive is False and name not in targets) or (recursive is True "
                  f"and name not in targets and not beneath a target))`: {why or 'decisions ' + str({k: v for k, v in (table or {}).items() if v != want[k]})}",
                  construct="selection condition")
    else:
        ctx.floor("R09.2", len(conts), 1 if len(selection_scope(ctx, f)) > 1 else 2, "continue statements (filter arms) in the member loop")
    for c in conts:
        cn = q.node_for(f, c)
        preds = cn.pred
        if sname is None:
            ok = all(registers_none(p) and norm(p.ast.value.args[0]) == f"{lp.target.id}.id" for p in preds)
        else:
            ok = all(p.kind == "stmt" and isinstance(p.ast, ast.Expr) and isinstance(p.ast.value, ast.Call) and attr_tail(p.ast.value) == "add"
                     and norm(p.ast.value.func.value) == sname and norm(p.ast.value.args[0]) == f"{lp.target.id}.id" for p in preds)
        ctx.check(ok, "R09.2", f, c, "an unselected member is registered None before the loop continues",
                  "an unselected member is skipped without being registered as None: the folder writer cannot tell it from a member to deliver / skip-decode")
    if sname is not None:
        # the registration loop: exactly the recorded ids are registered None and passed over, before anything else is done with the member
        # (the set may have travelled through a `return` of a helper that was expanded in place: `unwanted = <the helper's set>`)
        aliases = {sname} | {t_.id for n_ in walk(f.node) if isinstance(n_, ast.Assign) and isinstance(n_.value, ast.Name) and n_.value.id == sname
                             for t_ in n_.targets if isinstance(t_, ast.Name) and len(q.assigned_values(f, t_.id)) == 1}
        gate = [n for n in regl.body if isinstance(n, ast.If) and isinstance(n.test, ast.Compare) and len(n.test.ops) == 1 and isinstance(n.test.ops[0], ast.In)
                and norm(n.test.left) == f"{regl.target.id}.id" and norm(n.test.comparators[0]) in aliases]
        ok = bool(gate) and regl.body[0] is gate[0] and len(gate[0].body) == 2 and isinstance(gate[0].body[1], ast.Continue) and isinstance(gate[0].body[0], ast.Expr) \
            and isinstance(gate[0].body[0].value, ast.Call) and attr_tail(gate[0].body[0].value) == "register_filelike" and norm(gate[0].body[0].value.args[0]) == f"{regl.target.id}.id" \
            and isinstance(gate[0].body[0].value.args[1], ast.Constant) and gate[0].body[0].value.args[1].value is None and not gate[0].orelse
        ctx.check(ok, "R09.2", f, gate[0] if gate else regl, "the registration loop registers None for exactly the recorded ids, first thing",
                  f"the registration loop of _extract does not start with `if {regl.target.id}.id in {sname}: register None; continue`: members that were not selected get an output, or "
                  "selected ones are dropped", construct="registration of unselected members")
    if semantic is not None:
        return  # judged by what the selection computes (above); the shape of the two arms is not there to be looked at
    # the two arms
    tests = [n for n in walk(lp) if isinstance(n, ast.If) and any(isinstance(x, ast.Continue) for x in n.body)]
    helpers = selection_scope(ctx, f)[1:]
    if helpers and not any(isinstance(x, ast.Compare) and isinstance(x.ops[0], (ast.NotIn, ast.In)) and norm(x.comparators[0]) == "targets" for x in ast.walk(lp)):
        # the selection predicate lives in a helper (positive form: `return name in targets [or any(name.startswith(t + "/") ...)]`): weaker, form-independent
        # conditions on the helper; the exact shape of the arms is judged where the arms are written out in the loop
        for h in helpers:
            exact_h = any(isinstance(x, ast.Compare) and isinstance(x.ops[0], (ast.In, ast.NotIn)) and norm(x.comparators[0]) in h.params for x in walk(h.node))
            prefix_h = any(isinstance(x, ast.Call) and attr_tail(x) == "startswith" for x in walk(h.node))
            flags_h = any("is False" in norm(t.test) for t in walk(h.node) if isinstance(t, ast.If)) and any("is True" in norm(t.test) for t in walk(h.node) if isinstance(t, ast.If))
            ctx.check(exact_h and prefix_h and flags_h, "R09.2", h, h.node, "selection helper: exact match, prefix match and the recursive flag are all consulted",
                      f"{h.qname} (the selection predicate of _extract) does not consult the exact match, the '/'-prefix match and the recursive flag", construct="selection helper")
        guard = any(isinstance(t.test, ast.BoolOp) and any(norm(v) == "targets is not None" for v in t.test.values) or norm(t.test) == "targets is not None" for t in tests) or \
            any(any(norm(t_.test).startswith("targets is None") for t_ in walk(h.node) if isinstance(t_, ast.If)) for h in helpers)
        ctx.check(guard, "R09.2", f, lp, "no filtering without targets", "the selection does not test `targets is not None`", construct="targets None guard")
        return
    def is_member_name(e: ast.AST) -> bool:
        return norm(e).endswith(".filename") or q.derives_from(f, e, lambda x: isinstance(x, ast.Attribute) and x.attr == "filename")

    exact = [t for t in tests if isinstance(t.test, ast.Compare) and isinstance(t.test.ops[0], ast.NotIn) and is_member_name(t.test.left) and norm(t.test.comparators[0]) == "targets"]
    ctx.check(len(exact) >= 1, "R09.2", f, lp, "non-recursive arm: skip iff name not in targets", "the non-recursive filter is not `filename not in targets`", construct="exact filter arm")
    rec = [t for t in tests if isinstance(t.test, ast.BoolOp) and isinstance(t.test.op, ast.And)]
    ok = False
    for t in rec:
        a = [norm(v) for v in t.test.values]
        has_exact = any(isinstance(v, ast.Compare) and isinstance(v.ops[0], ast.NotIn) and is_member_name(v.left) and norm(v.comparators[0]) == "targets" for v in t.test.values)
        has_prefix = any(isinstance(v, ast.UnaryOp) and isinstance(v.op, ast.Not) and any(isinstance(c, ast.Call) and attr_tail(c) == "startswith" for c in ast.walk(v))
                         and any(isinstance(c, ast.Call) and dotted(c.func) == "any" for c in ast.walk(v)) for v in t.test.values)
        ok = ok or (has_exact and has_prefix)
    ctx.check(ok, "R09.2", f, lp, "recursive arm: skip iff neither exact match nor prefix match", "the recursive filter is not `not exact and not any(prefix)`", construct="recursive filter arm")
    # arm selection by the recursive flag
    arms = [n for n in walk(lp) if isinstance(n, ast.If) and "recursive" in norm(n.test)]
    def arm_is(t: ast.AST, flag: str) -> bool:
        # `targets is not None and recursive is <flag>` (either order), nothing else: with `targets is None` the arm would never filter
        return isinstance(t, ast.BoolOp) and isinstance(t.op, ast.And) and sorted(norm(v) for v in t.values) == sorted(["targets is not None", f"recursive is {flag}"])
    ok = any(arm_is(a.test, "False") for a in arms) and any(arm_is(a.test, "True") for a in arms)
    ctx.check(ok, "R09.2", f, lp, "arms selected by `targets is not None and recursive is False/True`",
              "the filter arms of the member loop are not selected by `targets is not None and recursive is False` / `... is True`: with a condition such as `targets is None and "
              "recursive is True` the recursive arm never filters and extract(targets=[...], recursive=True) delivers every member", construct="recursive flag arms")


def r09_3(ctx: Ctx) -> None:
    f = ctx.prog.func("py7zr", "Worker._extract_single")
    cfg = cfg_of(f.node)
    loops = [n for n in walk(f.node) if isinstance(n, ast.For) and norm(n.iter) == f.params[2]]
    ctx.need(len(loops) == 1, "member loop of _extract_single not recognised")
    lp = loops[0]
    it = cfg.by_ast[lp]
    checks = [c for c in q.calls(f) if attr_tail(c) == "_check"]
    inloop = [c for c in checks if q.enclosing_loops(f, c)]
    after = [c for c in checks if not q.enclosing_loops(f, c)]
    delivering = [c for f2, c in shared.calls_to(ctx, "py7zr:Worker.decompress") if f2 is f]
    ctx.floor("R09.3", len(delivering), 1, "delivering decompress calls")
    if not inloop:
        for d in delivering:
            ctx.fail("R09.3", f, d, "no decode-and-discard of skipped predecessors precedes this delivering decompress inside the member loop: a selected member after "
                                   "unselected ones in a solid stream is decoded from the wrong stream position")
        return
    acc = norm(inloop[0].args[1])
    body = next(s for s in it.succ if s.kind == "body")
    for d in delivering:
        dn = q.node_for(f, d)
        bypass = cfg.reaches(body, dn, avoid=[q.node_for(f, c) for c in inloop])
        ctx.check(not bypass, "R09.3", f, d, "skipped predecessors are decoded and discarded before a member is delivered",
                  "a selected member can be decoded without first decoding-and-discarding the unselected members before it in the solid stream")
    # nothing is decoded for a member that has no stream: the in-loop check stands under `not <member>.emptystream`.  Otherwise selecting an EMPTY file
    # decodes (and may fail on) every unselected member in front of it - `extract(targets=['marker.empty'])` on an encrypted archive raises
    # PasswordRequired after the early check had found that this selection needs no password
    for c in inloop:
        ok = any((not pol) and isinstance(cd, ast.Attribute) and cd.attr == "emptystream" for cd, pol in q.facts_at(f, c))
        ctx.check(ok, "R09.9", f, c, "unselected predecessors are decoded only on the way to a member that has a stream",
                  "Worker._extract_single decodes the unselected members in front of EVERY selected member, also of one without a stream: `extract(targets=[<empty file>])` needs the "
                  "password (or a supported method) of data it does not deliver, fails in the middle of the extraction and does not create the empty file", construct="skip-decode for empty member")
    # the accumulator is emptied right after the check, before the next iteration
    resets = [n for n in walk(lp) if isinstance(n, ast.Assign) and norm(n.targets[0]) == acc and isinstance(n.value, ast.List) and not n.value.elts]
    for c in inloop:
        cn = q.node_for(f, c)
        ok = bool(resets) and not cfg.reaches(cn, it, avoid=[q.node_for(f, r) for r in resets], normal_only=True)
        ctx.check(ok, "R09.3", f, c, "accumulator emptied after the delayed check", "the list of skipped members is not emptied after they were decoded: they are decoded again at the next selected member and the stream desynchronises")
    # ... and ONLY there: what waits in the list has not been decoded yet; an emptying that can be reached in an iteration that did not run the
    # check (the arm of a selected member without a stream) forgets the members in front, and the next delivered member is decoded from their bytes
    for r in resets:
        rn = q.node_for(f, r)
        bypass = cfg.reaches(body, rn, avoid=[q.node_for(f, c) for c in inloop] + [it])
        ctx.check(not bypass, "R09.3", f, r, "the list of skipped members is emptied only behind the check that decoded them",
                  f"`{norm(r)}` can be reached in an iteration that has not decoded the skipped members (a selected member WITHOUT a stream - a 7-Zip style empty file - between an "
                  "unselected data member and a selected one): the skipped bytes are never consumed and the next selected member is decoded from the wrong position "
                  "(an exception or wrong bytes instead of the member)", construct="skip list emptied without the check")
    # accumulation: iff unselected and has a stream
    apps = [c for c in q.calls(f) if attr_tail(c) == "append" and norm(c.func.value) == acc]
    ctx.floor("R09.3", len(apps), 1, "accumulator appends")
    for a in apps:
        facts = [(norm(cd), pol) for cd, pol in q.facts_at(f, a)]
        ok = ("fileish is None", True) in facts and any(cd.endswith(".emptystream") and not pol for cd, pol in facts)
        ctx.check(ok, "R09.3", f, a, "members accumulated iff unselected and not empty-stream", "members are accumulated for skip-decoding under a different condition than 'unselected and has a stream'")
    # trailing check when nothing may be skipped
    ok = bool(after) and any((norm(cd), pol) == ("skip_notarget", False) for cd, pol in q.facts_at(f, after[0]))
    ctx.check(ok, "R09.3", f, after[0] if after else f.node, "remaining skipped members are checked when skip_notarget is off", "the trailing members are not decoded/checked when skip_notarget is False (testzip would miss them)",
              construct="trailing _check")
    # _check decodes every accumulated member into a null sink
    ck = ctx.prog.func("py7zr", "Worker._check")
    ok = any(isinstance(n, ast.For) and norm(n.iter) == ck.params[2] for n in walk(ck.node)) and any(attr_tail(c) == "NullIO" for c in q.calls(ck))
    ctx.check(ok, "R09.3", ck, ck.node, "_check decodes every accumulated member", "_check does not decode every accumulated member", construct="_check loop")


def _selection_expr(ctx: Ctx, f: Func, atom: ast.AST):
    """(expression, comprehension) of the folder-selection predicate behind `atom`: the atom itself, or the single return expression of a
    helper method it calls (inlined)."""
    def comp_in(e):
        for x in ast.walk(e):
            if isinstance(x, (ast.ListComp, ast.GeneratorExp)) and "target_filepath" in norm(x):
                return x
        return None
    c = comp_in(atom)
    if c is not None:
        return atom, c
    if isinstance(atom, ast.Call):
        for tq in shared.targets_of(ctx, f, atom):
            g = ctx.res._func_by_q(tq)
            if g is None:
                continue
            rets = [n for n in walk(g.node) if isinstance(n, ast.Return) and n.value is not None]
            if len(rets) == 1:
                c = comp_in(rets[0].value)
                if c is not None:
                    return rets[0].value, c
            # a search loop (`for m in members: if <selected>: return True` / `return False`) is the `any(...)` it computes: the helper's VALUE
            from ..inline import if_convert
            body = [st for st in g.node.body if not (isinstance(st, ast.Expr) and isinstance(st.value, ast.Constant))]
            val = if_convert(body) if len(rets) > 1 else None
            if isinstance(val, ast.Call) and isinstance(val.func, ast.Name) and val.func.id == "any" and comp_in(val) is not None:
                ast.fix_missing_locations(val)
                val._is_value = True  # type: ignore[attr-defined]
                return val, comp_in(val)
            # a predicate helper with several returns (`if folder.files is None: return True; if skip: if not any(...): return True; return False`):
            # the selection part is the condition under which it returns True after the skip flag was consulted
            for r in rets:
                if isinstance(r.value, ast.Constant) and r.value.value is True:
                    for cd, pol in q.facts_at(g, r):
                        c = comp_in(cd)
                        if c is not None:
                            expr = cd if pol else ast.UnaryOp(op=ast.Not(), operand=cd)
                            return expr, c
    return None, None


def _helper_consults_skip(ctx: Ctx, f: Func, atom: ast.AST) -> bool:
    """the predicate helper returns True for 'none selected' only under its skip flag, and the caller passes skip_notarget for it"""
    if not isinstance(atom, ast.Call):
        return False
    for tq in shared.targets_of(ctx, f, atom):
        g = ctx.res._func_by_q(tq)
        if g is None:
            continue
        params = g.params[1:] if g.cls else g.params
        for r in [n for n in walk(g.node) if isinstance(n, ast.Return) and isinstance(n.value, ast.Constant) and n.value.value is True]:
            facts = q.facts_at(g, r)
            if any("target_filepath" in norm(cd) for cd, _ in facts):
                flags = [cd.id for cd, pol in facts if pol and isinstance(cd, ast.Name) and cd.id in params]
                for fl in flags:
                    i = params.index(fl)
                    arg = atom.args[i] if i < len(atom.args) else next((k.value for k in atom.keywords if k.arg == fl), None)
                    if arg is not None and norm(arg) == "skip_notarget":
                        return True
    return False


def r09_4(ctx: Ctx) -> None:
    """folder skip predicate: 'no member of the folder is selected' (truth-table over a two-member folder)."""
    f = ctx.prog.func("py7zr", "Worker.extract")
    conts = [n for n in walk(f.node) if isinstance(n, ast.Continue)]
    n_found = 0
    for cont in conts:
        facts = q.facts_at(f, cont)
        pred = None
        for cd, pol in facts:
            inner = cd
            expr, comp = _selection_expr(ctx, f, inner)
            if comp is not None:
                pred = (cd, pol, expr, comp)
        if pred is None:
            # the whole decision may live in a predicate helper of either polarity (a method or a function nested in extract, `if not has_work(folder):
            # continue`): its body as one expression, judged in the model (member list None? / skipping allowed? / some member selected?)
            for cd, pol in facts:
                e = shared.pred_helper_expr(ctx, f, cd)
                if e is None or "target_filepath" not in norm(e):
                    continue
                n_found += 1
                try:
                    table = {(fn_, sk, se): (bool(shared.folder_pred_eval(e, fn_, sk, se)) == pol) for fn_ in (True, False) for sk in (True, False) for se in (True, False)}
                    want = {(fn_, sk, se): (True if fn_ else (sk and not se)) for fn_ in (True, False) for sk in (True, False) for se in (True, False)}
                    ok_sem, why = table == want, f"skip decisions {table}"
                except shared.Touched as t_:
                    ok_sem, why = False, f"the member list is iterated although it is None: {t_}"
                except shared.Unknown as u_:
                    ok_sem, why = False, f"not understood: {u_}"
                ctx.check(ok_sem, "R09.4", f, cont, "folder skipped iff it has no members, or skipping is allowed and none of its members is selected (predicate helper)",
                          f"the folder-skip helper behind `{norm(cd)[:60]}` is not 'no member list, or (skip_notarget and no member selected)': {why}")
                idk_ = any(isinstance(x, ast.Attribute) and x.attr == "id" for x in ast.walk(e))
                ctx.check(idk_, "R09.4", f, cont, "folder skip looks members up by id", "the folder-skip predicate does not look members up by member.id")
            continue
        n_found += 1
        cd, pol, expr, comp = pred
        via_helper = expr is not cd and not getattr(expr, "_is_value", False) and isinstance(cd, ast.Call) and not any(x is comp for x in ast.walk(cd)) and isinstance(expr, (ast.UnaryOp, ast.Call, ast.Compare, ast.BoolOp)) \
            and any(isinstance(r_, ast.Return) and isinstance(r_.value, ast.Constant) for tq in shared.targets_of(ctx, f, cd) for g_ in [ctx.res._func_by_q(tq)] if g_ is not None
                    for r_ in walk(g_.node) if len([x for x in walk(g_.node) if isinstance(x, ast.Return)]) > 1)
        fl = [(norm(c_), p_) for c_, p_ in facts]
        ctx.check(("skip_notarget", True) in fl or _helper_consults_skip(ctx, f, cd), "R09.4", f, cont, "folder skip only when skipping is allowed", "a folder can be skipped although skip_notarget is False")
        ok = len(comp.generators) == 1 and not comp.generators[0].ifs
        results = {}
        if ok:
            var = comp.generators[0].target.id
            for sel in ((False, False), (True, False), (False, True), (True, True)):
                vals = [_eval_elem(comp.elt, var, s_) for s_ in sel]
                if any(v is None for v in vals):
                    ok = False
                    break
                v = _eval_outer(expr, comp, vals)
                if v is None:
                    ok = False
                    break
                # the folder is skipped when the fact (cd, pol) holds; cd is `expr` itself or a call returning it
                results[sel] = (v == pol) if not via_helper else bool(v)
            if ok:
                want = {(False, False): True, (True, False): False, (False, True): False, (True, True): False}
                ok = results == want
        ctx.check(bool(ok), "R09.4", f, cont, "folder skipped iff none of its members is selected",
                  f"the folder-skip predicate `{norm(cd)}` (taken {'true' if pol else 'false'}) is not 'no member of the folder is selected' (skip decisions for "
                  f"(first selected, second selected) = {results}): a partially selected folder is skipped and its selected members are silently not delivered")
        idk = any(isinstance(x, ast.Attribute) and x.attr == "id" for x in ast.walk(comp))
        ctx.check(idk, "R09.4", f, cont, "folder skip looks members up by id", "the folder-skip predicate does not look members up by member.id")
    ctx.floor("R09.4", n_found, 2, "folder-skip tests (sequential and parallel branch)")
    c06.r06_5(ctx, rule="R09.4")


def _eval_elem(elt: ast.AST, var: str, selected: bool):
    """value of the per-member expression when the member's registered target is a path (selected) or None."""
    sentinel = object()

    def ev(e):
        if isinstance(e, ast.Call) and attr_tail(e) == "get" and "target_filepath" in norm(e.func.value):
            return "PATH" if selected else None
        if isinstance(e, ast.Subscript) and "target_filepath" in norm(e.value):
            return "PATH" if selected else None
        if isinstance(e, ast.Compare) and len(e.ops) == 1:
            l, r = ev(e.left), ev(e.comparators[0])
            if l is sentinel or r is sentinel:
                return sentinel
            if isinstance(e.ops[0], ast.Is):
                return l is r
            if isinstance(e.ops[0], ast.IsNot):
                return l is not r
            if isinstance(e.ops[0], ast.Eq):
                return l == r
            if isinstance(e.ops[0], ast.NotEq):
                return l != r
            return sentinel
        if isinstance(e, ast.Constant):
            return e.value
        if isinstance(e, ast.UnaryOp) and isinstance(e.op, ast.Not):
            v = ev(e.operand)
            return sentinel if v is sentinel else (not v)
        if isinstance(e, ast.Call) and dotted(e.func) == "bool" and e.args:
            v = ev(e.args[0])
            return sentinel if v is sentinel else bool(v)
        return sentinel
    v = ev(elt)
    return None if v is sentinel else ("T" if v else "F")


def _eval_outer(test: ast.AST, comp: ast.AST, vals: List[str]):
    truth = [v == "T" for v in vals]

    def ev(e):
        if e is comp:
            return truth
        if isinstance(e, ast.Call) and dotted(e.func) in ("any", "all") and e.args:
            inner = ev(e.args[0])
            if inner is None:
                return None
            return any(inner) if dotted(e.func) == "any" else all(inner)
        if isinstance(e, ast.UnaryOp) and isinstance(e.op, ast.Not):
            v = ev(e.operand)
            return None if v is None else (not v)
        return None
    return ev(test)


def r09_10(ctx: Ctx) -> None:
    """(a) a member that is not selected is REGISTERED as such, every time: Worker.register_filelike stores whatever it is given, None included -
    the None of a later call overwrites the output an earlier `extract(T1)` on the same object registered.  (b) Worker._check decodes and discards
    EVERY member it is handed, whatever its size: the call of decompress in its loop is unconditional (the first call on a folder builds the
    folder's decoder with the packed size; a zero-length streamed member skipped there leaves that to a later member, which does not know it).
    (c) the share of the step budget is a quotient by the number of folder tasks: where that number can be 0 (nothing to decode in this arm) the
    division stands under `> 0`."""
    rf = ctx.prog.func("py7zr", "Worker.register_filelike")
    sets = [n for n in walk(rf.node) if isinstance(n, ast.Assign) and isinstance(n.targets[0], ast.Subscript) and norm(n.targets[0].value).endswith("target_filepath")]
    ctx.floor("R09.10", len(sets), 1, "store in register_filelike")
    for n in sets:
        ctx.check(not q.facts_at(rf, n), "R09.10", rf, n, "register_filelike stores every registration, None included",
                  f"`{norm(n)}` is conditional: a registration of None is dropped, so the output that an earlier extract(T1) registered for a member stays in force - a second extract(T2) on the "
                  "same object delivers the members of T1 again (into the first call's writer, or Bad7zFile for another destination)", construct="conditional registration")
    ck = ctx.prog.func("py7zr", "Worker._check")
    for c in [c for c in q.calls(ck) if attr_tail(c) == "decompress"]:
        lps = q.enclosing_loops(ck, c)
        conds = q.facts_at(ck, c)
        skips = [x for lp in lps for st in lp.body for x in ast.walk(st) if isinstance(x, (ast.Continue, ast.Break))]
        ctx.check(bool(lps) and not conds and not skips, "R09.10", ck, c, "_check decodes every member it is handed",
                  "Worker._check passes over some of the members it is handed (a `continue`, or a condition around the decode): a zero-length streamed member at the start of a solid folder "
                  "is skipped, the folder's decoder is then built by a later member without the packed size, and selecting that member raises TypeError", construct="_check skips members")
    ex = ctx.prog.func("py7zr", "Worker.extract")
    n = 0
    for d in [x for x in walk(ex.node) if isinstance(x, ast.BinOp) and isinstance(x.op, (ast.FloorDiv, ast.Div, ast.Mod))]:
        den = q.expand_locals(ex, d.right)
        if not any(isinstance(x, ast.Call) and dotted(x.func) in ("len", "min") for x in ast.walk(den)):
            continue
        n += 1
        names = {x.id for x in ast.walk(d.right) if isinstance(x, ast.Name)}
        pos = any(pol and isinstance(cd, ast.Compare) and isinstance(cd.left, ast.Name) and cd.left.id in names and isinstance(cd.ops[0], ast.Gt) and isinstance(cd.comparators[0], ast.Constant)
                  and cd.comparators[0].value == 0 for cd, pol in q.facts_at(ex, d))
        ctx.check(pos, "R09.10", ex, d, "a division by the number of folder tasks stands under `> 0`",
                  f"`{norm(d)[:70]}`: the divisor is 0 when no folder has to be decoded in this arm (a selection of directories, stream-less empty files, absent names or nothing from a "
                  "multi-folder archive opened by name): ZeroDivisionError, while the same selection through a file object succeeds", construct="division by the task count")
    if n == 0:
        ctx.note("R09.10: no division by a task count in Worker.extract (nothing to guard)")


def r09_5(ctx: Ctx) -> None:
    f = shared.szf(ctx, "_extract")
    apps = [c for c in q.calls(f) if attr_tail(c) == "append" and norm(c.func.value) == "target_dirs"]
    ctx.floor("R09.5", len(apps), 1, "target_dirs.append")
    for a in apps:
        facts = [(norm(cd), pol) for cd, pol in q.facts_at(f, a)]
        ok = any(cd.endswith(".is_directory") and pol for cd, pol in facts)
        ctx.check(ok, "R09.5", f, a, "only selected directory members are pre-created", "a directory is queued for creation outside the 'selected directory member' branch")
        # the append sits after the filter arms (not reachable when the member was filtered out): dominated by no `continue` bypass
    lp = member_loops(ctx, f)[1]
    regs = [c for c in q.calls(f) if attr_tail(c) == "register_filelike" and not (isinstance(c.args[1], ast.Constant) and c.args[1].value is None)]
    cfg = cfg_of(f.node)
    for r in regs + apps:
        # not reachable from a `register None` statement in the same iteration
        nones = [c for c in q.calls(f) if attr_tail(c) == "register_filelike" and isinstance(c.args[1], ast.Constant) and c.args[1].value is None]
        it = cfg.by_ast[lp]
        ok = all(not cfg.reaches(q.node_for(f, n), q.node_for(f, r), avoid=[it]) for n in nones)
        ctx.check(ok, "R09.5", f, r, "filtered-out members never get an output", "a member that was registered None can still be given an output / directory in the same iteration")
    for m in [c for c in q.calls(f) if attr_tail(c) == "mkdir" and isinstance(c.func.value, ast.Name) and q.enclosing_loops(f, c)]:
        par = next((k.value for k in m.keywords if k.arg == "parents"), None)
        ctx.check(isinstance(par, ast.Constant) and par.value is True, "R09.5", f, m, "selected directory members are created with their missing ancestors",
                  "a selected directory member is created without parents=True: when its ancestors are not selected (and do not exist yet) extract() raises FileNotFoundError")
    es = ctx.prog.func("py7zr", "Worker._extract_single")
    mk = [c for c in q.calls(es) if attr_tail(c) == "mkdir"]
    for m in mk:
        facts = [(norm(cd), pol) for cd, pol in q.facts_at(es, m)]
        ok = ("fileish is None", False) in facts
        ctx.check(ok, "R09.5", es, m, "parent directories created only for members with an output", "parent directories are created for members without an output")


def r09_8(ctx: Ctx) -> None:
    """target matching in _extract: (a) 'beneath a named directory' is a path-component relation: the recursive arm tests
    `name.startswith(target + "/")`, never a bare string prefix (target 'al' must not select 'alphabet.txt'; names in T that are not in
    the archive are ignored); (b) extract() strips the trailing slash of every target, so the member name is normalised by the same
    function before it is compared (a directory stored as 'logs/' is selectable by 'logs' and by 'logs/')."""
    ex0 = shared.szf(ctx, "_extract")
    pub = shared.szf(ctx, "extract")
    n_sw = 0
    scope = selection_scope(ctx, ex0)
    for ex, c in [(g, c) for g in scope for c in q.calls(g)]:
        if attr_tail(c) != "startswith" or not c.args:
            continue
        # only prefix tests against an element of `targets`
        comp = None
        for n in walk(ex.node):
            if isinstance(n, (ast.ListComp, ast.GeneratorExp, ast.SetComp)) and any(x is c for x in ast.walk(n.elt)) and "targets" in norm(n.generators[0].iter):
                comp = n
        lp = [l for l in q.enclosing_loops(ex, c) if isinstance(l, ast.For) and "targets" in norm(l.iter)]
        if comp is None and not lp:
            continue
        n_sw += 1
        tv = comp.generators[0].target if comp is not None else lp[-1].target
        arg = c.args[0]
        bounded = False
        if isinstance(arg, ast.BinOp) and isinstance(arg.op, ast.Add) and isinstance(arg.right, ast.Constant) and arg.right.value in ("/", os_sep_text()):
            bounded = True
        if isinstance(arg, ast.JoinedStr) and arg.values and isinstance(arg.values[-1], ast.Constant) and str(arg.values[-1].value).endswith("/"):
            bounded = True
        if isinstance(arg, ast.Call) and attr_tail(arg) == "join" and any(isinstance(a, ast.Constant) and a.value == "" for a in arg.args):
            bounded = True
        ctx.check(bounded, "R09.8", ex, c, "recursive selection tests a '/'-bounded prefix",
                  f"`{norm(c)}` takes a bare string prefix of the member name as 'beneath the target' (`{norm(tv)}` without a separator): targets 'al' or 'b' select "
                  "'alphabet.txt' / 'beta.bin', and a name in T that is not in the archive is not ignored", construct="recursive prefix test")
    ex = ex0
    if n_sw == 0:
        # another correct form: some ancestor of the member name is a target (`any(str(p) in targets for p in PurePath(name).parents)`)
        anc = any(isinstance(n, ast.Attribute) and n.attr == "parents" for n in walk(ex.node)) and \
            any(isinstance(n, ast.Compare) and isinstance(n.ops[0], (ast.In, ast.NotIn)) and norm(n.comparators[0]) == "targets" and q.enclosing_loops(ex, n) for n in walk(ex.node))
        ctx.check(anc, "R09.8", ex, ex.node, "the recursive arm relates a member to ALL its ancestors",
                  "with recursive=True no test relates a member to every directory above it (neither a '/'-bounded prefix test over the targets nor a walk over the member's "
                  "ancestors): members more than one level beneath a named directory are not delivered", construct="recursive ancestor relation")
    strips = [c for c in q.calls(pub) if attr_tail(c) == "remove_trailing_slash"]
    if strips:
        tests = [n for n in walk(ex.node) if isinstance(n, ast.Compare) and len(n.ops) == 1 and isinstance(n.ops[0], (ast.In, ast.NotIn)) and norm(n.comparators[0]) == "targets"]
        if not tests and len(scope) > 1:
            # the membership tests live in a selection helper: the NAME ARGUMENT handed to it is the normalised one
            hcalls = [c for c in q.calls(ex) if isinstance(c.func, ast.Attribute) and any(c.func.attr == h.name for h in scope[1:])]
            ctx.floor("R09.8", len(hcalls), 1, "calls of the selection helper in _extract")
            for c in hcalls:
                ok = any(q.derives_from(ex, a_, lambda e: isinstance(e, ast.Call) and attr_tail(e) == "remove_trailing_slash") for a_ in c.args) or \
                    any(isinstance(x, ast.Call) and attr_tail(x) == "remove_trailing_slash" for h in scope[1:] for x in walk(h.node))
                ctx.check(ok, "R09.8", ex, c, "member name normalised like the targets before the membership test",
                          f"`{norm(c)}` is handed the member name as stored while extract() has removed the trailing '/' of the targets", construct="membership via helper")
            tests = None
        if tests is not None:
            ctx.floor("R09.8", len(tests), 2, "membership tests against targets in _extract")
        for t in tests or []:
            ok = q.derives_from(ex, t.left, lambda e: isinstance(e, ast.Call) and attr_tail(e) == "remove_trailing_slash")
            ctx.check(ok, "R09.8", ex, t, "member name normalised like the targets before the membership test",
                      f"`{norm(t)}` compares the member name as stored with targets whose trailing '/' extract() has removed: a directory member stored as 'logs/' can be "
                      "selected neither by 'logs/' nor by 'logs', and extract(targets=set(namelist())) differs from extractall()", construct=f"membership {norm(t.left)}")
    else:
        ctx.note("R09.8: extract() does not strip trailing slashes from targets; no normalisation to mirror")


def os_sep_text() -> str:
    return "/"


def run(ctx: Ctx) -> None:
    r09_10(ctx)
    r09_8(ctx)
    from . import c06 as _c06x
    _c06x.dispatch_forwards_skip(ctx, "R09.7")
    from . import c06 as _c06
    _c06.r06_10(ctx, rule="R09.6")  # selective extraction skips folders: the remaining tasks must keep their own byte windows
    r09_1(ctx)
    r09_2(ctx)
    r09_3(ctx)
    r09_4(ctx)
    r09_5(ctx)
