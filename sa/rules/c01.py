"""C01 — content round trip: codec registry agreement, byte accounting of the pipelines, id bookkeeping."""
from __future__ import annotations

import ast
from typing import Dict, List, Optional, Set, Tuple

from ..cfg import cfg_of
from ..consteval import ClassRef, EnumVal, NotConst
from ..model import AnalysisError, Func, attr_tail, dotted, norm, walk
from ..report import Ctx
from .. import q
from . import shared

EXPLANATION = (
    "Necessary conditions of 'what is written is what is read' that are visible in the code's shape: the codec tables agree "
    "between writer and reader (ids unique, every non-native method has a compressor AND a decompressor class, the writer "
    "binds compressor and properties for every method that needs properties, constructor arities match the dispatch, the BCJ "
    "special-case lists agree); the compress/flush pipelines account for bytes correctly (member CRC over the data BEFORE the "
    "chain, pack size/digest/file write over the data AFTER the last stage, every stage flushed and its tail fed forward); "
    "the AES stages cut at the 16-aligned floor of the TOTAL buffered length with complementary slices; the decoder's "
    "carry-over buffer and its read position are replaced together; writer and reader reorder unpack sizes by the same "
    "recurrence; per-folder member lists carry the members' own ids. Not decided: byte equality for all inputs and the "
    "behaviour of the codec libraries."
)
TRUSTED = ["CPython ast parser", "sa.consteval (literal tables)", "sa.cfg dominators"]


def _tables(ctx: Ctx):
    try:
        methods = ctx.ce.class_const("SupportedMethods", "methods")
        amap = ctx.ce.module_const("compressor", "algorithm_class_map")
    except NotConst as e:
        raise AnalysisError(f"codec tables not constant: {e}")
    return methods, amap


def _filter_consts_compared(ctx: Ctx, f: Func, var: str, within: Optional[ast.AST] = None) -> Set[int]:
    out: Set[int] = set()
    root = within if within is not None else f.node
    for n in ast.walk(root):
        if isinstance(n, ast.Compare) and len(n.ops) == 1:
            l, r = n.left, n.comparators[0]
            if norm(l) == var and isinstance(n.ops[0], ast.Eq):
                try:
                    out.add(ctx.ce.eval(r, f.module))
                except NotConst:
                    pass
            if norm(l) == var and isinstance(n.ops[0], ast.In):
                try:
                    vals = ctx.ce.eval(r, f.module)
                    out |= set(vals)
                except (NotConst, TypeError):
                    pass
    return out


def r01_1(ctx: Ctx, rule: str = "R01.1", decoder_only: bool = False) -> None:
    methods, amap = _tables(ctx)
    ctx.floor(rule, len(methods), 15, "rows of SupportedMethods.methods")
    ctx.floor(rule, len(amap), 11, "entries of algorithm_class_map")
    tbl = "compressor:SupportedMethods.methods"
    ids = [m["id"] for m in methods]
    fids = [m["filter_id"] for m in methods]
    ctx.check(len(set(ids)) == len(ids), rule, tbl, None, "method ids unique", "duplicate method id in SupportedMethods.methods (the first row wins on lookup)", construct="method ids unique")
    ctx.check(len(set(fids)) == len(fids), rule, tbl, None, "filter ids unique", "duplicate filter id in SupportedMethods.methods", construct="filter ids unique")
    by_fid = {m["filter_id"]: m for m in methods}
    for m in methods:
        if not m["native"]:
            ent = amap.get(m["filter_id"])
            ok = ent is not None and isinstance(ent, tuple) and len(ent) == 2 and isinstance(ent[1], ClassRef) and (decoder_only or isinstance(ent[0], ClassRef))
            ctx.check(ok, rule, "compressor:algorithm_class_map", None, f"non-native method {m['name']} has codec classes",
                      f"method {m['name']} is not native to lzma but algorithm_class_map has no {'decompressor' if decoder_only else 'compressor/decompressor'} class for it",
                      construct=f"algorithm_class_map[{m['name']}]")
    for k in amap:
        ctx.check(k in by_fid, rule, "compressor:algorithm_class_map", None, f"map key {k:#x} is a known method", f"algorithm_class_map key {k:#x} is not in SupportedMethods.methods",
                  construct=f"algorithm_class_map key {k:#x}")
    # decoder dispatch arities
    gad = ctx.prog.func("compressor", "SevenZipDecompressor._get_alternative_decompressor")
    for fid, ent in amap.items():
        m = by_fid.get(fid)
        if m is None or not isinstance(ent[1], ClassRef) or ent[1].external:
            continue
        dc = ctx.prog.cls(ent[1].name, "compressor")
        init = ctx.prog.method(dc, "__init__")
        npar = len(init.params) - 1 if init is not None else 0
        if m["type"] == EnumVal("MethodsType", "crypto"):
            want = 3
        elif m["type"] == EnumVal("MethodsType", "filter"):
            want = 1
        elif m["need_prop"]:
            want = 2
        else:
            want = 0
        ctx.check(npar == want, rule, init or dc.name, init.node if init else None, f"{dc.name}.__init__ takes {want} argument(s) as dispatched",
                  f"{dc.name}.__init__ takes {npar} argument(s) but the decoder dispatch passes {want} for a {m['type']} method with need_prop={m['need_prop']}",
                  construct=f"{dc.name} ctor arity")
        dm = ctx.prog.method(dc, "decompress")
        ok = dm is not None and len(dm.params) >= 3
        ctx.check(ok, rule, dm or dc.name, dm.node if dm else None, f"{dc.name}.decompress(data, max_length)", f"{dc.name}.decompress does not accept (data, max_length)", construct=f"{dc.name}.decompress signature")
    # BCJ special-case lists
    bcj_methods = {m["filter_id"] for m in methods if m["type"] == EnumVal("MethodsType", "filter") and m["filter_id"] in amap}
    rd_init = ctx.prog.func("compressor", "SevenZipDecompressor.__init__")
    r1 = _filter_consts_compared(ctx, rd_init, "filter_id")
    # the special case may have been moved into a helper the constructor calls (a function that did not exist when the rules were written)
    from ..inline import known_functions as _kf
    for c_ in q.calls(rd_init):
        cs_ = ctx.res.site_of(rd_init, c_)
        for t_ in (cs_.targets if cs_ is not None else []):
            if _kf() and t_.qname not in _kf() and t_.module == "compressor":
                r1 |= _filter_consts_compared(ctx, t_, "filter_id")
    r1 -= {by_fid_name(methods, "LZMA2")}
    r2 = _filter_consts_compared(ctx, gad, "filter_id")
    ctx.check(r1 == bcj_methods, rule, "compressor:SevenZipDecompressor.__init__", None, "reader BCJ list (chain hack) = BCJ entries of the class map",
              f"SevenZipDecompressor.__init__ special-cases filters {sorted(r1)} but the class map has BCJ decoders for {sorted(bcj_methods)}", construct="reader BCJ list 1")
    ctx.check(r2 == bcj_methods, rule, gad, gad.node, "reader BCJ list (decoder dispatch) = BCJ entries of the class map",
              f"_get_alternative_decompressor special-cases filters {sorted(r2)} but the class map has BCJ decoders for {sorted(bcj_methods)}", construct="reader BCJ list 2")
    if decoder_only:
        return
    winit = ctx.prog.func("compressor", "SevenZipCompressor.__init__")
    w = _filter_consts_compared(ctx, winit, "f['id']") - {by_fid_name(methods, "LZMA2")}
    ctx.check(w == bcj_methods, rule, winit, winit.node, "writer BCJ list = reader BCJ list",
              f"SevenZipCompressor.__init__ moves filters {sorted(w)} to the alternative chain but the reader special-cases {sorted(bcj_methods)}", construct="writer BCJ list")
    # writer: every need_prop non-crypto non-native method has an arm that binds compressor and properties
    sac = ctx.prog.func("compressor", "SevenZipCompressor._set_alternate_compressors_coders")
    need = {m["filter_id"] for m in methods if not m["native"] and m["need_prop"] and m["type"] != EnumVal("MethodsType", "crypto")}
    arms = [n for n in walk(sac.node) if isinstance(n, ast.If) and isinstance(n.test, ast.Call) and attr_tail(n.test) == "need_property"]
    ctx.need(len(arms) >= 1, "need_property arm of _set_alternate_compressors_coders not recognised")
    handled: Set[int] = set()
    for st in arms[0].body:
        handled |= _filter_consts_compared(ctx, sac, "filter_id", st)
    ctx.check(handled == need, rule, sac, arms[0], "writer has an arm for every method that needs properties",
              f"methods that need properties {sorted(need)} vs arms in the writer {sorted(handled)}: for a missing one `compressor` is unbound when the chain is built",
              construct="need_prop arms")
    # each such arm binds both names
    node = arms[0].body[0] if arms[0].body and isinstance(arms[0].body[0], ast.If) else None
    while node is not None:
        names = {t.id for s in node.body for x in ast.walk(s) if isinstance(x, ast.Assign) for t in x.targets if isinstance(t, ast.Name)}
        ctx.check({"compressor", "properties"} <= names, rule, sac, node.test, f"arm {norm(node.test)} binds compressor and properties",
                  f"the arm {norm(node.test)} does not bind both `compressor` and `properties`")
        node = node.orelse[0] if node.orelse and isinstance(node.orelse[0], ast.If) else None
    # compressor classes: compress(data) and flush()
    for fid, ent in amap.items():
        if isinstance(ent[0], ClassRef) and not ent[0].external:
            cc = ctx.prog.cls(ent[0].name, "compressor")
            ok = ctx.prog.method(cc, "compress") is not None and ctx.prog.method(cc, "flush") is not None
            ctx.check(ok, rule, cc.name, None, f"{cc.name} has compress and flush", f"{cc.name} lacks compress() or flush()", construct=f"{cc.name} interface")
    # native coders: properties are encoded exactly for the native methods that need them
    gc = ctx.prog.func("compressor", "SupportedMethods.get_coder")
    native_need = {m["filter_id"] for m in methods if m["native"] and m["need_prop"]}
    enc = [c for c in q.calls(gc) if attr_tail(c) == "_encode_filter_properties"]
    got: Set[int] = set()
    recognised = False
    for c in enc:
        for cd, pol in q.facts_at(gc, c):
            if pol and isinstance(cd, ast.Compare) and isinstance(cd.ops[0], ast.In):
                try:
                    got |= set(ctx.ce.eval(cd.comparators[0], "compressor"))
                    recognised = True
                except (NotConst, TypeError):
                    pass
    ctx.check(recognised and got == native_need, rule, gc, enc[0] if enc else gc.node, "native coders: properties encoded for exactly the methods that need them",
              f"get_coder encodes filter properties for {sorted(got) if recognised else 'a condition that is not a constant id list'} but the method table says {sorted(native_need)} need them: "
              "e.g. a Delta filter written without its distance is decoded with distance 1", construct="get_coder property set")
    # the coder record of an alternative coder names the method id of the same filter
    ok = any(isinstance(c, ast.Call) and attr_tail(c) == "get_method_id" and c.args and norm(c.args[0]) == "filter_id" for c in q.calls(sac))
    ctx.check(ok, rule, sac, sac.node, "coder record carries the method id of the filter used", "the coder record is not built from get_method_id(filter_id)", construct="coder method id")


def by_fid_name(methods, name: str) -> int:
    return next(m["filter_id"] for m in methods if m["name"] == name)


def _arch_write(c: ast.Call):
    """(handle, operand) of a write of one block to the archive: `fp.write(x)`, or `write_pieces(fp, x)` (helpers: the same bytes, handed to a
    multi-volume file a volume at a time)"""
    if isinstance(c.func, ast.Attribute) and c.func.attr == "write" and len(c.args) == 1:
        return norm(c.func.value), norm(c.args[0])
    if (dotted(c.func) or "").split(".")[-1] == "write_pieces" and len(c.args) == 2:
        return norm(c.args[0]), norm(c.args[1])
    return None


def r01_2(ctx: Ctx) -> None:
    # ---- SevenZipCompressor.compress -----------------------------------------------------
    f = ctx.prog.func("compressor", "SevenZipCompressor.compress")
    cfg = cfg_of(f.node)
    loops = [n for n in walk(f.node) if isinstance(n, ast.While)]
    ctx.need(len(loops) == 1 and isinstance(loops[0].test, ast.Name), "block loop of SevenZipCompressor.compress not recognised")
    lp = loops[0]
    var = lp.test.id
    src, dst = f.params[1], f.params[2]
    chain = [n for n in lp.body if isinstance(n, ast.For)]
    ctx.need(len(chain) == 1, "chain loop not recognised")
    ch = chain[0]
    crc = [c for c in q.calls(f) if attr_tail(c) == "calculate_crc32" and c.args and norm(c.args[0]) == var and len(c.args) > 1 and norm(c.args[1]) in f.params]
    ok = bool(crc) and cfg.dominates(q.node_for(f, crc[0]), cfg.by_ast[ch]) and q.enclosing_loops(f, crc[0]) == [lp]
    ctx.check(ok, "R01.2", f, crc[0] if crc else lp, "member CRC taken over the block before the codec chain",
              "the member CRC is not computed over the input block before the codec chain (it would be the CRC of compressed data)", construct="member crc position")
    stage = [n for n in ch.body if isinstance(n, ast.Assign) and isinstance(n.value, ast.Call) and attr_tail(n.value) == "compress" and norm(n.targets[0]) == var
             and n.value.args and norm(n.value.args[0]) == var]
    ctx.check(len(stage) == 1, "R01.2", f, ch, "each stage consumes the previous stage's output", "the codec chain does not feed each stage with the previous stage's output", construct="chain feed-forward")
    usz = [n for n in ch.body if isinstance(n, ast.AugAssign) and "_unpacksizes" in norm(n.target) and isinstance(n.value, ast.Call) and dotted(n.value.func) == "len" and norm(n.value.args[0]) == var]
    ok = len(usz) == 1 and bool(stage) and ch.body.index(usz[0]) < ch.body.index(stage[0])
    ctx.check(ok, "R01.2", f, ch, "per-stage unpack size counts the stage's INPUT", "per-stage unpack sizes are not advanced by the length of the stage's input", construct="stage unpack size")
    post = lp.body[lp.body.index(ch) + 1:]
    post_src = [norm(s) for s in post]
    wr = [c for s in post for c in ast.walk(s) if isinstance(c, ast.Call) and _arch_write(c) is not None]
    ok = len(wr) == 1 and _arch_write(wr[0]) == (dst, var)
    ctx.check(ok, "R01.2", f, wr[0] if wr else lp, "only the last stage's output is written to the archive", "the block written to the archive is not the output of the last stage", construct="archive write operand")
    ps = [s for s in post if isinstance(s, ast.AugAssign) and norm(s.target) == "self.packsize" and norm(s.value) == f"len({var})"]
    dg = [s for s in post if isinstance(s, ast.Assign) and norm(s.targets[0]) == "self.digest" and isinstance(s.value, ast.Call) and attr_tail(s.value) == "calculate_crc32"
          and norm(s.value.args[0]) == var and len(s.value.args) > 1 and norm(s.value.args[1]) == "self.digest"]
    fo = [s for s in post if isinstance(s, ast.AugAssign) and isinstance(s.target, ast.Name) and norm(s.value) == f"len({var})"]
    ctx.check(len(ps) == 1 and len(dg) == 1 and len(fo) >= 1, "R01.2", f, lp, "packsize, pack digest and foutsize advance by what is written",
              "packsize / pack digest / returned output size are not advanced by exactly the written block", construct="pack accounting")
    rd = [s for s in post if isinstance(s, ast.Assign) and norm(s.targets[0]) == var and isinstance(s.value, ast.Call) and attr_tail(s.value) == "read" and norm(s.value.func.value) == src]
    ins = [s for s in walk(f.node) if isinstance(s, ast.AugAssign) and isinstance(s.target, ast.Name) and s.target.id != (fo[0].target.id if fo else "") and norm(s.value) == f"len({var})"]
    first = [s for s in f.node.body if isinstance(s, ast.Assign) and norm(s.targets[0]) == var and isinstance(s.value, ast.Call) and attr_tail(s.value) == "read"]
    ok = len(rd) == 1 and bool(first) and bool(ins) and post.index(rd[0]) > post.index(wr_stmt(post, wr[0])) if wr else False
    ctx.check(bool(ok), "R01.2", f, lp, "next block read after the write; input size counts every block read", "the next block is read before the current one is written, or the input size misses a block",
              construct="read/write order")
    ok = all(isinstance(s.value.args[0], ast.Attribute) and s.value.args[0].attr == "_block_size" for s in first + rd)
    ctx.check(ok, "R01.2", f, lp, "reads are bounded by the block size", "source reads are not bounded by the block size", construct="block size reads")
    rets = [n for n in walk(f.node) if isinstance(n, ast.Return) and isinstance(n.value, ast.Tuple) and len(n.value.elts) == 3]
    ok = bool(rets) and bool(ins) and bool(fo) and [norm(e) for e in rets[0].value.elts] == [ins[0].target.id, fo[0].target.id, norm(crc[0].args[1]) if crc else "?"]
    ctx.check(ok, "R01.2", f, rets[0] if rets else f.node, "returns (input size, output size, member crc)", "compress() does not return (input size, output size, member CRC) in this order", construct="compress result")
    # ---- SevenZipCompressor.flush -----------------------------------------------------------
    g = ctx.prog.func("compressor", "SevenZipCompressor.flush")
    loops = [n for n in walk(g.node) if isinstance(n, ast.For)]
    ctx.need(len(loops) == 1, "flush chain loop not recognised")
    ifs = [n for n in loops[0].body if isinstance(n, ast.If)]
    ctx.need(len(ifs) == 1, "flush carry branch not recognised")
    carry = ifs[0]
    v = norm(carry.test)
    b_src = [norm(s) for s in carry.body]
    e_src = [norm(s) for s in carry.orelse]
    comp_i = next((i for i, s in enumerate(carry.body) if isinstance(s, ast.Assign) and isinstance(s.value, ast.Call) and attr_tail(s.value) == "compress" and norm(s.targets[0]) == v
                   and norm(s.value.args[0]) == v), None)
    fl_i = next((i for i, s in enumerate(carry.body) if isinstance(s, ast.AugAssign) and isinstance(s.op, ast.Add) and norm(s.target) == v and isinstance(s.value, ast.Call)
                 and attr_tail(s.value) == "flush"), None)
    ok = comp_i is not None and fl_i is not None and comp_i < fl_i
    ctx.check(ok, "R01.2", g, carry, "flush: a stage first compresses the carried tail, then appends its own flush output",
              "flush(): a stage's own flush output is not appended to the compressed tail carried from the previous stage (the last bytes of the stream are lost)", construct="flush carry arm")
    ok = any(isinstance(s, ast.Assign) and norm(s.targets[0]) == v and isinstance(s.value, ast.Call) and attr_tail(s.value) == "flush" for s in carry.orelse)
    ctx.check(ok, "R01.2", g, carry, "flush: a stage with nothing carried is still flushed", "flush(): a stage with no carried data is not flushed", construct="flush empty arm")
    ok = any(isinstance(s, ast.AugAssign) and "_unpacksizes" in norm(s.target) and norm(s.value) == f"len({v})" for s in carry.body)
    ctx.check(ok, "R01.2", g, carry, "flush: carried tail counted in the stage's unpack size", "flush(): the carried tail is not added to the stage's unpack size", construct="flush unpack size")
    wr = [c for c in q.calls(g) if _arch_write(c) is not None]
    ok = len(wr) == 1 and _arch_write(wr[0]) == (g.params[1], v) and not q.enclosing_loops(g, wr[0])
    src_all = [norm(s) for s in g.node.body]
    ok = ok and f"self.packsize += len({v})" in src_all and f"self.digest = calculate_crc32({v}, self.digest)" in src_all
    ctx.check(ok, "R01.2", g, wr[0] if wr else g.node, "flush: last stage's tail written once and accounted", "flush(): the final tail is not written once to the archive and added to packsize/digest", construct="flush write")
    # ---- AES stages: cut position and complementary slices ------------------------------------
    for qual in ("AESCompressor.compress", "AESDecompressor.decompress"):
        a = ctx.prog.func("compressor", qual)
        dparam = a.params[1]
        cuts = [n for n in walk(a.node) if isinstance(n, ast.Assign) and isinstance(n.value, ast.BinOp) and isinstance(n.value.op, ast.BitAnd) and isinstance(n.targets[0], ast.Name)
                and any(isinstance(x, ast.UnaryOp) and isinstance(x.op, ast.Invert) for x in ast.walk(n.value))]
        ctx.need(len(cuts) == 1, f"{qual}: cut position not recognised")
        cut = cuts[0]
        srcs = q.sources_of(a, cut.value.left, depth=2)
        total = any(isinstance(s, ast.BinOp) and isinstance(s.op, ast.Add) and "len(self.buf)" in norm(s) and f"len({dparam})" in norm(s) for s in srcs)
        mask = [ctx.ce.eval(x, "compressor") for x in ast.walk(cut.value) if isinstance(x, ast.UnaryOp) and isinstance(x.op, ast.Invert)]
        ctx.check(total and mask == [~0x0F], "R01.2", a, cut, f"{qual}: cut = 16-aligned floor of (buffered + new) length",
                  f"{qual}: the cut position is not (len(buffer) + len(data)) & ~0x0F: the encrypted part is not block aligned / the slice index can go negative", construct=f"{qual} cut position")
        slices = [n for n in walk(a.node) if isinstance(n, ast.Subscript) and isinstance(n.slice, ast.Slice) and norm(n.value) == dparam]
        heads = {norm(s.slice.upper) for s in slices if s.slice.lower is None and s.slice.upper is not None}
        tails = {norm(s.slice.lower) for s in slices if s.slice.upper is None and s.slice.lower is not None}
        ok = len(heads) == 1 and heads == tails
        if ok:
            up = next(s.slice.upper for s in slices if s.slice.lower is None and s.slice.upper is not None)
            k = norm(q.expand_locals(a, up, keep={cut.targets[0].id}))
            # the buffered length must be the one measured BEFORE the head is appended to the buffer
            ok = k == f"{cut.targets[0].id} - len(self.buf)"
            if ok and isinstance(up, ast.BinOp) and isinstance(up.right, ast.Name):
                meas = [n for n in walk(a.node) if isinstance(n, ast.Assign) and norm(n.targets[0]) == up.right.id]
                adds = [c for c in q.calls(a) if attr_tail(c) == "add" and c.args and isinstance(c.args[0], ast.Subscript)]
                acfg = cfg_of(a.node)
                ok = bool(meas) and all(acfg.dominates(q.node_for(a, meas[0]), q.node_for(a, c)) for c in adds)
        ctx.check(ok, "R01.2", a, slices[0] if slices else a.node, f"{qual}: head/tail slices are complementary at cut - buffered",
                  f"{qual}: the processed head {sorted(heads)} and the retained tail {sorted(tails)} of the data are not complementary slices at (cut - buffered length)", construct=f"{qual} slices")
        # a direct len(self.buf) inside a slice bound must be evaluated before the buffer is modified in that call
        acfg0 = cfg_of(a.node)
        muts = [c for c in q.calls(a) if attr_tail(c) in ("add", "set", "reset") and norm(c.func.value) == "self.buf"]
        for s_ in slices:
            direct = [x for x in ast.walk(s_.slice) if isinstance(x, ast.Call) and dotted(x.func) == "len" and x.args and norm(x.args[0]) == "self.buf"]
            if not direct:
                continue
            sn_ = q.node_for(a, s_)
            stale = [m for m in muts if q.node_for(a, m) is not sn_ and acfg0.reaches(q.node_for(a, m), sn_) and not acfg0.reaches(sn_, q.node_for(a, m))] + \
                    [m for m in muts if q.node_for(a, m) is not sn_ and acfg0.dominates(q.node_for(a, m), sn_)]
            ctx.check(not stale, "R01.2", a, s_, f"{qual}: slice bound uses the buffered length measured before the buffer changes",
                      f"{qual}: the slice bound `{norm(s_.slice)}` reads len(self.buf) after the buffer was already modified ({norm(stale[0]) if stale else ''}): head and tail no longer partition the data")
        # head goes to the cipher through the buffer, tail is retained with set()
        ok = any(attr_tail(c) == "add" and c.args and isinstance(c.args[0], ast.Subscript) and c.args[0].slice.lower is None for c in q.calls(a)) and \
            any(attr_tail(c) == "set" for c in q.calls(a))
        ctx.check(ok, "R01.2", a, a.node, f"{qual}: head appended to the buffer, tail kept for the next call", f"{qual}: the unaligned tail is not kept for the next call", construct=f"{qual} retain")
        for c in [c for c in q.calls(a) if attr_tail(c) in ("encrypt", "decrypt")]:
            ok = norm(c.args[0]) == "self.buf.view"
            ctx.check(ok, "R01.2", a, c, f"{qual}: cipher is applied to the whole buffer", f"{qual}: the cipher is applied to something other than the block buffer")
    fl = ctx.prog.func("compressor", "AESCompressor.flush")
    padcalls = [c for c in q.calls(fl) if attr_tail(c) == "add" and c.args and isinstance(c.args[0], ast.Call) and dotted(c.args[0].func) == "bytes" and c.args[0].args]
    ok = bool(padcalls) and norm(q.expand_locals(fl, padcalls[0].args[0].args[0])) in ("-len(self.buf) & 15", "-len(self.buf) & 0x0F", "-len(self.buf) % 16") \
        and any(attr_tail(c) == "encrypt" for c in q.calls(fl))
    ctx.check(ok, "R01.2", fl, fl.node, "AES flush pads the residue to 16 and encrypts it", "AESCompressor.flush does not zero-pad the residue to the block size and encrypt it", construct="aes flush")
    # ---- decoder carry-over: _buf and _pos replaced together ------------------------------------
    d = ctx.prog.func("compressor", "SevenZipDecompressor.decompress")
    dcfg = cfg_of(d.node)
    bufs = [n for n in walk(d.node) if isinstance(n, ast.Assign) and any(norm(t) == "self._buf" for t in n.targets)]
    poss = [n for n in walk(d.node) if isinstance(n, ast.Assign) and any(norm(t) == "self._pos" for t in n.targets) and isinstance(n.value, ast.Constant) and n.value.value == 0]
    ctx.floor("R01.2", len(bufs), 2, "assignments to the decoder carry-over buffer")
    for b in bufs:
        ok = dcfg.every_path_to_exit_passes(q.node_for(d, b), [q.node_for(d, p) for p in poss])
        ctx.check(ok, "R01.2", d, b, "carry-over buffer replaced together with its read position",
                  "the decoder's carry-over buffer is replaced but its read position is not reset on that path: the next call skips or re-delivers bytes")
    # ... and the other way round: the position goes back to 0 only where the buffer it indexes has been replaced (a reset that leaves the old
    # buffer in place delivers its bytes a second time)
    for p_ in poss:
        pn = q.node_for(d, p_)
        # every way to the reset passes an assignment of the buffer (one per arm of a conditional will do)
        ok = bool(bufs) and not dcfg.reaches(dcfg.entry, pn, avoid=[q.node_for(d, b) for b in bufs])
        ctx.check(ok, "R01.2", d, p_, "the read position is reset only where the carry-over buffer was replaced",
                  "`self._pos = 0` on a path that has not replaced `self._buf`: the bytes that were already delivered from the buffer are delivered again by the next call",
                  construct="decoder pos reset without buffer replacement")
    dec_names = {n.targets[0].id for n in walk(d.node) if isinstance(n, ast.Assign) and isinstance(n.targets[0], ast.Name) and isinstance(n.value, ast.Call)
                 and attr_tail(n.value) == "_decompress"}
    sl = [n for n in walk(d.node) if isinstance(n, ast.Subscript) and isinstance(n.slice, ast.Slice) and norm(n.value) in dec_names]
    heads = {norm(s.slice.upper) for s in sl if s.slice.lower is None}
    tails = {norm(s.slice.lower) for s in sl if s.slice.upper is None}
    ctx.check(len(heads) == 1 and heads == tails, "R01.2", d, sl[0] if sl else d.node, "surplus decoded bytes: delivered head and parked tail are complementary",
              f"decoded data is split into delivered {sorted(heads)} and parked {sorted(tails)}: not complementary", construct="decoder surplus slices")
    # served-from-buffer branch advances the position by what it returns
    adv = [n for n in walk(d.node) if isinstance(n, ast.AugAssign) and norm(n.target) == "self._pos"]
    ok = len(adv) == 1 and norm(adv[0].value) == "max_length"
    ctx.check(ok, "R01.2", d, adv[0] if adv else d.node, "buffer-served branch advances the position by the amount returned", "the buffer-served branch does not advance the read position by max_length", construct="decoder pos advance")


def r01_17(ctx: Ctx, rule: str = "R01.17") -> None:
    """what the writer accepts the reader can decode: the reader hands runs of native coders to liblzma as one raw chain each, and such a
    chain has to begin (in record order) with LZMA or LZMA2.  Folder.prepare_coderinfo, behind the construction of the compressor, calls a
    check that raises UnsupportedCompressionMethodError unless every run does - and the runs are formed as the reader forms them: the
    function that groups them for the writer and SevenZipDecompressor.__init__ name the same branch filters in their special case and test
    the same compressor condition.  Without it 'Delta + BCJ + LZMA', two branch filters in front of another codec or a lone branch filter
    are written without any error and can never be read back (34 of 585 chains of up to three filters)."""
    pc = ctx.prog.func("archiveinfo", "Folder.prepare_coderinfo")
    cfg = cfg_of(pc.node)
    mk = [c for c in q.calls(pc) if attr_tail(c) == "SevenZipCompressor" or dotted(c.func) == "SevenZipCompressor"]
    ctx.floor(rule, len(mk), 1, "SevenZipCompressor construction in prepare_coderinfo")
    checks = []
    for c in q.calls(pc):
        cs = ctx.res.site_of(pc, c)
        for t in (cs.targets if cs is not None else []):
            body = list(walk(t.node))
            for c2 in [x for x in body if isinstance(x, ast.Call)]:
                cs2 = ctx.res.site_of(t, c2)
                for t2 in (cs2.targets if cs2 is not None else []):
                    body += list(walk(t2.node))
            raises = any(isinstance(x, ast.Raise) and x.exc is not None and "UnsupportedCompressionMethodError" in norm(x.exc) for x in walk(t.node))
            names = {x.id for x in body if isinstance(x, ast.Name)}
            if raises and {"FILTER_LZMA", "FILTER_LZMA2"} <= names and t.module == "compressor" and t.name not in ("__init__",):
                checks.append((c, t))
    ok = any(all(cfg.dominates(q.node_for(pc, m), q.node_for(pc, c)) for m in mk) and cfg.every_path_to_exit_passes(cfg.entry, [q.node_for(pc, c)]) for c, t in checks)
    ctx.check(ok, rule, pc, mk[0], "a filter chain the reader cannot decode is refused when the folder's compressor is built",
              "Folder.prepare_coderinfo builds the compressor and never asks whether the reader can decode the chain: `filters=[Delta, X86, LZMA]`, `[X86, ARM, BZip2]` or `[X86]` "
              "are written without any error, and extraction of the archive fails with LZMAError('Invalid or unsupported options')", construct="unreadable chain accepted")
    # sibling agreement of the grouping
    rd = ctx.prog.func("compressor", "SevenZipDecompressor.__init__")
    from ..inline import known_functions as _kf

    def special(fn) -> Tuple[set, set]:
        bcj, cond = set(), set()
        for x in walk(fn.node):
            seq = x.comparators[0] if isinstance(x, ast.Compare) and isinstance(x.ops[0], ast.In) else None
            if isinstance(seq, ast.Name):
                # a module-level constant that lists the filters
                seq = next((n.value for n in ctx.prog.module(fn.module).tree.body if isinstance(n, ast.Assign) and any(isinstance(t_, ast.Name) and t_.id == seq.id for t_ in n.targets)), None)
            if isinstance(seq, (ast.List, ast.Tuple)):
                ids = {e.id for e in seq.elts if isinstance(e, ast.Name) and e.id.startswith("FILTER_")}
                if ids:
                    bcj |= ids
            if isinstance(x, ast.BoolOp) and isinstance(x.op, ast.And) and any(isinstance(v, ast.Call) and attr_tail(v) == "is_compressor_id" for v in x.values):
                cond.add(" and ".join(sorted(norm(v) for v in x.values)))
        return bcj, cond
    for c, t in checks:
        grp = [t] + [t2 for c2 in walk(t.node) if isinstance(c2, ast.Call) for t2 in ((ctx.res.site_of(t, c2).targets if ctx.res.site_of(t, c2) is not None else []))]
        got_b, got_c = set(), set()
        for g_ in grp:
            b_, c_ = special(g_)
            got_b |= b_
            got_c |= c_
        want_b, want_c = special(rd)
        for c_ in q.calls(rd):
            cs_ = ctx.res.site_of(rd, c_)
            for t_ in (cs_.targets if cs_ is not None else []):
                if _kf() and t_.qname not in _kf() and t_.module == "compressor":
                    b_, c2_ = special(t_)
                    want_b |= b_
                    want_c |= c2_
        ctx.check(got_b == want_b and got_c == want_c, rule, t, t.node, "the writer's check groups the coders as the reader does",
                  f"the check the writer applies names the branch filters {sorted(got_b)} / condition {sorted(got_c)} in its special case, SevenZipDecompressor.__init__ names "
                  f"{sorted(want_b)} / {sorted(want_c)}: the two group the coders differently, so the writer accepts chains the reader cannot decode (or refuses readable ones)",
                  construct="writer/reader grouping disagree")


def wr_stmt(post: List[ast.stmt], call: ast.Call) -> ast.stmt:
    for s in post:
        if any(x is call for x in ast.walk(s)):
            return s
    raise AnalysisError("write statement not found")


def r01_6(ctx: Ctx) -> None:
    """names given to writestr/writef are stored as given (validated, never rewritten)."""
    chain = [("writestr", "_writestr"), ("_writestr", "_writef"), ("writef", "_writef"), ("_writef", "_make_file_info_from_name")]
    for caller, callee in chain:
        f = shared.szf(ctx, caller)
        pname = "arcname"
        ctx.need(pname in f.params, f"{caller} has no arcname parameter")
        reassigned = [n for n in walk(f.node) if isinstance(n, (ast.Assign, ast.AugAssign)) and any(
            isinstance(t, ast.Name) and t.id == pname for t in (n.targets if isinstance(n, ast.Assign) else [n.target]))]
        calls = [c for c in q.calls(f) if attr_tail(c) == callee]
        ctx.floor("R01.6", len(calls), 1, f"{callee} call in {caller}")
        for c in calls:
            passed = [a for a in list(c.args) + [k.value for k in c.keywords] if isinstance(a, ast.Name) and a.id == pname]
            ctx.check(bool(passed) and not reassigned, "R01.6", f, c, f"{caller} hands the name on unchanged",
                      f"{caller} rewrites the member name before storing it ({norm(reassigned[0]) if reassigned else 'name not passed on'}): the archive lists a different name than the one written "
                      "(e.g. a drive-like prefix 'c:' is stripped and two members collide)")
    mk = shared.szf(ctx, "_make_file_info_from_name")
    st = [n for n in walk(mk.node) if isinstance(n, ast.Assign) and isinstance(n.targets[0], ast.Subscript) and isinstance(n.targets[0].slice, ast.Constant) and n.targets[0].slice.value == "filename"]
    # the given name, in pathlib's POSIX form - with or without the backslash -> '/' translation that makes it the name every reader lists (R07.17c)
    ok = len(st) == 1 and norm(st[0].value).replace(".replace('\\\\', '/')", "") in ("pathlib.Path(arcname).as_posix()", "arcname")
    ctx.check(ok, "R01.6", mk, st[0] if st else mk.node, "stored name = pathlib-normalised POSIX form of the given name", "the stored name is not pathlib.Path(arcname).as_posix()")


def r01_10(ctx: Ctx) -> None:
    """pieces and boundaries of the decode pipeline (each a necessary condition for 'whatever the internal block size / volume size'):
    (a) reads of a DECLARED size from the archive handle are completed over short reads (a multi-volume file returns what the current
        volume holds): the header fetch of _real_get_contents and the packed-header CRC fetch of Header._read go through a completing loop;
    (b) a stage of the decoder chain hands on at most its declared size (7zAES pads its last block with zeros: the padding must not
        reach the next coder);
    (c) the branch-filter decoder wrappers never pass a piece straight to the library: the last bytes of a piece are held back until
        more data or the end of the stream has arrived (the library flushes unconverted when fewer bytes than a unit are outstanding);
    (d) AESDecompressor.decompress has an arm for 'less than one cipher block so far'."""
    # (a)
    n = 0
    for mod, qual in (("py7zr", "SevenZipFile._real_get_contents"), ("archiveinfo", "Header._read")):
        f = ctx.prog.func(mod, qual)
        for c in q.calls(f):
            if attr_tail(c) == "read" and isinstance(c.func, ast.Attribute) and norm(c.func.value) in ("self.fp", "fp") and c.args and not isinstance(c.args[0], ast.Constant):
                n += 1
                ctx.fail("R01.10", f, c, f"`{norm(c)}` fetches a declared number of bytes from the archive handle with a single read(): a multi-volume file returns a short read at "
                         "a volume boundary, so an archive whose header straddles two volumes is refused ('invalid header data') although the bytes are all there",
                         construct=f"single read of declared size in {f.name}")
            if attr_tail(c) in ("read_fully",):
                n += 1
                ctx.ok("R01.10", f"{f.qname}: declared-size fetch goes through {attr_tail(c)}")
    ctx.floor("R01.10", n, 1, "declared-size fetches from the archive handle")
    # the fixed-width readers of the signature header (4 and 8 bytes) and the signature test: a first volume shorter than 32 bytes (`c -v 16b` is a
    # size the CLI accepts) splits them too
    for mod, qual in (("archiveinfo", "read_real_uint64"), ("archiveinfo", "read_uint32"), ("py7zr", "SevenZipFile._check_7zfile")):
        f = ctx.prog.func(mod, qual)
        for c in q.calls(f):
            if attr_tail(c) == "read" and isinstance(c.func, ast.Attribute) and c.args and not (isinstance(c.args[0], ast.Constant) and c.args[0].value == 1):
                ctx.fail("R01.10", f, c, f"`{norm(c)}` reads several bytes of the signature header with a single read(): on a volume set whose first volume is shorter than the "
                         "32-byte signature header (volume sizes below 32 are accepted by `c -v`) the read comes back short: struct.error, or 'not a 7z file'",
                         construct=f"single read in {f.name}")
    # (b)
    d = ctx.prog.func("compressor", "SevenZipDecompressor._decompress")
    calls = [c for c in q.calls(d) if attr_tail(c) == "decompress"]
    ctx.floor("R01.10", len(calls), 1, "stage calls in _decompress")
    trims = [a for a in walk(d.node) if isinstance(a, ast.Assign) and isinstance(a.value, ast.Subscript) and isinstance(a.value.slice, ast.Slice)
             and isinstance(a.targets[0], ast.Name) and norm(a.value.value) == a.targets[0].id]
    uses_declared = any(isinstance(x, ast.Attribute) and x.attr == "_unpacksizes" for a in trims for x in ast.walk(q.expand_locals(d, a.value.slice.upper) if a.value.slice.upper is not None else a)) \
        or any(any(isinstance(x, ast.Attribute) and x.attr == "_unpacksizes" for cd, pol in q.facts_at(d, a) for x in ast.walk(cd)) for a in trims)
    ctx.check(bool(trims) and uses_declared, "R01.10", d, calls[0], "a stage's output is cut to its declared size before the next stage sees it",
              "SevenZipDecompressor._decompress passes whatever a stage returns to the next stage: the zeros 7zAES pads its last block with reach the following coder "
              "([BCJ, Copy, 7zAES] returns wrong bytes for members ending in a call opcode, [Brotli, 7zAES] fails to decode)", construct="stage output not trimmed")
    # (c)
    cmod = ctx.prog.module("compressor")
    nw = 0
    for cname, cls in sorted(cmod.classes.items()):
        if not (cname.startswith("Bcj") or cname.startswith("BCJ")) or not cname.endswith("Decoder"):
            continue
        nw += 1
        m = ctx.prog.method(cls, "decompress")
        ctx.need(m is not None, f"{cname}.decompress not found")
        direct = [c for c in q.calls(m) if attr_tail(c) == "decode" and c.args and isinstance(c.args[0], ast.Name) and c.args[0].id == m.params[1]
                  and not q.assigned_values(m, m.params[1])]
        ctx.check(not direct, "R01.10", m, direct[0] if direct else m.node, f"{cname} holds back the end of a piece",
                  f"{cname}.decompress passes every piece straight to the library decoder: when a piece ends 1-3 bytes before the end of the stream the library flushes that "
                  "tail unconverted (CrcError for X86+LZMA with small members, X86+Copy with 1 MiB + 1 bytes, ARM+PPMd ...)", construct=f"{cname} direct decode")
    ctx.floor("R01.10", nw, 5, "branch filter decoder wrappers")
    # (d)
    a = ctx.prog.func("compressor", "AESDecompressor.decompress")
    small = [t for t in walk(a.node) if isinstance(t, ast.If) and any(isinstance(x, ast.Compare) and isinstance(x.ops[0], ast.Lt) and isinstance(x.comparators[0], ast.Constant)
                                                                     and x.comparators[0].value == 16 for x in ast.walk(t.test))]
    ctx.check(bool(small), "R01.10", a, a.node, "AESDecompressor.decompress buffers input shorter than one cipher block",
              "AESDecompressor.decompress has no arm for 'residue + new piece < 16 bytes': the slice index goes negative and an unaligned residue is decrypted "
              "(ValueError: data must be padded), reachable with a volume size of 1 MiB + 5 on any archive ending in 7zAES", construct="aes short piece")


def r01_11(ctx: Ctx) -> None:
    """the hold-back of the branch-filter (BCJ) decoders: the libraries convert units of up to four bytes and flush what is left unconverted as
    soon as fewer bytes than a unit are outstanding, so no piece may end inside the last unit.  BranchFilterDecoder.decompress (the base of all
    five wrappers) therefore (a) puts the bytes held back by the previous call in front of the new piece, (b) while more data is outstanding
    (`fed + len(data) < size`) splits the piece at `len(data) - keep` into what is decoded and what is held (keep = min(len, HOLD_BACK) > 0),
    (c) counts what it hands to the decoder.  The suite has no member whose BCJ stage sees a piece boundary inside the last unit."""
    c = ctx.prog.module("compressor").classes.get("BranchFilterDecoder")
    if c is None:
        return  # no common hold-back stage: R01.10 decides whether the branch-filter decoders may be fed arbitrary pieces
    f = ctx.prog.method(c, "decompress")
    ctx.need(f is not None, "BranchFilterDecoder.decompress vanished")
    cfg = cfg_of(f.node)
    dec = [x for x in q.calls(f) if attr_tail(x) == "decode"]
    ctx.floor("R01.11", len(dec), 1, "decoder call in BranchFilterDecoder.decompress")
    p0 = f.params[1]
    pre = [n for n in walk(f.node) if isinstance(n, ast.Assign) and isinstance(n.value, ast.BinOp) and isinstance(n.value.op, ast.Add) and norm(n.value.left) == "self._held"
           and any(isinstance(x, ast.Name) and x.id == p0 for x in ast.walk(n.value.right))]
    ctx.check(bool(pre) and all(cfg.dominates(q.node_for(f, pre[0]), q.node_for(f, d)) for d in dec), "R01.11", f, pre[0] if pre else f.node,
              "the bytes held back by the previous call come first", "BranchFilterDecoder.decompress does not put `self._held` in front of the new piece before decoding: the bytes "
              "held back at the end of the previous piece are lost (or decoded out of order)", construct="held bytes not prepended")
    splits = [n for n in walk(f.node) if isinstance(n, ast.Assign) and isinstance(n.targets[0], ast.Tuple) and len(n.targets[0].elts) == 2 and isinstance(n.value, ast.Tuple)
              and any(norm(t) == "self._held" for t in n.targets[0].elts)]
    ok = False
    # the same split written as two statements (`self._held = data[cut:]` / `data = data[:cut]`, in either order as long as the second does not read
    # what the first wrote): put into the tuple form the checks below are written for
    class _Pair:
        pass
    for blk in [getattr(x, fld) for x in walk(f.node) for fld in ("body", "orelse") if isinstance(getattr(x, fld, None), list)]:
        for a_, b_ in zip(blk, blk[1:]):
            if isinstance(a_, ast.Assign) and isinstance(b_, ast.Assign) and len(a_.targets) == 1 and len(b_.targets) == 1 and {norm(a_.targets[0]), norm(b_.targets[0])} >= {"self._held"} \
                    and isinstance(a_.value, ast.Subscript) and isinstance(b_.value, ast.Subscript) and norm(a_.value.value) == norm(b_.value.value) \
                    and norm(a_.targets[0]) not in {norm(x) for x in ast.walk(b_.value)} and not (norm(a_.targets[0]) == norm(a_.value.value)):
                tup = ast.Assign(targets=[ast.Tuple(elts=[a_.targets[0], b_.targets[0]], ctx=ast.Store())], value=ast.Tuple(elts=[a_.value, b_.value], ctx=ast.Load()))
                ast.copy_location(tup, b_)
                tup._at = b_  # facts are taken where the pair stands
                splits.append(tup)
    for n in splits:
        tg = [norm(t) for t in n.targets[0].elts]
        vals = list(n.value.elts)
        hi = tg.index("self._held")
        keep_v, held_v = vals[1 - hi], vals[hi]
        cut = None
        if isinstance(keep_v, ast.Subscript) and isinstance(keep_v.slice, ast.Slice) and keep_v.slice.lower is None and keep_v.slice.upper is not None \
                and isinstance(held_v, ast.Subscript) and isinstance(held_v.slice, ast.Slice) and held_v.slice.upper is None and held_v.slice.lower is not None \
                and norm(keep_v.slice.upper) == norm(held_v.slice.lower) and norm(keep_v.value) == norm(held_v.value):
            cut = keep_v.slice.upper
            if isinstance(cut, ast.Name):
                cv = q.assigned_values(f, cut.id)  # the index was given a name
                cut = cv[0] if len(cv) == 1 else cut
        outstanding = any(pol and isinstance(cd, ast.Compare) and isinstance(cd.ops[0], ast.Lt) and "_size" in norm(cd.comparators[0]) and "_fed" in norm(cd.left) for cd, pol in q.facts_at(f, getattr(n, "_at", n)))
        keeps = cut is not None and isinstance(cut, ast.BinOp) and isinstance(cut.op, ast.Sub) and norm(cut.left).startswith("len(") and any(
            isinstance(v, ast.Call) and dotted(v.func) == "min" and any("HOLD_BACK" in norm(a_) for a_ in v.args) for v in ([cut.right] + list(q.assigned_values(f, norm(cut.right)))))
        if cut is not None and outstanding and keeps and tg[1 - hi] == norm(dec[0].args[0]):
            ok = True
    ctx.check(ok, "R01.11", f, getattr(splits[0], "_at", splits[0]) if splits else f.node, "while data is outstanding the last unit of every piece is held back",
              "BranchFilterDecoder.decompress does not split the piece into `data[:len - keep]` (decoded) and `data[len - keep:]` (held, keep = min(len, HOLD_BACK)) while "
              "`fed + len(data) < size`: a piece that ends inside the last unit of the stream makes the library flush those bytes unconverted - members under a BCJ filter come "
              "back with wrong bytes near the end (CrcError), depending on the block sizes", construct="hold-back split")
    cnt = [n for n in walk(f.node) if isinstance(n, ast.AugAssign) and isinstance(n.op, ast.Add) and norm(n.target) == "self._fed" and dec and norm(n.value) == f"len({norm(dec[0].args[0])})"]
    ctx.check(bool(cnt) and all(not cfg.reaches(q.node_for(f, n), q.node_for(f, getattr(s_, "_at", s_))) for n in cnt for s_ in splits), "R01.11", f, cnt[0] if cnt else f.node,
              "what goes to the decoder is counted (after the split)", "BranchFilterDecoder.decompress does not add the length of what it decodes to `_fed` (after the hold-back split): "
              "the test 'more data is outstanding' is wrong from the second piece on", construct="fed count")

    # the amount held back covers the look-ahead of every converter: the x86 converter examines the four bytes behind an E8/E9 opcode, the other
    # branch converters work on units of four bytes - three bytes held back let a convertible instruction straddle the end of a piece unseen
    hb = [n for n in ctx.prog.cls("BranchFilterDecoder", "compressor").node.body if isinstance(n, ast.Assign) and any(isinstance(t_, ast.Name) and t_.id == "HOLD_BACK" for t_ in n.targets)] \
        if ctx.prog.has_cls("BranchFilterDecoder") else []
    for n in hb:
        v = n.value.value if isinstance(n.value, ast.Constant) else None
        ctx.check(isinstance(v, int) and v >= 4, "R01.11", ctx.prog.func("compressor", "BranchFilterDecoder.decompress"), n, "HOLD_BACK covers a whole conversion unit (>= 4 bytes)",
                  f"HOLD_BACK = {v}: fewer bytes are held back than the branch converters look at (x86: the four bytes behind the opcode; ARM, PowerPC, SPARC: units of four): a folder "
                  "that ends in two consecutive convertible instructions with tiny last members is decoded wrongly (CrcError on a valid archive)", construct="HOLD_BACK below the unit size")


def r01_12(ctx: Ctx) -> None:
    """library contract of pyppmd's encoder, found by round-tripping (no test of the suite packs hardly compressible data with PPMd): one
    `encode()` call that crosses an output block of the library loses a byte of packed data; the stream py7zr writes is then a byte short
    and cannot be read back (3 of 10 random 200 kB members).  PpmdCompressor.compress therefore feeds the encoder bounded slices in a loop -
    it never passes its whole argument (up to a 1 MiB block) to `encode` in one call."""
    c = ctx.prog.cls("PpmdCompressor", "compressor")
    f = ctx.prog.method(c, "compress")
    ctx.need(f is not None, "PpmdCompressor.compress vanished")
    enc = [x for x in q.calls(f) if attr_tail(x) == "encode"]
    ctx.floor("R01.12", len(enc), 1, "encoder calls in PpmdCompressor.compress")
    p0 = f.params[1]
    for x in enc:
        arg = x.args[0] if x.args else None
        sliced = isinstance(arg, ast.Subscript) and isinstance(arg.slice, ast.Slice) and arg.slice.upper is not None and bool(q.enclosing_loops(f, x))
        whole = isinstance(arg, ast.Name) and arg.id == p0
        ctx.check(sliced and not whole, "R01.12", f, x, "the PPMd encoder is fed bounded slices",
                  f"`{norm(x)}` hands the encoder the whole block in one call: pyppmd drops a byte of output where a call crosses one of its output blocks, the packed stream of hardly "
                  "compressible data comes out one byte short and the archive py7zr wrote cannot be read back ('Corrupted input data', CrcError or a crash)", construct="PPMd encode whole block")


def r01_13(ctx: Ctx) -> None:
    """'whatever the volume size': multivolumefile's write() calls itself once per volume a block crosses (RecursionError beyond about a thousand) -
    a library contract found by the hunts.  The two places that write a packed BLOCK (SevenZipCompressor.compress / flush; up to about 1 MiB)
    go through helpers.write_pieces, which hands such a file at most one volume per call and writes every byte exactly once."""
    for qual in ("SevenZipCompressor.compress", "SevenZipCompressor.flush"):
        f = ctx.prog.func("compressor", qual)
        raw = [c for c in q.calls(f) if isinstance(c.func, ast.Attribute) and c.func.attr == "write" and norm(c.func.value) == f.params[-1 if qual.endswith("flush") else 2]]
        via = [c for c in q.calls(f) if (dotted(c.func) or "").split(".")[-1] == "write_pieces"]
        ctx.check(bool(via) and not raw, "R01.13", f, (raw or via or [f.node])[0], f"{qual} writes its block through write_pieces",
                  f"{qual} writes a packed block of up to about 1 MiB to the archive handle in one `write()`: on a multivolumefile.MultiVolume with small volumes (64-byte volumes and 70 kB of "
                  "data; 1 KiB volumes and 1.2 MB) the library recurses once per volume crossed and the session dies with RecursionError", construct=f"{qual} raw block write")
    w = ctx.prog.module("helpers").funcs.get("write_pieces")
    if w is None:
        return  # reported above: the blocks are written raw
    loops = [l for l in walk(w.node) if isinstance(l, ast.For)]
    ok = False
    for l in loops:
        it = l.iter
        if isinstance(it, ast.Call) and dotted(it.func) == "range" and len(it.args) == 3 and norm(it.args[0]) == "0" and norm(it.args[1]).startswith("len(") and isinstance(l.target, ast.Name):
            step, i = norm(it.args[2]), l.target.id
            wr = [c for c in ast.walk(l) if isinstance(c, ast.Call) and attr_tail(c) == "write" and c.args and isinstance(c.args[0], ast.Subscript) and isinstance(c.args[0].slice, ast.Slice)]
            ok = any(norm(c.args[0].slice.lower) == i and norm(c.args[0].slice.upper).replace(" ", "") in (f"{i}+{step}", f"{step}+{i}") for c in wr)
    plain = [c for c in q.calls(w) if attr_tail(c) == "write" and c.args and isinstance(c.args[0], ast.Name) and not q.enclosing_loops(w, c)]
    ctx.check(ok and bool(plain), "R01.13", w, w.node, "write_pieces writes every byte once: consecutive slices of one step, or the block as it is",
              "helpers.write_pieces does not write `data[i:i+step]` for i = 0, step, 2*step ... (or the whole block when no slicing is needed): bytes of the packed stream are lost or doubled",
              construct="write_pieces slices")


def r01_14(ctx: Ctx) -> None:
    """'whatever the internal block size': the PPMd wrapper feeds the decoder an artificial NUL when it is handed an EMPTY piece while the decoder
    wants input - its way to finish a stream whose last byte the range coder still needs.  An empty piece is not the end of the input, though: the
    7zAES stage in front returns b"" while it collects a cipher block, and with an I/O block below pyppmd's 5-byte preamble the first pieces are
    too short.  Necessary condition: the NUL is fed only under a fact that says the INPUT HAS ENDED (a parameter or attribute about the end of the
    input), not merely `len(data) == 0 and needs_input`."""
    c = ctx.prog.cls("PpmdDecompressor", "compressor")
    f = ctx.prog.method(c, "decompress")
    ctx.need(f is not None, "PpmdDecompressor.decompress vanished")
    nul = [x for x in q.calls(f) if attr_tail(x) == "decode" and x.args and isinstance(x.args[0], ast.Constant) and x.args[0].value == b"\0"]
    ctx.floor("R01.14", len(nul), 1, "artificial NUL fed to the PPMd decoder")
    for x in nul:
        facts = q.facts_at(f, x)
        knows_end = any(any(w in norm(cd).lower() for w in ("eof", "last", "final", "exhaust", "end_of", "finish", "remaining")) for cd, pol in facts)
        ctx.check(knows_end, "R01.14", f, x, "the artificial NUL is fed only when the input has ended",
                  "PpmdDecompressor.decompress takes every empty piece for the end of the input (`" + " and ".join(norm(cd) for cd, pol in facts) + "`) and feeds the decoder a made-up NUL: behind "
                  "7zAES (which returns b'' while it collects a cipher block) with an I/O block of 1..15 bytes, or alone with 1..4, members cannot be read back ('Not enough data for starting "
                  "decompression')", construct="ppmd empty piece taken for end of input")


def run(ctx: Ctx) -> None:
    from . import c05 as _c05r
    _c05r.r05_8(ctx, shared.read_closure(ctx))  # short reads (volume boundaries) are completed, and an end of file is noticed, where the decoder fetches its input
    r01_17(ctx)
    from . import c07 as _c07o
    _c07o.r07_21(ctx, rule="R01.16")  # what the encoder is told, the header says
    from . import c04 as _c04s
    _c04s.r04_18(ctx, rule="R01.15")  # the decoder's predicates say what their names say
    r01_14(ctx)
    r01_13(ctx)
    r01_12(ctx)
    r01_11(ctx)
    r01_10(ctx)
    shared.layout_agreement(ctx, "R01.9")
    shared.exits_do_not_swallow(ctx, "R01.8")
    r01_6(ctx)
    shared.strict_reads(ctx, "R01.7")
    r01_1(ctx)
    r01_2(ctx)
    from . import c07, c06
    c07.r07_7(ctx)
    c06.r06_5(ctx, rule="R01.4")
    c07.r07_1(ctx, rule="R01.5")  # a wrong Name/EmptyStream record size makes the written archive unreadable
