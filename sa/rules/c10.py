"""C10 — listings tell the truth about the archive."""
from __future__ import annotations

import ast
from typing import Dict, List, Optional

from ..cfg import cfg_of
from ..consteval import NotConst
from ..model import AnalysisError, Func, attr_tail, dotted, norm, walk
from ..report import Ctx
from .. import q
from . import shared

EXPLANATION = (
    "Structural agreement of the listing interfaces: getnames/namelist/list/getinfo iterate the single member list "
    "unfiltered and unsorted; FileInfo/ArchiveInfo constructor arguments bind to the same-named parameters and derive from "
    "the right sources (blocks = number of folders, solid, method names, total size); in _real_get_contents the size and "
    "digest of a member are read with the same cursor, the digest is stored under the 'defined' flag (not its truthiness) "
    "and the cursor advances once per stream member; every method name in SupportedMethods occurs in the display-order list "
    "of get_methods_names (constant evaluation of both tables); needs_password is or-ed over ALL folders; getinfo strips the "
    "slash and raises KeyError; sections that are absent on valid archives are not dereferenced unguarded and reduce() over a "
    "possibly empty list has an initialiser. Not decided: listing = extraction on every archive."
)
TRUSTED = ["CPython ast parser", "sa.consteval (literal tables)", "sa.cfg guards"]

REORDER = {"sorted", "set", "reversed", "frozenset", "dict.fromkeys", "shuffle", "sort"}


def r10_1(ctx: Ctx) -> None:
    gn = shared.szf(ctx, "getnames")
    ok = any(isinstance(n, ast.Return) and isinstance(n.value, ast.Call) and attr_tail(n.value) == "namelist" and not n.value.args for n in walk(gn.node))
    if not ok:
        # or identical derivation
        ok = any(isinstance(n, ast.Attribute) and n.attr == "files" for n in walk(gn.node)) and not any(attr_tail(c) in REORDER for c in q.calls(gn))
    ctx.check(ok, "R10.1", gn, gn.node, "getnames == namelist", "getnames does not return namelist()'s result", construct="getnames")
    for name in ("namelist", "list"):
        f = shared.szf(ctx, name)
        iters = []
        for n in walk(f.node):
            if isinstance(n, ast.For):
                iters.append(n.iter)
            elif isinstance(n, ast.comprehension):
                iters.append(n.iter)
            elif isinstance(n, ast.Call) and dotted(n.func) in ("map", "filter") and len(n.args) >= 2:
                iters.append(n.args[-1])
        whole = [i for i in iters if norm(i) == "self.files"]
        bad = [c for c in q.calls(f) if attr_tail(c) in REORDER or dotted(c.func) == "filter"]
        sliced = [i for i in iters if isinstance(i, ast.Subscript) and "self.files" in norm(i)]
        ctx.check(bool(whole) and not bad and not sliced, "R10.1", f, f.node, f"{name} iterates self.files in stored order, unfiltered",
                  f"{name} does not iterate the whole member list in stored order ({', '.join(norm(b) for b in bad + sliced) or 'no iteration over self.files'})",
                  construct=f"{name} iteration")
    nl = shared.szf(ctx, "namelist")
    ok = any(isinstance(n, ast.Attribute) and n.attr == "filename" for n in walk(nl.node))
    ctx.check(ok, "R10.1", nl, nl.node, "namelist yields member.filename", "namelist does not yield each member's filename", construct="namelist element")


def _bind_check(ctx: Ctx, rule: str, caller: Func, call: ast.Call, cls_name: str, exceptions: Dict[str, str]) -> None:
    init = ctx.prog.method(ctx.prog.cls(cls_name, "py7zr"), "__init__")
    params = init.params[1:]
    # __init__ stores each parameter under the same attribute name
    stores = {}
    for n in walk(init.node):
        if isinstance(n, ast.Assign) and isinstance(n.targets[0], ast.Attribute) and isinstance(n.value, ast.Name):
            stores[n.targets[0].attr] = n.value.id
    for p in params:
        if p in ("stat",):
            continue
        ctx.check(stores.get(p) == p, rule, init, init.node, f"{cls_name}.{p} stores parameter {p}", f"{cls_name}.__init__ stores '{stores.get(p)}' under attribute '{p}'",
                  construct=f"{cls_name}.__init__ self.{p}")
    binds = list(zip(params, call.args)) + [(k.arg, k.value) for k in call.keywords]
    for p, a in binds:
        if isinstance(a, ast.Attribute) and isinstance(a.value, ast.Name):
            want = exceptions.get(p, p)
            ctx.check(a.attr == want, rule, caller, call, f"{cls_name}({p}=<member>.{a.attr})", f"{cls_name} parameter '{p}' is given <member>.{a.attr}",
                      construct=f"{cls_name} arg {p}")


def r10_2(ctx: Ctx) -> None:
    f = shared.szf(ctx, "list")
    # FileInfo(...) in list() itself or in a private helper it calls per member (`[self._to_file_info(f) for f in self.files]`)
    deep = [(g, c, via) for g, c, via in q.deep_nodes(ctx, f) if isinstance(c, ast.Call) and attr_tail(c) == "FileInfo"]
    ctx.floor("R10.2", len(deep), 1, "FileInfo(...) in list()")
    for g, c, via in deep:
        _bind_check(ctx, "R10.2", g, c, "FileInfo", {"crc32": "crc32"})
        # the loop (or comprehension) variable is the member described
        at = via if via is not None else c
        lp = q.enclosing_loops(f, at)
        per_member = bool(lp) and norm(lp[-1].iter) == "self.files"
        if not per_member:
            per_member = any(isinstance(n, (ast.ListComp, ast.GeneratorExp)) and any(x is at for x in ast.walk(n.elt)) and norm(n.generators[0].iter) == "self.files"
                             for n in walk(f.node))
        ctx.check(per_member, "R10.2", f, at, "one FileInfo per member", "FileInfo objects are not built one per member of self.files")
    # ArchiveFile property decoding: crc32 <- 'digest', uncompressed <- 'uncompressed', compressed <- 'compressed', filename <- 'filename'
    af = ctx.prog.cls("ArchiveFile", "py7zr")
    want = {"crc32": "digest", "uncompressed": "uncompressed", "compressed": "compressed", "filename": "filename", "emptystream": "emptystream",
            "lastwritetime": "lastwritetime"}
    for prop, key in want.items():
        m = af.methods.get(prop)
        ctx.need(m is not None, f"ArchiveFile.{prop} vanished")
        keys = [c.args[0].value for c in q.calls(m) if attr_tail(c) == "_get_property" and c.args and isinstance(c.args[0], ast.Constant)]
        ctx.check(keys == [key], "R10.2", m, m.node, f"ArchiveFile.{prop} reads '{key}'", f"ArchiveFile.{prop} reads {keys} instead of '{key}'", construct=f"ArchiveFile.{prop}")


def r10_3(ctx: Ctx) -> None:
    f = shared.szf(ctx, "_real_get_contents")
    g = shared.szf(ctx, "_get_fileinfo_sizes")
    cfg = cfg_of(f.node)
    # digest store
    stores = [n for n in walk(f.node) if isinstance(n, ast.Assign) and any(
        isinstance(t, ast.Subscript) and isinstance(t.slice, ast.Constant) and t.slice.value == "digest" for t in n.targets)]
    ctx.floor("R10.3", len(stores), 1, "digest stores in _real_get_contents")
    size_idx = None
    for n in walk(g.node):
        if isinstance(n, ast.Assign) and isinstance(n.targets[0], ast.Name) and n.targets[0].id == "uncompressed" and isinstance(n.value, ast.Subscript):
            size_idx = norm(n.value.slice)
    ctx.need(size_idx is not None, "size lookup in _get_fileinfo_sizes not recognised")
    for s in stores:
        v = s.value
        ok_idx = isinstance(v, ast.Subscript) and norm(v.slice) == size_idx and norm(v.value).endswith("digests")
        facts = q.facts_at(f, s)
        flag = any(pol and isinstance(cd, ast.Subscript) and norm(cd.value).endswith("digestsdefined") and norm(cd.slice) == size_idx for cd, pol in facts)
        truthy = any(isinstance(cd, ast.Name) or (isinstance(cd, ast.Subscript) and norm(cd.value).endswith("digests")) for cd, pol in facts)
        ctx.check(ok_idx and flag and not truthy, "R10.3", f, s, "digest read with the size cursor under the 'defined' flag",
                  "a member's digest is not taken at the same cursor as its size under digestsdefined[cursor] (e.g. tested by truthiness: a defined CRC of 0 is dropped)")
    # cursor advance: exactly once per stream member
    incs = [n for n in walk(f.node) if isinstance(n, ast.AugAssign) and norm(n.target) == size_idx and isinstance(n.value, ast.Constant) and n.value.value == 1]
    ctx.check(len(incs) == 1, "R10.3", f, f.node, "cursor advanced at one site", f"the substream cursor is advanced at {len(incs)} sites", construct="cursor advance sites")
    for i in incs:
        # on every path from the size lookup call to the loop back-edge, the increment is passed (folder is never None there)
        calls = [c for c in q.calls(f) if attr_tail(c) == "_get_fileinfo_sizes"]
        for c in calls:
            lp = q.enclosing_loops(f, c)[-1]
            it = cfg.by_ast[lp]
            cn = q.node_for(f, c)
            inode = q.node_for(f, i)
            # allowed bypass: the branch `folder is None` (dead: folder was just indexed) — treat its true edge as avoided
            dead = [n for n in cfg.nodes if n.kind == "true" and norm(n.ast) == "folder is None"]
            bypass = cfg.reaches(cn, it, avoid=[inode] + dead, normal_only=True)
            ctx.check(not bypass, "R10.3", f, i, "cursor advanced once per stream member", "a stream member can be processed without advancing the substream cursor")


def r10_4(ctx: Ctx) -> None:
    try:
        methods = ctx.ce.class_const("SupportedMethods", "methods")
    except NotConst as e:
        raise AnalysisError(f"SupportedMethods.methods not constant: {e}")
    f = ctx.prog.func("compressor", "get_methods_names")
    lists = [n for n in walk(f.node) if isinstance(n, ast.Assign) and isinstance(n.value, ast.List) and isinstance(n.targets[0], ast.Name)]
    namelist = None
    for n in lists:
        try:
            v = ctx.ce.eval(n.value, "compressor")
        except NotConst:
            continue
        if all(isinstance(x, str) for x in v) and len(v) >= 10:
            namelist = (n, v)
    ctx.need(namelist is not None, "display-order name list not found in get_methods_names")
    node, names = namelist
    ctx.floor("R10.4", len(methods), 15, "rows of SupportedMethods.methods")
    # the function returns only names that are in the list: so every method name must be in it
    filt = any(isinstance(n, ast.Return) and any(isinstance(x, ast.Name) and x.id == node.targets[0].id for x in ast.walk(n.value)) for n in walk(f.node) if isinstance(n, ast.Return))
    ctx.need(filt, "get_methods_names no longer filters through the display-order list")
    for m in methods:
        ctx.check(m["name"] in names, "R10.4", f, node, f"method name {m['name']} is in the display list",
                  f"method '{m['name']}' of SupportedMethods.methods is missing from the display-order list of get_methods_names: "
                  f"archiveinfo().method_names silently omits it", construct=f"methods_namelist lacks {m['name']}")
    ctx.check(len(set(names)) == len(names), "R10.4", f, node, "display list has no duplicates", "duplicate names in the display-order list", construct="namelist duplicates")


def r10_5(ctx: Ctx) -> None:
    init = shared.szf(ctx, "__init__")
    ok = any(isinstance(n, ast.Assign) and any(isinstance(t, ast.Attribute) and t.attr == "password_protected" for t in n.targets)
             and q.is_none_test(n.value) is not None and not q.is_none_test(n.value)[1] and norm(q.is_none_test(n.value)[0]) == "password" for n in walk(init.node))
    ctx.check(ok, "R10.5", init, init.node, "password_protected starts as `password is not None`", "password_protected is not initialised from `password is not None`",
              construct="password_protected init")
    f = shared.szf(ctx, "_real_get_contents")
    sets = [n for n in walk(f.node) if isinstance(n, ast.Assign) and any(isinstance(t, ast.Attribute) and t.attr == "password_protected" for t in n.targets)]
    ctx.floor("R10.5", len(sets), 1, "password_protected update in _real_get_contents")
    for s in sets:
        calls = [c for c in ast.walk(s.value) if isinstance(c, ast.Call) and attr_tail(c) == "needs_password"]
        comps = [g for n in ast.walk(s.value) if isinstance(n, (ast.ListComp, ast.GeneratorExp)) for g in n.generators]
        all_folders = any(isinstance(g.iter, ast.Attribute) and g.iter.attr == "folders" for g in comps)
        any_call = any(isinstance(c, ast.Call) and dotted(c.func) == "any" for c in ast.walk(s.value))
        per_folder = any(c.args and isinstance(c.args[0], ast.Attribute) and c.args[0].attr == "coders" and isinstance(c.args[0].value, ast.Name)
                         and any(isinstance(g.target, ast.Name) and g.target.id == c.args[0].value.id for g in comps) for c in calls)
        ctx.check(bool(calls) and all_folders and any_call and per_folder, "R10.5", f, s, "needs_password or-ed over all folders",
                  "password_protected is not computed as any(needs_password(folder.coders)) over ALL folders (an encrypted folder after a plain one is missed)")
        # not guarded by anything that could skip folders other than "not already protected" and "has streams"
    np_ = ctx.prog.func("compressor", "SupportedMethods.needs_password")
    loops = [n for n in walk(np_.node) if isinstance(n, ast.For)]
    ok = bool(loops) and norm(loops[0].iter) == "coders" and any(isinstance(r, ast.Return) and isinstance(r.value, ast.Constant) and r.value.value is True for r in walk(loops[0]))
    if not ok:
        # the same scan as `return any(<crypto test of coder> for coder in coders)`, the test written out or in a helper of the class
        def crypto_test(e: ast.AST) -> bool:
            for c in [x for x in ast.walk(e) if isinstance(x, ast.Call)]:
                if attr_tail(c) == "is_crypto_id":
                    return True
                if isinstance(c.func, ast.Attribute) and norm(c.func.value) in ("cls", "self", "SupportedMethods"):
                    try:
                        h = ctx.prog.func("compressor", "SupportedMethods." + c.func.attr)
                    except Exception:
                        continue
                    if h is not np_ and any(isinstance(x, ast.Call) and attr_tail(x) == "is_crypto_id" for x in walk(h.node)):
                        return True
            return False
        for r in [r for r in walk(np_.node) if isinstance(r, ast.Return) and isinstance(r.value, ast.Call)]:
            v = r.value
            if isinstance(v.func, ast.Name) and v.func.id == "any" and v.args and isinstance(v.args[0], (ast.GeneratorExp, ast.ListComp)) \
                    and len(v.args[0].generators) == 1 and norm(v.args[0].generators[0].iter) == "coders" and crypto_test(v.args[0].elt) \
                    and all(crypto_test(i) or "is not None" in norm(i) for i in v.args[0].generators[0].ifs):
                ok = True
    ctx.check(ok, "R10.5", np_, np_.node, "needs_password scans every coder", "SupportedMethods.needs_password does not scan every coder", construct="needs_password loop")
    npw = shared.szf(ctx, "needs_password")
    ok = any(isinstance(r, ast.Return) and norm(r.value) == "self.password_protected" for r in walk(npw.node))
    ctx.check(ok, "R10.5", npw, npw.node, "needs_password() returns the flag", "needs_password() does not return password_protected", construct="needs_password return")


def r10_6(ctx: Ctx) -> None:
    f = shared.szf(ctx, "getinfo")
    # the QUERY is stripped (the member side is R10.11's business)
    strip = [c for c in q.calls(f) if attr_tail(c) == "remove_trailing_slash" and len(f.params) > 1 and any(isinstance(a, ast.Name) and a.id == f.params[1] for a in c.args)]
    raises = [n for n in walk(f.node) if isinstance(n, ast.Raise) and isinstance(n.exc, ast.Call) and dotted(n.exc.func) == "KeyError"]
    ok = bool(strip) and bool(raises)
    for r in raises:
        facts = q.facts_at(f, r)
        ok = ok and any(pol and q.is_none_test(cd) is not None and q.is_none_test(cd)[1] for cd, pol in facts)
    cmp_ok = any(isinstance(n, ast.Compare) and isinstance(n.ops[0], ast.Eq) and any(isinstance(x, ast.Attribute) and x.attr == "filename" for x in ast.walk(n)) for n in ast.walk(f.node))
    ctx.check(ok and cmp_ok, "R10.6", f, f.node, "getinfo: strip slash, exact name match, KeyError when absent", "getinfo does not strip the trailing slash / match exactly / raise KeyError for an absent name",
              construct="getinfo")
    rts = ctx.prog.func("helpers", "remove_trailing_slash")
    ok = any(isinstance(n, ast.Return) and isinstance(n.value, ast.Subscript) and norm(n.value.slice) == ":-1" for n in walk(rts.node)) and \
        any(isinstance(c, ast.Call) and attr_tail(c) == "endswith" for c in q.calls(rts))
    ctx.check(ok, "R10.6", rts, rts.node, "remove_trailing_slash removes exactly one trailing '/'", "remove_trailing_slash does not strip exactly the trailing separator", construct="remove_trailing_slash")


NULLABLE = {"main_streams": "None on a valid archive with no data streams (empty archive / only empty files)",
            "files_info": "None on a valid empty archive"}


def nullable_derefs(ctx: Ctx, rule: str, funcs: List[Func]) -> int:
    n_sites = 0
    for f in funcs:
        for n in walk(f.node):
            if isinstance(n, ast.Attribute) and isinstance(n.value, ast.Attribute) and n.value.attr in NULLABLE and isinstance(n.ctx, ast.Load):
                subj = n.value
                n_sites += 1
                facts = q.facts_at(f, n)
                ok = q.known_not_none(facts, subj)
                ctx.check(ok, rule, f, n, f"{f.qname}: {norm(subj)} dereferenced under a not-None guard",
                          f"{norm(subj)} is dereferenced without a not-None guard, but it is {NULLABLE[subj.attr]}: the call raises "
                          "AttributeError/TypeError instead of describing the archive", construct=f"{norm(n)}")
    return n_sites


def r10_7(ctx: Ctx) -> None:
    funcs = [shared.szf(ctx, n) for n in ("archiveinfo", "_get_method_names", "_is_solid", "list", "namelist", "getinfo", "needs_password")]
    n = nullable_derefs(ctx, "R10.7", funcs)
    ctx.floor("R10.7", n, 3, "dereferences of nullable header sections in the listing functions")
    for f in funcs:
        for c in q.calls(f):
            if dotted(c.func) in ("functools.reduce", "reduce") and len(c.args) < 3 and not any(k.arg == "initial" for k in c.keywords):
                ctx.fail("R10.7", f, c, "reduce() without an initial value over a list that is empty for a valid empty archive: archiveinfo() raises TypeError")
            elif dotted(c.func) in ("functools.reduce", "reduce"):
                ctx.ok("R10.7", f"{f.qname}: reduce with initialiser")


def r10_8(ctx: Ctx) -> None:
    f = shared.szf(ctx, "archiveinfo")
    calls = [c for c in q.calls(f) if attr_tail(c) == "ArchiveInfo"]
    ctx.floor("R10.8", len(calls), 1, "ArchiveInfo(...) in archiveinfo()")
    init = ctx.prog.method(ctx.prog.cls("ArchiveInfo", "py7zr"), "__init__")
    params = init.params[1:]
    for c in calls:
        b = dict(list(zip(params, c.args)) + [(k.arg, k.value) for k in c.keywords])
        def src(p):
            return [norm(s) for s in q.sources_of(f, b[p], depth=3)] if p in b else []
        ok_blocks = "blocks" in b and any(isinstance(n, ast.Call) and dotted(n.func) == "len" and n.args and isinstance(n.args[0], ast.Attribute)
                                          and n.args[0].attr == "folders" and norm(n.args[0]).endswith("unpackinfo.folders")
                                          for s_ in q.sources_of(f, b["blocks"], depth=3) for n in ast.walk(s_))
        ctx.check(ok_blocks, "R10.8", f, c, "blocks = number of folders", "ArchiveInfo.blocks is not len(unpackinfo.folders) (e.g. the number of packed streams, which differs for multi-stream folders)",
                  construct="ArchiveInfo blocks")
        ctx.check(any("_is_solid" in s for s in src("solid")), "R10.8", f, c, "solid = _is_solid()", "ArchiveInfo.solid does not come from _is_solid()", construct="ArchiveInfo solid")
        ctx.check(any("_get_method_names" in s for s in src("method_names")), "R10.8", f, c, "method_names = _get_method_names()", "ArchiveInfo.method_names does not come from _get_method_names()",
                  construct="ArchiveInfo method_names")
        ctx.check(any(".uncompressed" in s and "self.files" in s for s in src("uncompressed")), "R10.8", f, c, "uncompressed = sum over all members", "ArchiveInfo.uncompressed is not summed over all members",
                  construct="ArchiveInfo uncompressed")
        ctx.check(any("header.size" in s for s in src("header_size")), "R10.8", f, c, "header_size = header.size", "ArchiveInfo.header_size does not come from header.size", construct="ArchiveInfo header_size")
    s = shared.szf(ctx, "_is_solid")
    def _more_than_one(n):
        # x > 1, 1 < x, x >= 2, 2 <= x
        if not (isinstance(n, ast.Compare) and len(n.ops) == 1):
            return False
        l, o, r = n.left, n.ops[0], n.comparators[0]
        cv = lambda e, v: isinstance(e, ast.Constant) and e.value == v
        return (isinstance(o, ast.Gt) and cv(r, 1)) or (isinstance(o, ast.Lt) and cv(l, 1)) or (isinstance(o, ast.GtE) and cv(r, 2)) or (isinstance(o, ast.LtE) and cv(l, 2))

    over_all = any(isinstance(n, ast.For) and norm(n.iter).endswith("num_unpackstreams_folders") for n in walk(s.node)) or \
        any(isinstance(n, ast.Call) and isinstance(n.func, ast.Name) and n.func.id == "any" and n.args and isinstance(n.args[0], (ast.GeneratorExp, ast.ListComp))
            and norm(n.args[0].generators[0].iter).endswith("num_unpackstreams_folders") and not n.args[0].generators[0].ifs and _more_than_one(n.args[0].elt) for n in ast.walk(s.node))
    ok = any(_more_than_one(n) for n in ast.walk(s.node)) and over_all
    ctx.check(ok, "R10.8", s, s.node, "solid iff some folder holds more than one stream", "_is_solid does not test 'some folder holds > 1 substream' over all folders", construct="_is_solid")
    m = shared.szf(ctx, "_get_method_names")
    ok = any(isinstance(g.iter, ast.Attribute) and g.iter.attr == "folders" for n in ast.walk(m.node) if isinstance(n, (ast.ListComp, ast.GeneratorExp)) for g in n.generators)
    ctx.check(ok, "R10.8", m, m.node, "method names collected over all folders", "_get_method_names does not collect coders of ALL folders", construct="_get_method_names folders")


NUMERIC_KEYS = {"digest", "uncompressed", "compressed", "lastwritetime", "creationtime", "lastaccesstime", "attributes", "maxsize"}
NUMERIC_ACCESSORS = {"crc32", "uncompressed", "compressed", "lastwritetime", "creationtime", "lastaccesstime"}


def _bare_truth_operands(e: ast.AST):
    """sub-expressions whose TRUTH VALUE is consulted in e (operands of and/or/not, tests), not those inside comparisons."""
    if isinstance(e, ast.BoolOp):
        for v in e.values:
            yield from _bare_truth_operands(v)
    elif isinstance(e, ast.UnaryOp) and isinstance(e.op, ast.Not):
        yield from _bare_truth_operands(e.operand)
    elif isinstance(e, (ast.Compare,)):
        return
    else:
        yield e


def r10_9(ctx: Ctx) -> None:
    """a member's stored numbers reach the listing unchanged: a legal value 0 (CRC32 0, size 0, FILETIME 0, attribute word 0) is
    not a missing one.  (a) no accessor of ArchiveFile and no listing function decides on the TRUTHINESS of such a value;
    (b) every per-member argument of FileInfo(...) in list() is computed in the current iteration (no value carried over from the
    previous member)."""
    cls = ctx.prog.cls("ArchiveFile", "py7zr")
    funcs = list(cls.methods.values()) + [shared.szf(ctx, n) for n in ("list", "getinfo", "archiveinfo")]
    n_acc = 0
    for f in funcs:
        def numeric(e: ast.AST) -> bool:
            x = q.expand_locals(f, e)
            if isinstance(x, ast.Call) and attr_tail(x) == "_get_property" and x.args and isinstance(x.args[0], ast.Constant) and x.args[0].value in NUMERIC_KEYS:
                return True
            if isinstance(x, ast.Call) and attr_tail(x) == "get" and x.args and isinstance(x.args[0], ast.Constant) and x.args[0].value in NUMERIC_KEYS:
                return True
            if isinstance(x, ast.Subscript) and isinstance(x.slice, ast.Constant) and x.slice.value in NUMERIC_KEYS and "file_info" in norm(x.value):
                return True
            return isinstance(x, ast.Attribute) and x.attr in NUMERIC_ACCESSORS and not (isinstance(x.value, ast.Name) and x.value.id == "self" and f.cls != "ArchiveFile")
        for n in walk(f.node):
            if isinstance(n, ast.Call) and attr_tail(n) == "_get_property":
                n_acc += 1
            tests = []
            if isinstance(n, ast.BoolOp):
                tests = list(n.values)
            elif isinstance(n, (ast.If, ast.While, ast.IfExp)):
                tests = [n.test]
            elif isinstance(n, ast.UnaryOp) and isinstance(n.op, ast.Not):
                tests = [n.operand]
            for t in tests:
                for op in _bare_truth_operands(t):
                    if numeric(op):
                        ctx.fail("R10.9", f, n, f"`{norm(op)}` (a stored number that may legally be 0) is tested for truthiness in `{norm(n)[:80]}`: a member whose CRC32 / size / time "
                                 "stamp is 0 is listed as if the value were missing", construct=f"truthiness of {norm(op)}")
    ctx.floor("R10.9", n_acc, 5, "_get_property accessors in ArchiveFile")
    ctx.ok("R10.9", f"{n_acc} accessor reads inspected: none decides on the truthiness of a stored number")
    # (b) loop-carried listing values
    lf = shared.szf(ctx, "list")
    cfg = cfg_of(lf.node)
    for c in [c for c in q.calls(lf) if attr_tail(c) == "FileInfo"]:
        lps = q.enclosing_loops(lf, c)
        if not lps:
            continue
        lp = lps[0]
        body_entry = next(s_ for s_ in cfg.by_ast[lp].succ if s_.kind == "body")
        cn = q.node_for(lf, c)
        for a in list(c.args) + [k.value for k in c.keywords]:
            if not isinstance(a, ast.Name):
                continue
            defs_in = [n for n in ast.walk(lp) if isinstance(n, (ast.Assign, ast.AnnAssign, ast.AugAssign))
                       and any(isinstance(t, ast.Name) and t.id == a.id for t in (n.targets if isinstance(n, ast.Assign) else [n.target]))]
            if not defs_in:
                continue  # loop-invariant
            every = not cfg.reaches(body_entry, cn, avoid=[q.node_for(lf, d) for d in defs_in], normal_only=True)
            ctx.check(every, "R10.9", lf, c, f"list(): `{a.id}` is assigned on every path of the iteration that reports it",
                      f"list() reports `{a.id}` for a member although some path of the iteration does not assign it: the member is listed with the value "
                      "computed for the PREVIOUS member (e.g. a member without a time stamp shows its predecessor's)", construct=f"loop-carried {a.id}")


def r10_11(ctx: Ctx) -> None:
    """(a) getinfo: the query loses its trailing slash (remove_trailing_slash), so the member name it is compared with is normalised by
    the same function - a member stored as 'd0/' is found as 'd0' and as 'd0/'.  (b) archiveinfo works for an archive passed as a
    nameless stream: `self.filename` (None then) reaches os.stat / open only behind a None test, never behind an assert.  (c) the kind
    the format assigns: an empty stream whose EmptyFile bit is clear is a directory whatever the attribute word says - is_directory has
    no return that decides on the attribute word before that rule was applied."""
    g = shared.szf(ctx, "getinfo")
    strips = [c for c in q.calls(g) if attr_tail(c) == "remove_trailing_slash"]
    cmps = [n for n in walk(g.node) if isinstance(n, ast.Compare) and len(n.ops) == 1 and isinstance(n.ops[0], ast.Eq) and
            any(isinstance(x, ast.Attribute) and x.attr == "filename" for x in ast.walk(n))]
    ctx.floor("R10.11", len(cmps), 1, "name comparison in getinfo")
    query_stripped = any(isinstance(a, ast.Name) and a.id == g.params[1] for c in strips for a in c.args) if len(g.params) > 1 else False
    if query_stripped:
        for n in cmps:
            side = n.left if any(isinstance(x, ast.Attribute) and x.attr == "filename" for x in ast.walk(n.left)) else n.comparators[0]
            ok = isinstance(side, ast.Call) and attr_tail(side) == "remove_trailing_slash"
            ctx.check(ok, "R10.11", g, n, "getinfo normalises the member name like the query",
                      f"getinfo strips the trailing slash of the query but compares it with the member name as stored (`{norm(n)}`): a member stored as 'd0/' - listed by "
                      "namelist()/list() - is found neither as 'd0/' nor as 'd0' (KeyError)", construct="getinfo name comparison")
    a = shared.szf(ctx, "archiveinfo")
    for c in q.calls(a):
        if dotted(c.func) in ("os.stat", "os.path.getsize", "open") and c.args:
            srcs = [c.args[0]] + list(q.sources_of(a, c.args[0], depth=2))
            if any(isinstance(x, ast.Attribute) and x.attr == "filename" for e in srcs for x in ast.walk(e)):
                ok = False  # the name is a label: relative to the working directory of the open() call, or the `name` of a stream inside another container
                ctx.check(ok, "R10.11", a, c, "archiveinfo measures the open handle, not a file of the archive's name",
                          f"archiveinfo() evaluates `{norm(c)}`: the size of whatever file has that NAME now (after a chdir: another file or none; for a 7z read from a zip member: "
                          "a file called like the member), or AssertionError / TypeError for a nameless stream - the summary's total size must come from the handle (os.fstat(fileno()) "
                          "or the stream's length)", construct="archiveinfo filename")
    # the name may be None (an archive read from a nameless stream): nothing asserts otherwise - the listing of such an archive must not die
    for st in [x for x in walk(a.node) if isinstance(x, ast.Assert)]:
        for cd, pol in q.atoms(st.test, True):
            nt = q.is_none_test(cd)
            subj = nt[0] if nt is not None else cd
            srcs = [subj] + list(q.sources_of(a, subj, depth=2))
            about_name = any(isinstance(x, ast.Attribute) and x.attr in ("filename", "name") for e in srcs for x in ast.walk(e))
            ctx.check(not about_name, "R10.11", a, st, "archiveinfo does not assert that the archive has a name",
                      f"`{norm(st)}`: archiveinfo() of an archive that was opened from a stream without a name (BytesIO, a member of another container) dies with AssertionError "
                      "although every other listing call answers", construct="archiveinfo asserts a file name")
    sized = any(dotted(c.func) == "os.fstat" for c in q.calls(a)) or any(attr_tail(c) == "seek" and len(c.args) == 2 and "SEEK_END" in norm(c.args[1]) for c in q.calls(a))
    ctx.check(sized, "R10.11", a, a.node, "archiveinfo takes the archive's size from the handle", "archiveinfo() has no source for the size of the archive that is tied to the open handle",
              construct="archiveinfo size source")
    d = ctx.prog.func("py7zr", "ArchiveFile.is_directory")
    rets = [r for r in walk(d.node) if isinstance(r, ast.Return) and r.value is not None]
    ctx.floor("R10.11", len(rets), 1, "returns of ArchiveFile.is_directory")
    cfg = cfg_of(d.node)
    fmt_tests = [t for t in cfg.nodes if t.kind == "test" and any(isinstance(x, ast.Constant) and x.value == "emptyfile" for x in ast.walk(t.ast))]
    for r in rets:
        mentions = any(isinstance(x, ast.Constant) and x.value == "emptyfile" for x in ast.walk(r.value))
        dominated = any(cfg.dominates(t, q.node_for(d, r)) for t in fmt_tests)
        ctx.check(mentions or dominated, "R10.11", d, r, "is_directory applies the format's EmptyStream/EmptyFile rule before any attribute test",
                  f"`{norm(r)}` decides the kind from the attribute word on a path that has not looked at the EmptyFile flag: a directory entry (empty stream, EmptyFile "
                  "clear) whose attribute word lacks the DIRECTORY bit (attribute 0, ARCHIVE only, unix mode only) is listed and extracted as a file", construct="is_directory format rule")


def r10_13(ctx: Ctx, rule: str = "R10.13") -> None:
    """the EmptyFile vector has one bit per member WITH an empty stream, in order: FilesInfo._read hands its bits out to exactly those members
    (`f["emptyfile"] = next(bits, False)` under `f.get("emptystream")` true, the bits being an iterator over `self.emptyfiles`).  Handing
    them to the other members, or to all, turns directories into empty files and back."""
    f = ctx.prog.func("archiveinfo", "FilesInfo._read")
    sets = [n for n in walk(f.node) if isinstance(n, ast.Assign) and isinstance(n.targets[0], ast.Subscript) and isinstance(n.targets[0].slice, ast.Constant)
            and n.targets[0].slice.value == "emptyfile"]
    ctx.floor(rule, len(sets), 1, "per-member EmptyFile flag in FilesInfo._read")
    for n in sets:
        mem = norm(n.targets[0].value)
        facts = q.facts_at(f, n)
        only_empty = any(pol and ((isinstance(cd, ast.Call) and attr_tail(cd) == "get" and norm(cd.func.value) == mem and cd.args and isinstance(cd.args[0], ast.Constant)
                                  and cd.args[0].value == "emptystream") or
                                 (isinstance(cd, ast.Subscript) and norm(cd.value) == mem and isinstance(cd.slice, ast.Constant) and cd.slice.value == "emptystream")) for cd, pol in facts)
        # a member the vector has no bit for (no EmptyFile record at all) is NOT an empty file: the default of next() is False
        dflt = isinstance(n.value, ast.Call) and len(n.value.args) > 1 and isinstance(n.value.args[1], ast.Constant) and n.value.args[1].value is False
        ctx.check(dflt or not (isinstance(n.value, ast.Call) and dotted(n.value.func) == "next"), rule, f, n, "a member without an EmptyFile bit is not an empty file",
                  f"`{norm(n)}`: when the archive has no EmptyFile record every member with an empty stream must come out with the flag clear (a directory): another default turns all "
                  "directories of such an archive into empty files", construct="EmptyFile default")
        src_ok = isinstance(n.value, ast.Call) and dotted(n.value.func) == "next" and n.value.args and isinstance(n.value.args[0], ast.Name) and any(
            isinstance(v, ast.Call) and dotted(v.func) == "iter" and v.args and norm(v.args[0]).endswith("emptyfiles") for v in q.assigned_values(f, n.value.args[0].id))
        lp = q.enclosing_loops(f, n)
        over_all = bool(lp) and norm(lp[-1].iter) == "self.files"
        ctx.check(only_empty and src_ok and over_all, rule, f, n, "EmptyFile bits go, in order, to the members that have an empty stream",
                  f"`{norm(n)}` is not executed for exactly the members with an empty stream (under `{mem}.get('emptystream')` true, in a loop over all members, from an iterator over "
                  "`self.emptyfiles`): the bits of the EmptyFile vector land on the wrong members - empty files are listed and extracted as directories and directories as files",
                  construct="EmptyFile bits assignment")


def r10_17(ctx: Ctx, rule: str = "R10.17") -> None:
    """the EmptyFile vector is as long as the EmptyStream vector has bits SET: FilesInfo._read reads it with a count that starts at 0 and
    grows by `<EmptyStream vector>.count(True)` in the EmptyStream arm.  Any other count (never increased, the clear bits counted) reads too
    few or too many bits: empty files become directories or the record's bytes are misread."""
    f = ctx.prog.func("archiveinfo", "FilesInfo._read")
    rd = [c for c in q.calls(f) if attr_tail(c) == "read_boolean" and any(pol and "EMPTY_FILE" in norm(cd) for cd, pol in q.facts_at(f, c))]
    ctx.floor(rule, len(rd), 1, "EmptyFile vector read in FilesInfo._read")
    for c in rd:
        cnt = c.args[1] if len(c.args) > 1 else None
        ok = isinstance(cnt, ast.Name)
        if ok:
            name = cnt.id
            inits = [n for n in walk(f.node) if isinstance(n, ast.Assign) and norm(n.targets[0]) == name]
            incs = [n for n in walk(f.node) if isinstance(n, ast.AugAssign) and norm(n.target) == name]
            ok = bool(inits) and all(isinstance(n.value, ast.Constant) and n.value.value == 0 and not q.enclosing_loops(f, n) for n in inits) and len(incs) >= 1
            for n in incs:
                v = n.value
                good = isinstance(n.op, ast.Add) and isinstance(v, ast.Call) and attr_tail(v) == "count" and len(v.args) == 1 and isinstance(v.args[0], ast.Constant) and v.args[0].value is True \
                    and isinstance(v.func.value, ast.Name) and any(isinstance(x, ast.Call) and attr_tail(x) == "read_boolean" for x in q.assigned_values(f, v.func.value.id)) \
                    and any(pol and "EMPTY_STREAM" in norm(cd) for cd, pol in q.facts_at(f, n))
                ok = ok and good
        ctx.check(ok, rule, f, c, "the EmptyFile vector is read with the number of set EmptyStream bits",
                  f"`{norm(c)}`: the count is not a local that starts at 0 and grows by `<EmptyStream bits>.count(True)` in the EmptyStream arm: the EmptyFile vector is read with the wrong "
                  "length - archives of other writers list empty files as directories (or the other way round)", construct="EmptyFile vector length")


def r10_15(ctx: Ctx, rule: str = "R10.15") -> None:
    """writer side of R10.13: the vector written under PROPERTY.EMPTY_FILE has one entry per member WITH an empty stream, in member order,
    taken from that member's `emptyfile` flag - a comprehension (or loop with append) over `self.files` FILTERED by `emptystream`.  One
    entry per member (the filter moved into the value) is a vector the reader hands out to the wrong members: after an append the old
    empty file is a directory and the directory an empty file."""
    f = ctx.prog.func("archiveinfo", "FilesInfo.write")
    from ..cfg import cfg_of as _cfg
    cfg = _cfg(f.node)
    marks = [c for c in q.calls(f) if attr_tail(c) == "write_byte" and len(c.args) > 1 and norm(c.args[1]) == "PROPERTY.EMPTY_FILE"]
    ctx.floor(rule, len(marks), 1, "EmptyFile record in FilesInfo.write")
    for mk in marks:
        vecs = [c for c in q.calls(f) if attr_tail(c) == "write_boolean" and len(c.args) > 1 and cfg.dominates(q.node_for(f, mk), q.node_for(f, c))
                and q.facts_at(f, c) and sorted((norm(a), p_) for a, p_ in q.facts_at(f, c)) == sorted((norm(a), p_) for a, p_ in q.facts_at(f, mk))]
        ctx.need(bool(vecs), "FilesInfo.write: no bit vector follows the EmptyFile id")
        v = vecs[0].args[1]
        vals = q.assigned_values(f, v.id) if isinstance(v, ast.Name) else [v]
        ok = bool(vals)
        for val in vals:
            if isinstance(val, (ast.ListComp, ast.GeneratorExp)) and len(val.generators) == 1 and isinstance(val.generators[0].target, ast.Name):
                gen = val.generators[0]
                m = gen.target.id
                filt = any(pol and norm(a) in (f"{m}['emptystream']", f"{m}.get('emptystream')", f"{m}.get('emptystream', False)")
                           for cond in gen.ifs for a, pol in q.atoms(cond, True))
                over = norm(gen.iter) == "self.files"
                src = any(isinstance(x, ast.Constant) and x.value == "emptyfile" for x in ast.walk(val.elt))
                ok = ok and filt and over and src
            elif isinstance(val, ast.List) and not val.elts and isinstance(v, ast.Name):
                apps = [c for c in q.calls(f) if attr_tail(c) == "append" and norm(c.func.value) == v.id]
                ok = ok and bool(apps)
                for a_ in apps:
                    lp = q.enclosing_loops(f, a_)
                    m = lp[-1].target.id if lp and isinstance(lp[-1].target, ast.Name) else None
                    ok = ok and m is not None and norm(lp[-1].iter) == "self.files" and any(
                        pol and norm(a) in (f"{m}['emptystream']", f"{m}.get('emptystream')", f"{m}.get('emptystream', False)") for a, pol in q.facts_at(f, a_)) \
                        and any(isinstance(x, ast.Constant) and x.value == "emptyfile" for x in ast.walk(a_))
            else:
                ok = False
        ctx.check(ok, rule, f, vecs[0], "the EmptyFile vector written has one entry per member with an empty stream",
                  f"the vector written under PROPERTY.EMPTY_FILE (`{norm(v)}`) is not built from the `emptyfile` flags of exactly the members of `self.files` that have an empty "
                  "stream (filter `f['emptystream']`), in order: with one entry per MEMBER the reader (which hands the bits to the empty-stream members in turn) gives the flags to the "
                  "wrong members - after an append to an archive where a data member precedes an empty file, the old empty file is a directory and the directory an empty file",
                  construct="EmptyFile vector written")


LISTING_API = ("getnames", "namelist", "getinfo", "list", "archiveinfo", "needs_password")


def r10_16(ctx: Ctx, rule: str = "R10.16") -> None:
    """the listing interfaces answer from the member list AS IT IS NOW - in a write or append session it grows between two calls.  None of
    them stores anything on the archive object (`self.X = ...`, setattr(self, ...)): an index or a summary kept from the first call
    describes the archive as it was, and getinfo raises KeyError for members that getnames lists."""
    n = 0
    for name in LISTING_API:
        f = shared.szf(ctx, name)
        n += 1
        stores = [x for x in walk(f.node) if (isinstance(x, ast.Attribute) and isinstance(x.ctx, ast.Store) and isinstance(x.value, ast.Name) and x.value.id == "self")
                  or (isinstance(x, ast.Call) and dotted(x.func) == "setattr" and x.args and isinstance(x.args[0], ast.Name) and x.args[0].id == "self")]
        ctx.check(not stores, rule, f, stores[0] if stores else f.node, f"{name} keeps nothing on the archive object",
                  (f"`{norm(stores[0])}`: " if stores else "") + f"{name}() stores a value on the archive object: what it computed from the member list of the FIRST call answers the later ones - "
                  "in a write or append session members written after that call are listed by getnames()/list() while getinfo() raises KeyError for them",
                  construct=f"{name} memoises on self")
    ctx.floor(rule, n, 6, "listing interfaces")


def r10_18(ctx: Ctx, rule: str = "R10.18") -> None:
    """the `name` of the archive handle is a label of any type: None (BytesIO), a number (a handle made from a descriptor), bytes (opened by a
    bytes path).  Where _real_get_contents derives the name of a nameless member from it, the text functions (os.path.basename / splitext)
    are applied under an `isinstance(<it>, str)` fact only - otherwise opening the archive dies with TypeError, or the listing holds a bytes
    name that getinfo() and extraction cannot use."""
    f = shared.szf(ctx, "_real_get_contents")
    uses = [c for c in q.calls(f) if (dotted(c.func) or "") in ("os.path.basename", "os.path.splitext", "os.path.split", "os.path.dirname") and c.args and q.derives_from(
        f, c.args[0], lambda v: isinstance(v, ast.Attribute) and v.attr in ("filename", "name") and isinstance(v.value, (ast.Name, ast.Attribute)), depth=4)]
    if not uses:
        ctx.ok(rule, "_real_get_contents derives no member name from the handle's name")
        return
    for c in uses:
        inner = [x for x in ast.walk(c) if isinstance(x, ast.Name)]
        typed = any(pol and isinstance(cd, ast.Call) and dotted(cd.func) == "isinstance" and len(cd.args) == 2 and norm(cd.args[1]) == "str"
                    and any(norm(cd.args[0]) == n_.id for n_ in inner) for cd, pol in q.facts_at(f, c))
        ctx.check(typed, rule, f, c, "the handle's name is used as text only when it is text",
                  f"`{norm(c)[:80]}` takes the archive handle's `name` for a str: for a handle made from a descriptor (name = a number) SevenZipFile() raises TypeError and nothing can "
                  "be listed; for one opened by a bytes path the listing holds a bytes name that getinfo() and extractall() refuse", construct="handle name used as text")


def r10_19(ctx: Ctx, rule: str = "R10.19") -> None:
    """needs_password() is true when an encryption coder is present OR a password was supplied: the coder check in _real_get_contents does not
    take a flag that is already set back - its assignment of `password_protected` stands under `not self.password_protected` (or keeps the
    old value: `self.password_protected or ...`)."""
    f = shared.szf(ctx, "_real_get_contents")
    sets = [n for n in walk(f.node) if isinstance(n, ast.Assign) and norm(n.targets[0]) == "self.password_protected"]
    ctx.floor(rule, len(sets), 1, "assignment of password_protected in _real_get_contents")
    for n in sets:
        guarded = any((not pol) and norm(cd) == "self.password_protected" for cd, pol in q.facts_at(f, n))
        keeps = isinstance(n.value, ast.BoolOp) and isinstance(n.value.op, ast.Or) and any(norm(v) == "self.password_protected" for v in n.value.values)
        ctx.check(guarded or keeps or (isinstance(n.value, ast.Constant) and n.value.value is True), rule, f, n, "a password that was supplied keeps needs_password() true",
                  f"`{norm(n)[:80]}` overwrites the flag that a supplied password had set: an unencrypted archive opened with password='pw' answers needs_password() False",
                  construct="password flag overwritten")


def r10_14(ctx: Ctx, rule: str = "R10.14") -> None:
    """the listing of a write session describes what was ARCHIVED: Worker.archive stores the member's `uncompressed` size on every path - the
    size that went into the stream (the last entry of substreamsinfo.unpacksizes) for a member with a stream, 0 for one without.  _make_file_info
    only knows stat(): nothing for directories and links (None: list() shows None and archiveinfo() dies with TypeError on the sum), the stat
    size for files that grow or are pseudo files."""
    f = ctx.prog.func("py7zr", "Worker.archive")
    cfg = cfg_of(f.node)
    sets = [n for n in walk(f.node) if isinstance(n, ast.Assign) and isinstance(n.targets[0], ast.Subscript) and isinstance(n.targets[0].slice, ast.Constant)
            and n.targets[0].slice.value == "uncompressed"]
    ok = bool(sets) and cfg.every_path_to_exit_passes(cfg.entry, [q.node_for(f, n) for n in sets])
    from_stream = any("unpacksizes" in norm(n.value) or "insize" in norm(q.expand_locals(f, n.value)) for n in sets)
    ctx.check(ok and from_stream, rule, f, sets[0] if sets else f.node, "Worker.archive records the archived size of every member",
              "Worker.archive does not store `uncompressed` for every member it registers (from what went into the stream; 0 without a stream): in a write or append session list() reports "
              "None for directories and links and archiveinfo() raises TypeError, and after close() and re-open the same members list differently", construct="archived size not recorded")


def r10_12(ctx: Ctx) -> None:
    """one member's time stamp cannot abort the listing: a FILETIME is any 64-bit number, datetime ends with year 9999.  Every conversion of
    a stored FILETIME to datetime in the listing functions (filetime_to_dt, ArchiveTimestamp.as_datetime, fromtimestamp) stands in a try
    block that catches OverflowError, or the converter itself does."""
    conv = ctx.prog.func("helpers", "filetime_to_dt")
    self_guarded = any(isinstance(t, ast.Try) and any(h.type is not None and "OverflowError" in norm(h.type) for h in t.handlers) for t in walk(conv.node))
    n = 0
    for name in ("list", "getinfo", "archiveinfo"):
        f = shared.szf(ctx, name)
        for g, c, via in q.deep_nodes(ctx, f):
            if isinstance(c, ast.Call) and attr_tail(c) in ("filetime_to_dt", "as_datetime", "fromtimestamp", "utcfromtimestamp"):
                n += 1
                guarded = self_guarded or any(isinstance(t, ast.Try) and any(c is x for st in t.body for x in ast.walk(st)) and
                                              any(h.type is None or "OverflowError" in norm(h.type) or norm(h.type) in ("Exception",) for h in t.handlers) for t in walk(g.node))
                ctx.check(guarded, "R10.12", g, c, f"{g.qname}: FILETIME conversion cannot abort the listing",
                          f"`{norm(c)}` converts a stored FILETIME to datetime without catching OverflowError: one member dated after year 9999 (any value from 2650467744000000000 "
                          "up, e.g. 2^63) makes list() raise, so no member of the archive can be listed", construct="unguarded FILETIME conversion")
    ctx.floor("R10.12", n, 1, "FILETIME conversions in the listing functions")
    # the command line converts once more (to the local zone): the last hours of year 9999 have no local time east of UTC
    cl = ctx.prog.func("cli", "Cli._run_list")
    for c in [c for c in q.calls(cl) if attr_tail(c) == "astimezone"]:
        guarded = any(isinstance(t, ast.Try) and any(c is x for st in t.body for x in ast.walk(st)) and
                      any(h.type is None or "OverflowError" in norm(h.type) or "ValueError" in norm(h.type) or norm(h.type) == "Exception" for h in t.handlers) for t in walk(cl.node))
        ctx.check(guarded, "R10.12", cl, c, "the local-time conversion of `l` cannot abort the listing",
                  f"`{norm(c)}`: a member stamped in the last hours of year 9999 UTC (it passes the guard of list()) makes `py7zr l` die with 'year 10000 is out of range' in "
                  "every zone east of UTC, exit 1, no member listed", construct="unguarded astimezone in the CLI")


def run(ctx: Ctx) -> None:
    r10_14(ctx)
    r10_13(ctx)
    r10_15(ctx)
    r10_16(ctx)
    r10_19(ctx)
    r10_18(ctx)
    r10_17(ctx)
    r10_12(ctx)
    r10_11(ctx)
    from . import c08 as _c08
    _c08.r08_14(ctx, rule="R10.10")  # the listed crc32 of a member protected by a folder CRC
    r10_9(ctx)
    r10_1(ctx)
    r10_2(ctx)
    r10_3(ctx)
    r10_4(ctx)
    r10_5(ctx)
    r10_6(ctx)
    r10_7(ctx)
    r10_8(ctx)
