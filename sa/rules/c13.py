"""C13 — scheduling independence and worker error propagation."""
from __future__ import annotations

import ast
from typing import Dict, List, Optional, Set

from ..cfg import cfg_of
from ..model import Func, attr_tail, dotted, norm, walk
from ..report import Ctx
from .. import q
from . import shared

EXPLANATION = (
    "Effect and channel analysis of the parallel branch of Worker.extract: each task receives the archive's NAME (not the "
    "shared handle) and opens its own handle; the call-graph closure of the task target writes no attribute of the shared "
    "Worker / SevenZipFile / header objects (per-folder decoder state excepted, one folder per task); the target wraps its "
    "body in a catch-all that forwards the exception into a channel that is in every task's args; after the spawn loop all "
    "started tasks are joined and a non-empty channel re-raises; and every object used to communicate back is of a kind "
    "that works for each concurrency primitive the code can select (a queue.Queue does not cross a Process boundary). "
    "Not decided: output equality under all interleavings; OS file semantics."
)
TRUSTED = ["CPython ast parser", "sa.resolve closure of the thread target", "sa.cfg dominators",
           "queue.Queue is process-local; multiprocessing.Queue is required across Process boundaries (stdlib semantics)"]

SHARED_CLASSES = {"Worker", "SevenZipFile", "Header", "FilesInfo", "PackInfo", "UnpackInfo", "SubstreamsInfo", "StreamsInfo",
                  "SignatureHeader", "ArchiveFileList"}
OWNED_OK = {("Folder", "decompressor")}


def spawn_sites(ctx: Ctx, f: Func):
    for c in q.calls(f):
        tgt = next((k.value for k in c.keywords if k.arg == "target"), None)
        args = next((k.value for k in c.keywords if k.arg == "args"), None)
        if tgt is not None and isinstance(args, ast.Tuple):
            yield c, tgt, args


def handler_branches(ctx: Ctx, rule: str, tf: Func, h: ast.ExceptHandler, exc_param: str) -> None:
    """the catch-all of the task target decides between `re-raise` and `put into the channel` on the channel itself:
    a put happens only where the channel is known to exist, a re-raise only where it is known to be absent (a re-raise
    inside a worker thread is lost), and no path leaves the handler without one of the two."""
    tcfg = cfg_of(tf.node)
    subj = ast.Name(id=exc_param, ctx=ast.Load())
    puts = [x for x in ast.walk(h) if isinstance(x, ast.Call) and isinstance(x.func, ast.Attribute) and x.func.attr in ("put", "put_nowait")
            and isinstance(x.func.value, ast.Name) and x.func.value.id == exc_param]
    raises = [x for x in ast.walk(h) if isinstance(x, ast.Raise)]
    for x in puts:
        ctx.check(q.known_not_none(q.facts_at(tf, x), subj), rule, tf, x, "exception is put into the channel where the channel exists",
                  f"the handler puts the exception into '{exc_param}' on a branch that did not establish that '{exc_param}' is present "
                  "(the branch tests something else): with the channel given but the tested object absent the exception is re-raised inside the worker thread and lost",
                  construct=f"handler put {exc_param}")
    for x in puts:
        # what is put is the exception that was caught: the handler's name, or sys.exc_info() - directly or through a local assigned in the handler
        # on the way to the put (a local that is never assigned dies with NameError inside the worker thread: the error is lost)
        arg = x.args[0] if x.args else None

        def is_exc(e: ast.AST, depth: int = 2) -> bool:
            if e is None:
                return False
            if any(isinstance(y, ast.Call) and dotted(y.func) == "sys.exc_info" for y in ast.walk(e)):
                return True
            if h.name is not None and any(isinstance(y, ast.Name) and y.id == h.name for y in ast.walk(e)):
                return True
            if isinstance(e, (ast.Tuple, ast.List)):
                # the exception travels with something that says whose it is (the folder's position)
                return any(is_exc(el, depth) for el in e.elts)
            if isinstance(e, ast.Name) and depth > 0:
                defs = [n for n in ast.walk(h) if isinstance(n, ast.Assign) and any(isinstance(t_, ast.Name) and t_.id == e.id for t_ in n.targets)]
                return bool(defs) and all(is_exc(n.value, depth - 1) for n in defs) and any(tcfg.dominates(q.node_for(tf, n), q.node_for(tf, x)) for n in defs)
            return False
        ctx.check(is_exc(arg), rule, tf, x, "what goes into the channel is the caught exception",
                  f"`{norm(x)}`: the value put into the error channel is not the caught exception (sys.exc_info() / the handler's name), or the local that should hold it is not assigned "
                  "on the way: the put itself fails inside the worker thread and extraction/testzip report success", construct="handler put value")
    for r in raises:
        facts = q.facts_at(tf, r)
        absent = any((t := q.is_none_test(cd)) is not None and isinstance(t[0], ast.Name) and t[0].id == exc_param and t[1] == pol for cd, pol in facts) \
            or any(isinstance(cd, ast.Name) and cd.id == exc_param and not pol for cd, pol in facts)
        ctx.check(absent, rule, tf, r, "exception is re-raised only where no channel was given",
                  f"the handler re-raises on a branch that is not conditioned on '{exc_param}' being absent: when the task runs in a worker thread with the channel "
                  "given, the exception dies with the thread and extraction/testzip report success", construct=f"handler raise vs {exc_param}")
    hn = tcfg.by_ast.get(h)
    if hn is not None:
        stops = [q.node_for(tf, x) for x in puts] + [q.node_for(tf, r) for r in raises]
        ctx.check(not tcfg.reaches(hn, tcfg.exit, avoid=stops, normal_only=True), rule, tf, h, "no path leaves the handler without raise or put",
                  "a path through the task target's catch-all neither re-raises nor forwards the exception", construct="handler fallthrough")


def r13_8(ctx: Ctx) -> None:
    """(a) two members never race for one output path: _extract gives a duplicated member name a suffix (`name_0`), and the new name can
    meet another member's; whenever such a rename happened the folders are extracted in archive order - the `parallel` argument of
    Worker.extract depends on a flag that is set in the renaming branch.  (b) the worker tasks re-open the archive by the NAME of the
    handle: the constructor opens the file by an absolute path, so that the name stays valid when the process changes its working
    directory between opening and extracting (a relative name would make the tasks fail, or decode another file of the same name)."""
    f = shared.szf(ctx, "_extract")
    renames = [n for n in walk(f.node) if isinstance(n, ast.Assign) and isinstance(n.value, ast.BinOp) and isinstance(n.value.op, ast.Add)
               and any(isinstance(x, ast.Attribute) and x.attr == "filename" for x in ast.walk(n.value.left)) and
               (isinstance(n.value.right, ast.BinOp) or isinstance(n.value.right, ast.JoinedStr) or isinstance(n.value.right, ast.Call))]
    ctx.floor("R13.8", len(renames), 1, "duplicate-name renames in _extract")
    wcalls = [c for c in q.calls(f) if "py7zr:Worker.extract" in shared.targets_of(ctx, f, c)]
    for r in renames:
        # flags assigned in the same branch as the rename
        from ..model import parent_map
        pm = parent_map(f.node)
        blk = pm.get(r)
        sibs = [x for fld in ("body", "orelse") for x in getattr(blk, fld, []) if isinstance(getattr(blk, fld, None), list) and any(y is r for y in getattr(blk, fld))]
        flags = {t.id for x in sibs if isinstance(x, ast.Assign) and isinstance(x.value, ast.Constant) and x.value.value is True for t in x.targets if isinstance(t, ast.Name)}
        for c in wcalls:
            par = next((k.value for k in c.keywords if k.arg == "parallel"), c.args[2] if len(c.args) > 2 else None)
            srcs = [par] + list(q.sources_of(f, par, depth=3)) if par is not None else []
            ok = (isinstance(par, ast.Constant) and par.value is False) or (par is not None and shared.off_when(f, par, lambda e: isinstance(e, ast.Name) and e.id in flags))
            ctx.check(ok, "R13.8", f, c, "folders are extracted in order when a member name was rewritten",
                      "a duplicated member name is rewritten to `<name>_<n>` but folders may still be extracted in parallel: members `a`, `a`, `a_0` in three folders make two "
                      "workers write `<out>/a_0`, and which content survives depends on the schedule (sequential extraction keeps the real `a_0`)",
                      construct="parallel with renamed duplicates")
    # the gate is computed when the flags are final: no flag it depends on is set behind the assignment of `parallel`
    pdefs = [n for n in walk(f.node) if isinstance(n, ast.Assign) and any(isinstance(t_, ast.Name) and t_.id == "parallel" for t_ in n.targets)]
    fcfg = cfg_of(f.node)
    for pd in pdefs:
        used = {x.id for x in ast.walk(pd.value) if isinstance(x, ast.Name)}
        late = [n for n in walk(f.node) if isinstance(n, ast.Assign) and isinstance(n.value, ast.Constant) and n.value.value is True and isinstance(n.targets[0], ast.Name)
                and n.targets[0].id in used and fcfg.reaches(q.node_for(f, pd), q.node_for(f, n))]
        ctx.check(not late, "R13.8", f, pd, "the parallel gate is computed after the flags it depends on are final",
                  (f"`{norm(late[0])}` " if late else "") + "can be executed after `parallel = ...` has been computed: the flag is still False when the gate reads it, members that end up at one path "
                  "('a', 'a', 'a_0' in three folders) are written concurrently and the schedule decides which content remains", construct="parallel gate computed before its flags")
    # a task touches the decoders of its OWN folders only: extract_single releases `.decompressor` in loops over folders derived from its `files`
    # argument - resetting every folder of the header from one task pulls the decoder from under another task between two of its members
    es_ = ctx.prog.func("py7zr", "Worker.extract_single")
    for n in [n for n in walk(es_.node) if isinstance(n, ast.Assign) and any(isinstance(t_, ast.Attribute) and t_.attr == "decompressor" for t_ in n.targets)]:
        lps = q.enclosing_loops(es_, n)
        own = bool(lps) and all(any(isinstance(x, ast.Name) and x.id == es_.params[2] for x in ast.walk(lp_.iter)) and not any(
            isinstance(x, ast.Attribute) and x.attr in ("header", "main_streams", "unpackinfo") for x in ast.walk(lp_.iter)) for lp_ in lps[-1:])
        ctx.check(own, "R13.8", es_, n, "a folder task releases the decoders of its own folders only",
                  f"`{norm(n)}` in Worker.extract_single reaches folders that other tasks are working on (the loop runs over the header's folders, not over the task's `{es_.params[2]}`): a task that "
                  "fails resets the decoder of an intact folder between two of its members - that task dies with TypeError, its member is missing, and its spurious error may be the one raised",
                  construct="task resets other tasks' decoders")
    # (c) two DIFFERENT names can lead to one output path ('a' and 'x/../a', 'a' and './a'): every output path goes into a set, and a path
    # that is already in it sets a flag `parallel` depends on
    adds = [c for c in q.calls(f) if attr_tail(c) == "add" and isinstance(c.func.value, ast.Name) and c.args and isinstance(c.args[0], ast.Name)]
    path_sets = {}
    inode_adds = []
    for c in adds:
        if q.derives_from(f, c.args[0], lambda v: isinstance(v, ast.Call) and (dotted(v.func) or "") in ("os.stat", "os.lstat") or (isinstance(v, ast.Attribute) and v.attr == "st_ino"), depth=2):
            inode_adds.append(c)  # the identity of the file that is there (device, inode): judged below
            continue
        if q.derives_from(f, c.args[0], lambda v: isinstance(v, ast.Call) and (dotted(v.func) or "").endswith("get_sanitized_output_path"), depth=3):
            path_sets[c.func.value.id] = c
    # (d) two NAMES of one file (hard links in the destination) are one output too: the file that is there is entered by its identity
    # (st_dev, st_ino) next to the path, and a hit switches parallel extraction off like a path hit does
    wcalls_ = [c for c in q.calls(f) if "py7zr:Worker.extract" in shared.targets_of(ctx, f, c)]
    ok_inode = False
    for c in inode_adds:
        keyname = c.args[0].id
        sname_ = c.func.value.id
        tests_ = [t for t in cfg_of(f.node).nodes if t.kind == "test" and isinstance(t.ast, ast.Compare) and isinstance(t.ast.ops[0], ast.In) and norm(t.ast.left) == keyname
                  and norm(t.ast.comparators[0]) == sname_]
        for t in tests_:
            sets_ = [n for n in walk(f.node) if isinstance(n, ast.Assign) and isinstance(n.value, ast.Constant) and n.value.value is True and isinstance(n.targets[0], ast.Name)
                     and any(pol and cd is t.ast for cd, pol in q.facts_at(f, n))]
            for wc in wcalls_:
                par = next((k.value for k in wc.keywords if k.arg == "parallel"), wc.args[2] if len(wc.args) > 2 else None)
                if par is not None and shared.off_when(f, par, lambda e: isinstance(e, ast.Name) and e.id in {s_.targets[0].id for s_ in sets_}):
                    ok_inode = True
    ctx.check(ok_inode, "R13.8", f, inode_adds[0] if inode_adds else f.node, "two names of one existing file (hard links) are extracted in archive order",
              "_extract compares output PATHS only: two members whose destination names are hard links of one file (both exist in the destination) are written by two workers "
              "into the same inode at the same time, and the schedule decides which bytes remain under both names", construct="hard-linked outputs in parallel")
    ctx.floor("R13.8", len(path_sets), 1, "set of output paths in _extract")
    cfg = cfg_of(f.node)
    for sname, addc in sorted(path_sets.items()):
        tests = [t for t in cfg.nodes if t.kind == "test" and isinstance(t.ast, ast.Compare) and len(t.ast.ops) == 1 and isinstance(t.ast.ops[0], ast.In)
                 and norm(t.ast.comparators[0]) == sname and norm(t.ast.left) == norm(addc.args[0])]
        ok = False
        for t in tests:
            te = next((e for e in t.succ if e.kind == "true"), None)
            if te is None or not cfg.reaches(t, q.node_for(f, addc)):
                continue  # the membership test must come before the path is added
            sets = [n for n in walk(f.node) if isinstance(n, ast.Assign) and isinstance(n.value, ast.Constant) and n.value.value is True and isinstance(n.targets[0], ast.Name)
                    and any(pol and cd is t.ast for cd, pol in q.facts_at(f, n))]
            for c in wcalls:
                par = next((k.value for k in c.keywords if k.arg == "parallel"), c.args[2] if len(c.args) > 2 else None)
                srcs = [par] + list(q.sources_of(f, par, depth=3)) if par is not None else []
                if par is not None and shared.off_when(f, par, lambda e: isinstance(e, ast.Name) and e.id in {s_.targets[0].id for s_ in sets}):
                    ok = True
        # every member's path is added: the add is not conditional on the test
        every = addc is not None and not any(pol is not None and isinstance(cd, ast.Compare) and norm(cd.comparators[0]) == sname for cd, pol in q.facts_at(f, addc) if isinstance(cd, ast.Compare) and cd.comparators)
        # ... whatever the kind of output: products of a factory are shared between the workers like files are.  The add is a statement of the
        # registration loop itself, not of a conditional arm inside it
        lps = q.enclosing_loops(f, addc)
        if lps:
            arms = [n for n in ast.walk(lps[-1]) if isinstance(n, ast.If) and any(x is addc for st in n.body + n.orelse for x in ast.walk(st))]
            ctx.check(not arms, "R13.8", f, arms[0] if arms else addc, "every registered output path is entered in the set, for every kind of output",
                      (f"`if {norm(arms[0].test)[:60]}`: " if arms else "") + f"the output path is entered in `{sname}` (and looked up in it) only on some arm of the registration loop: for the other "
                      "outputs (e.g. the products of a writer factory) members 'd/a.txt' and 'x/../d/a.txt' of two folders are written by two workers at once and the schedule "
                      "decides whose content remains", construct="output path set filled conditionally")
        # the key is the file the path LEADS to (links already in the destination resolved): 'lib/f' and 'lib64/f' are one file when lib -> lib64
        resolved = q.derives_from(f, addc.args[0], lambda v: isinstance(v, ast.Call) and ((dotted(v.func) or "").endswith("realpath") or attr_tail(v) == "resolve"), depth=3)
        ctx.check(resolved, "R13.8", f, addc, "output paths are compared after resolving links that exist in the destination",
                  f"the set `{sname}` holds the TEXT of the output paths: with a link in the destination ('lib' -> 'lib64') the members 'lib/f' and 'lib64/f' of two folders are written to one "
                  "file at the same time and the schedule decides whose content survives", construct="output paths compared as text")
        ctx.check(ok and every, "R13.8", f, addc, "members that share an output path are extracted in archive order",
                  f"two members with different names can be written to one output path ('a' and 'x/../a'): the set `{sname}` of output paths is not consulted before a path is added, "
                  "or a hit does not switch parallel extraction off - two workers write the same file and the schedule decides whose content survives",
                  construct="same output path in parallel")
    init = shared.szf(ctx, "__init__")
    opens = [c for c in q.calls(init) if dotted(c.func) == "open" and c.args]
    ctx.floor("R13.8", len(opens), 1, "open() of the archive in the constructor")
    tasks_by_name = any(isinstance(x, ast.Call) and dotted(x.func) == "getattr" and len(x.args) > 1 and isinstance(x.args[1], ast.Constant) and x.args[1].value == "name"
                        for x in walk(ctx.prog.func("py7zr", "Worker.extract").node))
    if tasks_by_name:
        for c in opens:
            a = c.args[0]
            srcs = [a] + list(q.sources_of(init, a, depth=2))
            # absolute WITHOUT textual normalisation: joined to the working directory (abspath/normpath would collapse 'link/..' and name another file)
            joined = any(isinstance(x, ast.Call) and dotted(x.func) == "os.path.join" and x.args and isinstance(x.args[0], ast.Call) and dotted(x.args[0].func) in ("os.getcwd", "os.getcwdb")
                         for e in srcs for x in ast.walk(e)) or any(isinstance(x, ast.Call) and attr_tail(x) in ("absolute",) for e in srcs for x in ast.walk(e))
            collapsing = any(isinstance(x, ast.Call) and dotted(x.func) in ("os.path.abspath", "os.path.normpath") for e in srcs for x in ast.walk(e))
            ok = joined and not collapsing
            ctx.check(ok, "R13.8", init, c, "the archive is opened by an absolute path (tasks re-open it by the handle's name)",
                      f"the constructor opens the archive as `{norm(c)}` and the folder tasks re-open it by `fp.name`: a relative name is resolved again at extraction time, so after "
                      "os.chdir() the parallel path fails with FileNotFoundError or decodes another file of the same name, while the sequential path extracts correctly "
                      "(and os.path.abspath/normpath collapse 'link/..' textually: another file is opened or created behind a symbolic link)",
                      construct="archive opened by relative name")
            # an ABSOLUTE name does not depend on the working directory: os.getcwd() is consulted only for a name that is not absolute
            # (it raises FileNotFoundError when the working directory has been removed, which is no reason to refuse '/abs/x.7z')
            for g in [x for e in srcs for x in ast.walk(e) if isinstance(x, ast.Call) and dotted(x.func) in ("os.getcwd", "os.getcwdb")]:
                guarded = any((not pol) and isinstance(cd, ast.Call) and (dotted(cd.func) or "").endswith("isabs") for cd, pol in q.facts_at(init, g)) or \
                    any(pol and isinstance(cd, ast.UnaryOp) for cd, pol in q.facts_at(init, g) if isinstance(cd, ast.UnaryOp) and isinstance(cd.op, ast.Not) and "isabs" in norm(cd.operand))
                ctx.check(guarded, "R13.8", init, g, "the working directory is consulted only for a relative archive name",
                          "the constructor calls os.getcwd() for every archive name: `SevenZipFile('/abs/x.7z')` raises FileNotFoundError in a process whose working directory has been "
                          "deleted although the name does not depend on it (upstream opens it)", construct="getcwd for absolute name")


def run(ctx: Ctx) -> None:
    r13_8(ctx)
    from . import c03 as _c03, c06 as _c06
    _c03.parallel_guard(ctx, "R13.6")
    _c06.r06_10(ctx, rule="R13.7")  # each task decodes its own folder's byte window
    shared.windowed_traversal(ctx, "R13.9")  # every folder task is started, and the batching cannot fail where the sequential arm succeeds
    ex = ctx.prog.func("py7zr", "Worker.extract")
    cfg = cfg_of(ex.node)
    spawns = list(spawn_sites(ctx, ex))
    # tasks started with a closure instead of target=/args=: loop variables are bound late
    for c in q.calls(ex):
        tgt = next((k.value for k in c.keywords if k.arg == "target"), None)
        if isinstance(tgt, ast.Lambda):
            loop_vars = set()
            for lp in q.enclosing_loops(ex, c):
                loop_vars |= {x.id for x in ast.walk(lp.target) if isinstance(x, ast.Name)} if isinstance(lp, ast.For) else set()
                loop_vars |= {t.id for n in ast.walk(lp) if isinstance(n, ast.Assign) for t in n.targets if isinstance(t, ast.Name)}
            free = {x.id for x in ast.walk(tgt.body) if isinstance(x, ast.Name)} - {a.arg for a in tgt.args.args} - {a.arg for a in tgt.args.kwonlyargs}
            defaults = {a.arg for a in tgt.args.args[len(tgt.args.args) - len(tgt.args.defaults):]} if tgt.args.defaults else set()
            late = sorted((free & loop_vars) - defaults)
            ctx.check(not late, "R13.1", ex, c, "task closure captures no loop variable",
                      f"the task is started with a lambda that captures the loop variable(s) {late} by reference: a task that starts after the loop advanced works on another "
                      "folder (folders skipped or decoded twice, depending on scheduling)")
    if not spawns and any(isinstance(next((k.value for k in c.keywords if k.arg == "target"), None), ast.Lambda) for c in q.calls(ex)):
        return
    ctx.floor("R13.1", len(spawns), 1, "task spawn sites in Worker.extract")
    for c, tgt, args in spawns:
        targets = [ctx.res._func_by_q(t[1]) for t in ctx.res.infer(tgt, ex) if t[0] == "func"]
        targets = [t for t in targets if t is not None]
        ctx.need(bool(targets), "thread target not resolved")
        tf = targets[0]
        params = tf.params[1:] if tf.cls and not tf.is_static else tf.params
        bind = dict(zip(params, args.elts))
        # R13.1 own handle -------------------------------------------------------------
        first = args.elts[0]
        srcs = q.sources_of(ex, first, depth=3)
        from_name = any(isinstance(s, ast.Call) and dotted(s.func) == "getattr" and len(s.args) > 1 and isinstance(s.args[1], ast.Constant)
                        and s.args[1].value == "name" for s in srcs) or any(isinstance(n, ast.Attribute) and n.attr in ("name", "filename") for s in srcs for n in ast.walk(s))
        is_handle = isinstance(first, ast.Name) and first.id in ("fp",) or any(isinstance(s, ast.Call) and dotted(s.func) == "open" for s in srcs)
        ctx.check(from_name and not is_handle, "R13.1", ex, c, "task receives the archive name, not the shared handle",
                  "a worker task is given the shared file handle (or a handle opened once) instead of the archive's name: workers would share a file position")
        # the target opens its own handle when given a name
        opens = [x for x in q.calls(tf) if dotted(x.func) == "open"]
        own = False
        for o in opens:
            facts = q.facts_at(tf, o)
            if any(pol and isinstance(cd, ast.Call) and dotted(cd.func) == "isinstance" and len(cd.args) > 1 and norm(cd.args[1]) == "str" for cd, pol in facts):
                mode = o.args[1] if len(o.args) > 1 else None
                assigned_local = isinstance(q.node_for(tf, o).ast, ast.Assign) and isinstance(q.node_for(tf, o).ast.targets[0], ast.Name)
                own = isinstance(mode, ast.Constant) and mode.value == "rb" and assigned_local
        ctx.check(own, "R13.1", tf, tf.node, "target opens its own 'rb' handle into a local", "the task target does not open its own read-only handle into a local variable",
                  construct="worker-local handle")
        # R13.2 shared-state effects ------------------------------------------------------
        clo = ctx.res.closure([tf])
        n_fn = 0
        for gq, g in sorted(clo.items()):
            if not g.cls or g.cls not in SHARED_CLASSES or g.name == "__init__":
                continue
            n_fn += 1
            selfname = g.params[0] if g.params else "self"
            for n in walk(g.node):
                tgts = []
                if isinstance(n, ast.Assign):
                    tgts = n.targets
                elif isinstance(n, (ast.AugAssign, ast.AnnAssign)):
                    tgts = [n.target]
                for t in tgts:
                    base = t
                    while isinstance(base, (ast.Subscript, ast.Attribute)) and not (isinstance(base, ast.Attribute) and isinstance(base.value, ast.Name)):
                        base = base.value
                    if isinstance(base, ast.Attribute) and isinstance(base.value, ast.Name) and base.value.id == selfname and isinstance(t, (ast.Attribute, ast.Subscript)):
                        ctx.fail("R13.2", g, n, f"{gq} (reachable from the worker task) writes shared state {norm(t)}: concurrent tasks race on it",
                                 path=ctx.res.call_path([tf], gq))
                if isinstance(n, ast.Call) and isinstance(n.func, ast.Attribute) and n.func.attr in ("append", "pop", "update", "clear", "extend", "insert", "remove") \
                        and norm(n.func.value).startswith(selfname + "."):
                    ctx.fail("R13.2", g, n, f"{gq} (reachable from the worker task) mutates shared container {norm(n.func.value)}", path=ctx.res.call_path([tf], gq))
        ctx.ok("R13.2", f"{n_fn} methods of shared classes in closure({tf.qname}) inspected for attribute stores")
        ctx.floor("R13.2", n_fn, 3, "methods of shared classes in the task closure")
        # R13.5 filesystem operations shared between tasks are race-free ---------------------------
        for gq, g in sorted(clo.items()):
            for mk in [x for x in q.calls(g) if attr_tail(x) in ("mkdir", "makedirs")]:
                eo = next((k.value for k in mk.keywords if k.arg == "exist_ok"), None)
                in_try = any(isinstance(t, ast.Try) and any(mk in list(ast.walk(st)) for st in t.body) and any(
                    h.type is None or "FileExistsError" in norm(h.type) or "OSError" in norm(h.type) for h in t.handlers) for t in walk(g.node) if isinstance(t, ast.Try))
                ok = (isinstance(eo, ast.Constant) and eo.value is True) or in_try
                ctx.check(ok, "R13.5", g, mk, f"{gq}: directory creation tolerates a concurrent creator",
                          "a directory is created with check-then-mkdir (no exist_ok=True / FileExistsError handling) inside the worker task: two folder tasks that need the same "
                          "parent directory race, the loser raises FileExistsError and its members are missing", path=ctx.res.call_path([tf], gq))
        # R13.3 error channel ----------------------------------------------------------------
        chan_params = [p for p, a in bind.items() if isinstance(a, ast.Name) and any(
            isinstance(v, ast.Call) and attr_tail(v) in ("Queue", "SimpleQueue") for v in q.assigned_values(ex, a.id))]
        exc_param = None
        tcfg = cfg_of(tf.node)
        for h in [n for n in walk(tf.node) if isinstance(n, ast.ExceptHandler)]:
            names = {n.id for n in ast.walk(h.type) if isinstance(n, ast.Name)} if h.type is not None else {"BaseException"}
            if not names & {"Exception", "BaseException"}:
                continue
            for x in ast.walk(h):
                if isinstance(x, ast.Call) and isinstance(x.func, ast.Attribute) and x.func.attr in ("put", "put_nowait") and isinstance(x.func.value, ast.Name) \
                        and x.func.value.id in params:
                    exc_param = x.func.value.id
        wraps = False
        work = [x for x in q.calls(tf) if "py7zr:Worker._extract_single" in shared.targets_of(ctx, tf, x)]
        for tr in [n for n in walk(tf.node) if isinstance(n, ast.Try)]:
            if work and all(any(w in list(ast.walk(st)) for st in tr.body) for w in work):
                wraps = True
        opens_in_try = all(any(o in list(ast.walk(st)) for tr in [n for n in walk(tf.node) if isinstance(n, ast.Try)] for st in tr.body) for o in opens)
        ctx.check(exc_param is not None and wraps and opens_in_try, "R13.3", tf, tf.node, "target forwards every exception of its body into the error channel",
                  "the task target does not wrap its whole body (open, seek, extract) in a catch-all that puts the exception into the error channel",
                  construct="task target try/except")
        if exc_param is not None:
            in_args = exc_param in bind
            ctx.check(in_args, "R13.3", ex, c, "error channel passed to every task", f"the error channel parameter '{exc_param}' is not in the task's args: worker errors are re-raised inside the thread and lost")
            # handler must not swallow when the channel is absent
            for h in [n for n in walk(tf.node) if isinstance(n, ast.ExceptHandler)]:
                hn = tcfg.by_ast[h]
                none_branch_raises = any(isinstance(x, ast.Raise) for x in ast.walk(h))
                ctx.check(none_branch_raises, "R13.3", tf, h, "without a channel the exception is re-raised", "the task target swallows exceptions when no channel is given")
                handler_branches(ctx, "R13.3", tf, h, exc_param)
        # all started tasks joined, then channel checked and re-raised
        started = q.node_for(ex, [x for x in q.calls(ex) if attr_tail(x) == "start"][0]) if [x for x in q.calls(ex) if attr_tail(x) == "start"] else None
        joins = [x for x in q.calls(ex) if attr_tail(x) == "join"]
        ctx.floor("R13.3", len(joins), 1, "join calls in Worker.extract")
        # the join loop iterates the list every started task was appended to
        appended = [x for x in q.calls(ex) if attr_tail(x) == "append" and x.args and isinstance(x.args[0], ast.Name) and isinstance(x.func.value, ast.Name)]
        task_lists = {x.func.value.id for x in appended if any(isinstance(v, ast.Call) and v is c for v in q.assigned_values(ex, x.args[0].id))}
        # idiom B (windows): the tasks are collected first, then started and joined a slice at a time:
        #   batch = tasks[k : k + W]; for p in batch: p.start(); for p in batch: p.join()
        windows = {n.targets[0].id for n in walk(ex.node) if isinstance(n, ast.Assign) and isinstance(n.targets[0], ast.Name) and isinstance(n.value, ast.Subscript)
                   and isinstance(n.value.slice, ast.Slice) and isinstance(n.value.value, ast.Name) and n.value.value.id in task_lists}
        start_calls = [x for x in q.calls(ex) if attr_tail(x) == "start" and not x.args]
        window_start = None
        for sc in start_calls:
            lp = q.enclosing_loops(ex, sc)
            if lp and isinstance(lp[-1], ast.For) and isinstance(lp[-1].iter, ast.Name) and lp[-1].iter.id in windows:
                window_start = lp[-1]
        join_ok = False
        for j in joins:
            lp = q.enclosing_loops(ex, j)
            if window_start is not None:
                # the join loop runs over the same window, right behind the start loop on every path
                if lp and isinstance(lp[-1], ast.For) and isinstance(lp[-1].iter, ast.Name) and lp[-1].iter.id == window_start.iter.id:
                    jn = q.node_for(ex, j)
                    it = cfg.by_ast[lp[-1]]
                    body = next(s_ for s_ in it.succ if s_.kind == "body")
                    sit = cfg.by_ast[window_start]
                    redefined = any(isinstance(n, ast.Assign) and norm(n.targets[0]) == window_start.iter.id and window_start.end_lineno < n.lineno < lp[-1].lineno for n in walk(ex.node))
                    if not cfg.reaches(body, it, avoid=[jn], normal_only=True) and cfg.every_path_to_exit_passes(sit, [it]) and not redefined:
                        join_ok = True
                        join_loop = it
                continue
            if lp and isinstance(lp[-1], ast.For) and isinstance(lp[-1].iter, ast.Name) and lp[-1].iter.id in task_lists:
                # unconditional inside the loop
                jn = q.node_for(ex, j)
                it = cfg.by_ast[lp[-1]]
                body = next(s for s in it.succ if s.kind == "body")
                if not cfg.reaches(body, it, avoid=[jn], normal_only=True):
                    join_ok = True
                    join_loop = it
        ctx.check(join_ok, "R13.3", ex, joins[0], "every started task is joined", "not every started task is joined before results are used (join is missing, conditional, or over a different list)")
        # start and append on every iteration that spawns
        if window_start is not None:
            ctx.check(join_ok, "R13.3", ex, c, "every started task is recorded for joining (started and joined over the same window)",
                      "a started task may not be in the window that is joined")
        elif started is not None and appended:
            an = q.node_for(ex, [x for x in appended if x.func.value.id in task_lists][0]) if task_lists else None
            ctx.check(an is not None and cfg.every_path_to_exit_passes(started, [an]) , "R13.3", ex, c, "every started task is recorded for joining",
                      "a started task may not be appended to the list that is joined")
        # channel check after join, re-raise
        raises = [n for n in walk(ex.node) if isinstance(n, ast.Raise)]
        chan_names = {a.id for p, a in bind.items() if p == exc_param and isinstance(a, ast.Name)}
        rr = False
        for r in raises:
            facts = q.facts_at(ex, r)
            if any(isinstance(cd, ast.Call) and attr_tail(cd) == "empty" and isinstance(cd.func.value, ast.Name) and cd.func.value.id in chan_names and not pol
                   for cd, pol in facts) or any(isinstance(cd, ast.Call) and attr_tail(cd) == "qsize" for cd, _ in facts):
                if join_ok and window_start is None and cfg.dominates(join_loop, q.node_for(ex, r)):
                    rr = True
                if join_ok and window_start is not None:
                    # windows: the channel is looked at after the last window - no normal path from a start to the exit avoids its test, and the raise is outside the loops
                    tests = [t for t in cfg.nodes if t.kind == "test" and any(isinstance(x, ast.Call) and attr_tail(x) in ("empty", "qsize") for x in ast.walk(t.ast))]
                    if tests and started is not None and cfg.every_path_to_exit_passes(started, tests) and not q.enclosing_loops(ex, r):
                        rr = True
        ctx.check(rr, "R13.3", ex, c, "non-empty error channel re-raises after the joins", "after joining, a non-empty error channel does not lead to a re-raise in the caller",
                  construct="re-raise from error channel")
        # R13.10: WHICH error is raised does not depend on the schedule either: the raise takes its exception from the minimum, by the folder's position, over
        # everything the channel holds (the sequential path stops at the first bad folder in archive order) - not from the first entry a `get()` happens to return
        for r in [r for r in raises if any(isinstance(cd, ast.Call) and attr_tail(cd) == "empty" and not pol for cd, pol in q.facts_at(ex, r))]:
            ordered = False
            for nm in {x.id for x in ast.walk(r.exc) if isinstance(x, ast.Name)} if r.exc is not None else set():
                for d_ in [n for n in walk(ex.node) if isinstance(n, ast.Assign) and any(isinstance(y, ast.Name) and y.id == nm for t_ in n.targets for y in ast.walk(t_))]:
                    v = q.expand_locals(ex, d_.value)
                    if any(isinstance(x, ast.Call) and dotted(x.func) in ("min", "sorted") for x in ast.walk(v)) and any(
                            isinstance(x, ast.Call) and attr_tail(x) in ("qsize", "empty") for x in ast.walk(v)):
                        ordered = True
            ctx.check(ordered, "R13.10", ex, r, "of several worker errors the one of the first folder in archive order is raised",
                      f"`{norm(r)[:80]}` raises whichever error a worker queued first: with two damaged folders testzip() names 'c.txt' in one run and 'a.txt' in the next (and the same archive "
                      "read from a stream always answers 'a.txt'): the answer depends on the interleaving of the workers", construct="first queued error raised")
        # R13.4 channel kind -----------------------------------------------------------------
        winit = ctx.prog.func("py7zr", "Worker.__init__")
        prims = set()
        for n in walk(winit.node):
            if isinstance(n, (ast.Assign, ast.AnnAssign)):
                t = n.targets[0] if isinstance(n, ast.Assign) else n.target
                if isinstance(t, ast.Attribute) and t.attr == "concurrent" and n.value is not None and isinstance(n.value, ast.Name):
                    prims.add(n.value.id)
        spawn_cls = norm(c.func)
        ctx.need(bool(prims), "concurrency primitive assignments (self.concurrent = Thread|Process) not found")
        if "Process" in prims and spawn_cls.endswith("concurrent"):
            for p, a in bind.items():
                if not isinstance(a, ast.Name):
                    continue
                vals = q.assigned_values(ex, a.id)
                is_local_queue = any(isinstance(v, ast.Call) and dotted(v.func) in ("queue.Queue", "Queue", "queue.SimpleQueue") for v in vals)
                if is_local_queue:
                    ctx.fail("R13.4", ex, c, f"with mp=True tasks are multiprocessing.Process objects, but the channel '{a.id}' passed as '{p}' is a thread-local "
                                             "queue.Queue: an exception put by a worker process never reaches the parent, so a CRC error is lost and the damaged output is kept",
                             construct=f"Process task with queue.Queue channel {a.id}")
                elif a.id in ex.params:
                    # a parameter of Worker.extract: what do the callers pass?
                    passed = []
                    for g, call in shared.calls_to(ctx, ex.qname):
                        v = next((k.value for k in call.keywords if k.arg == a.id), None)
                        if v is None:
                            bound = ex.params[1:]
                            idx = bound.index(a.id)
                            v = call.args[idx] if idx < len(call.args) else None
                        if v is not None:
                            passed.append((g, v))
                    local_q = False
                    for g, v in passed:
                        ty = ctx.res.infer(v, g)
                        if any(t[0] == "ext" and t[1] in ("queue.Queue", "queue.SimpleQueue") for t in ty):
                            local_q = True
                    if local_q:
                        ctx.fail("R13.4", ex, c, f"with mp=True tasks are multiprocessing.Process objects, but '{a.id}' (passed as '{p}') is the session's thread-local queue.Queue: "
                                                 "progress events put by worker processes never reach the reporter", construct=f"Process task with queue.Queue channel {a.id}")
                    else:
                        ctx.ok("R13.4", f"arg {p}={norm(a)} is not a process-local queue")
                else:
                    ctx.ok("R13.4", f"arg {p}={norm(a)} is not a process-local queue")
            # in-memory outputs: a writer-factory product (MemIO) registered in the parent is filled by the CHILD process and never comes back
            exf = shared.szf(ctx, "_extract")
            mem_regs = [x for x in q.calls(exf) if attr_tail(x) == "register_filelike" and len(x.args) > 1
                        and any(isinstance(y, ast.Call) and attr_tail(y) == "MemIO" for y in ast.walk(x.args[1]))]
            for wc in [x for x in q.calls(exf) if "py7zr:Worker.extract" in shared.targets_of(ctx, exf, x)]:
                par = next((k.value for k in wc.keywords if k.arg == "parallel"), wc.args[2] if len(wc.args) > 2 else None)
                srcs = [par] + list(q.sources_of(exf, par, depth=3)) if par is not None else []
                # `parallel` is off whenever process tasks (self.mp) meet in-memory writers (a writer factory was given)
                def in_mem(e: ast.AST) -> bool:
                    if isinstance(e, ast.Name):
                        vals = q.assigned_values(exf, e.id)
                        return bool(vals) and all(in_mem(v) for v in vals)
                    return shared.implied_by_all(e, {"self.mp", "writer_factory is not None"})
                guarded = par is not None and ((isinstance(par, ast.Constant) and par.value is False) or shared.off_when(exf, par, in_mem))
                if mem_regs and not guarded:
                    ctx.fail("R13.4", exf, wc, "with mp=True folder tasks are processes, but extraction into a writer factory registers in-memory writers (MemIO) in the parent: "
                             "the children fill their own copies, extract(targets, factory=...) / extractall(factory=...) return normally and the factory's products stay empty",
                             construct="Process task with in-memory writers")
                else:
                    ctx.ok("R13.4", "in-memory writers are not handed to process tasks")
        else:
            ctx.ok("R13.4", f"spawn primitive set {sorted(prims)} needs no process-shared channel")
