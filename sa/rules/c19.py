"""C19 — the command line mirrors the library and its exit status tells the truth."""
from __future__ import annotations

import ast
import re
from typing import Dict, List, Optional, Set

from ..cfg import cfg_of
from ..consteval import NotConst
from ..model import AnalysisError, Func, attr_tail, dotted, norm, walk
from ..report import Ctx
from .. import q
from . import shared
from . import c04

EXPLANATION = (
    "Structural analysis of py7zr/cli.py: the subcommand table is complete (every sub-parser binds an existing handler, run "
    "returns the handler's value); in every command handler no path from an `except` clause reaches a zero/None return "
    "(CFG reachability), the success return of `t` is control dependent on the testzip verdict (whose sentinel soundness "
    "is rule R04.4, re-evaluated here); the language of the volume-size pattern's unit group (from re._parser) is contained "
    "in the unit table or the empty match is handled before the lookup; a/c open with modes a/w and x/t/l call the library "
    "entry points. Not decided: tree equality through the CLI."
)
TRUSTED = ["CPython ast parser", "re._parser (regex syntax tree)", "sa.cfg reachability"]

COMMANDS = {"l": "list", "x": "extractall", "c": None, "a": None, "t": "testzip", "i": None}
HANDLERS = ["run_list", "_run_list", "run_extract", "run_test", "run_create", "run_append"]


def _cli(ctx: Ctx, name: str) -> Func:
    return ctx.prog.func("cli", f"Cli.{name}")


def r19_1(ctx: Ctx) -> None:
    cp = _cli(ctx, "_create_parser")
    binds: Dict[str, str] = {}
    var_cmd: Dict[str, str] = {}
    for n in walk(cp.node):
        if isinstance(n, ast.Assign) and isinstance(n.value, ast.Call) and attr_tail(n.value) == "add_parser" and n.value.args \
                and isinstance(n.value.args[0], ast.Constant) and isinstance(n.targets[0], ast.Name):
            var_cmd[n.targets[0].id] = n.value.args[0].value
    for c in q.calls(cp):
        if attr_tail(c) == "set_defaults" and isinstance(c.func.value, ast.Name) and c.func.value.id in var_cmd:
            fv = next((k.value for k in c.keywords if k.arg == "func"), None)
            if isinstance(fv, ast.Attribute):
                binds[var_cmd[c.func.value.id]] = fv.attr
    ctx.floor("R19.1", len(var_cmd), 6, "sub-parsers")
    cli = ctx.prog.cls("Cli", "cli")
    for cmd in sorted(set(var_cmd.values()) | set(COMMANDS)):
        h = binds.get(cmd)
        ok = h is not None and ctx.prog.method(cli, h) is not None
        ctx.check(ok, "R19.1", cp, cp.node, f"subcommand {cmd} -> {h}", f"subcommand '{cmd}' has no existing handler bound", construct=f"subcommand {cmd}")
    run = _cli(ctx, "run")
    rets = [n for n in walk(run.node) if isinstance(n, ast.Return)]
    ok = any(isinstance(r.value, ast.Call) and isinstance(r.value.func, ast.Attribute) and r.value.func.attr == "func" for r in rets)
    ctx.check(ok, "R19.1", run, run.node, "run returns the handler's value", "Cli.run does not return the value of the selected handler", construct="run return")
    mainf = ctx.prog.func("__main__", "main")
    ok = any(isinstance(n, ast.Return) and isinstance(n.value, ast.Call) and attr_tail(n.value) == "run" for n in walk(mainf.node))
    ctx.check(ok, "R19.1", mainf, mainf.node, "main returns run()", "__main__.main does not return Cli.run()'s status", construct="main return")
    mod = ctx.prog.module("__main__")
    ok = any(isinstance(n, ast.Call) and dotted(n.func) == "sys.exit" and n.args and isinstance(n.args[0], ast.Call) and dotted(n.args[0].func) == "main"
             for n in ast.walk(mod.tree))
    ctx.check(ok, "R19.1", "__main__:<module>", None, "sys.exit(main())", "__main__ does not pass main()'s status to sys.exit", construct="sys.exit(main())")


def _is_zero_return(n) -> bool:
    a = n.ast
    if not isinstance(a, ast.Return):
        return False
    return a.value is None or (isinstance(a.value, ast.Constant) and a.value.value in (0, None, False))


def _recovering(f, h: ast.ExceptHandler) -> bool:
    """a handler that only assigns (a fall-back value to) the names its try body assigns"""
    for t in walk(f.node):
        if isinstance(t, ast.Try) and h in t.handlers:
            tgt_try = {norm(x) for st in t.body for n in ast.walk(st) if isinstance(n, ast.Assign) for x in n.targets}
            return bool(tgt_try) and all(isinstance(st, ast.Assign) and all(norm(x) in tgt_try for x in st.targets) for st in h.body) and all(isinstance(st, ast.Assign) for st in t.body)
    return False


def r19_2(ctx: Ctx) -> None:
    total = 0
    for name in HANDLERS:
        f = _cli(ctx, name)
        cfg = cfg_of(f.node)
        handlers = [n for n in cfg.nodes if n.kind == "handler"]
        for hn in handlers:
            if _recovering(f, hn.ast):
                continue  # not a failure of the command: the handler supplies a fall-back for what the try computed and the command goes on
            total += 1
            reach = cfg.reachable_from(hn)
            zero = [n for n in reach if n.kind == "stmt" and _is_zero_return(n)]
            # falling off the end: exit reached from a non-return node
            fall = [p for p in cfg.exit.pred if p in reach and not (p.kind == "stmt" and isinstance(p.ast, ast.Return))]
            nonconst = [n for n in reach if n.kind == "stmt" and isinstance(n.ast, ast.Return) and n.ast.value is not None
                        and not isinstance(n.ast.value, ast.Constant)]
            hname = norm(hn.ast.type) if hn.ast.type is not None else "bare"
            ctx.check(not zero and not fall, "R19.2", f, hn.ast, f"{f.qname}: except {hname} ends non-zero",
                      f"the handler `except {hname}` of {name} can reach a zero/None return (exit status 0 after a failure)",
                      construct=f"except {hname}")
    ctx.floor("R19.2", total, 5, "exception handlers in the command handlers")
    # success path returns 0 and (for t) is control dependent on the verdict
    t = _cli(ctx, "run_test")
    tz = [c for c in q.calls(t) if attr_tail(c) == "testzip"]
    ctx.floor("R19.2", len(tz), 1, "testzip call in run_test")
    zero_rets = [n for n in walk(t.node) if isinstance(n, ast.Return) and isinstance(n.value, ast.Constant) and n.value.value == 0]
    ctx.floor("R19.2", len(zero_rets), 1, "return 0 in run_test")
    for r in zero_rets:
        facts = q.facts_at(t, r)
        good = False
        for cond, pol in facts:
            nt = q.is_none_test(cond)
            if nt is not None and isinstance(nt[0], ast.Call) and attr_tail(nt[0]) == "testzip" and (nt[1] == pol):
                good = True
        ctx.check(good, "R19.2", t, r, "`t` exits 0 only when testzip() reports no damage",
                  "run_test returns 0 on a path that does not depend on the testzip() verdict")
    # every other handler function: every normal exit returns an int constant
    for name in ("run_extract", "run_create", "run_append", "_run_list"):
        f = _cli(ctx, name)
        cfg = cfg_of(f.node)
        fall = [p for p in cfg.exit.pred if not (p.kind == "stmt" and isinstance(p.ast, ast.Return))]
        ctx.check(not fall, "R19.2", f, f.node, f"{name}: every normal exit is an explicit return",
                  f"{name} can fall off its end (exit status None = 0) ", construct=f"{name} fall-off")
    # the sentinel the verdict relies on (shared with C04)
    sub = Ctx.__new__(Ctx)
    sub.__dict__.update(ctx.__dict__)
    sub.obligations, sub.findings, sub.rules_run = [], [], {}
    c04.r04_4(sub)
    for fd in sub.findings:
        if fd.rule == "R04.4":
            ctx.fail("R19.2", fd.func, None, "the verdict `t` relies on is unsound: " + fd.message, construct=fd.construct)
            ctx.findings[-1].loc = fd.loc
    if not [fd for fd in sub.findings if fd.rule == "R04.4"]:
        ctx.ok("R19.2", "testzip verdict sentinel is sound (R04.4)")


def _group_language(pattern: str, flags: int, group: int):
    """(set of possible strings for a simple group, can_be_empty) or None when the group is not a simple class/optional."""
    import re._parser as sp  # type: ignore
    tree = sp.parse(pattern, flags)

    def find(items):
        for op, av in items:
            if str(op) == "SUBPATTERN":
                gid, _, _, sub = av
                if gid == group:
                    return sub
                r = find(sub)
                if r is not None:
                    return r
            elif str(op) in ("MAX_REPEAT", "MIN_REPEAT"):
                r = find(av[2])
                if r is not None:
                    return r
            elif str(op) == "BRANCH":
                for alt in av[1]:
                    r = find(alt)
                    if r is not None:
                        return r
        return None

    sub = find(tree)
    if sub is None:
        return None

    def lang(items) -> Optional[Set[str]]:
        out = {""}
        for op, av in items:
            name = str(op)
            if name == "LITERAL":
                cur = {chr(av)}
            elif name == "IN":
                cur = set()
                for o2, a2 in av:
                    if str(o2) == "LITERAL":
                        cur.add(chr(a2))
                    elif str(o2) == "RANGE" and a2[1] - a2[0] < 64:
                        cur |= {chr(x) for x in range(a2[0], a2[1] + 1)}
                    else:
                        return None
            elif name in ("MAX_REPEAT", "MIN_REPEAT"):
                lo, hi, body = av
                inner = lang(body)
                if inner is None or int(hi) > 3:
                    return None
                cur = set()
                for k in range(int(lo), int(hi) + 1):
                    acc = {""}
                    for _ in range(k):
                        acc = {a + b for a in acc for b in inner}
                    cur |= acc
            elif name == "BRANCH":
                cur = set()
                for alt in av[1]:
                    l2 = lang(alt)
                    if l2 is None:
                        return None
                    cur |= l2
            else:
                return None
            out = {a + b for a in out for b in cur}
        return out

    L = lang(sub)
    if L is None:
        return None
    if flags & re.IGNORECASE:
        L2 = set()
        for s in L:
            variants = {""}
            for ch in s:
                variants = {v + c for v in variants for c in {ch.lower(), ch.upper()}}
            L2 |= variants
        L = L2
    return L


def r19_3(ctx: Ctx) -> None:
    cli = ctx.prog.cls("Cli", "cli")
    init = _cli(ctx, "__init__")
    pat = None
    flags = 0
    for n in walk(init.node):
        if isinstance(n, ast.Assign) and isinstance(n.value, ast.Call) and dotted(n.value.func) == "re.compile" and \
                any(isinstance(t, ast.Attribute) and t.attr == "unit_pattern" for t in n.targets):
            pat = n.value.args[0].value if isinstance(n.value.args[0], ast.Constant) else None
            for a in n.value.args[1:]:
                for x in ast.walk(a):
                    if isinstance(x, ast.Attribute) and x.attr in ("IGNORECASE", "I"):
                        flags |= re.IGNORECASE
    ctx.need(pat is not None, "unit_pattern = re.compile(<constant>) not found in Cli.__init__")
    try:
        dunits = ctx.ce.class_const("Cli", "dunits")
    except NotConst as e:
        raise AnalysisError(f"Cli.dunits not constant: {e}")
    conv = _cli(ctx, "_volumesize_unitconv")
    valid = _cli(ctx, "_check_volumesize_valid")
    for f in (conv, valid):
        uses = any(isinstance(n, ast.Attribute) and n.attr == "unit_pattern" for n in walk(f.node))
        ctx.check(uses, "R19.3", f, f.node, f"{f.name} uses the shared unit pattern", f"{f.name} does not use Cli.unit_pattern (validity predicate and converter disagree)",
                  construct="unit_pattern use")
    # which group feeds the table lookup
    lookups = [n for n in walk(conv.node) if isinstance(n, ast.Subscript) and isinstance(n.value, ast.Attribute) and n.value.attr == "dunits"]
    # `self.dunits.get(unit, default)`: a unit the table does not know silently becomes `default`
    getters = [n for n in walk(conv.node) if isinstance(n, ast.Call) and attr_tail(n) == "get" and isinstance(n.func.value, ast.Attribute) and n.func.value.attr == "dunits" and n.args]
    ctx.floor("R19.3", len(lookups) + len(getters), 1, "dunits lookups in _volumesize_unitconv")
    for lk in lookups + getters:
        key = lk.slice if isinstance(lk, ast.Subscript) else lk.args[0]
        default_one = False
        if isinstance(lk, ast.Call):
            dflt = lk.args[1] if len(lk.args) > 1 else next((k.value for k in lk.keywords if k.arg == "default"), None)
            default_one = isinstance(dflt, ast.Constant) and dflt.value == 1
        grp = None
        for v in q.sources_of(conv, key, depth=3):
            if isinstance(v, ast.Call) and attr_tail(v) == "group" and v.args and isinstance(v.args[0], ast.Constant):
                grp = v.args[0].value
        if grp is None and isinstance(key, ast.Name):
            # num, unit = m.groups()
            for n in walk(conv.node):
                if isinstance(n, ast.Assign) and isinstance(n.targets[0], ast.Tuple) and isinstance(n.value, ast.Call) and attr_tail(n.value) == "groups":
                    for i, t in enumerate(n.targets[0].elts):
                        if isinstance(t, ast.Name) and t.id == key.id:
                            grp = i + 1
        ctx.need(grp is not None, "the dunits key does not come from a match group")
        L = _group_language(pat, flags, grp)
        ctx.need(L is not None, f"group {grp} of {pat!r} is not a finite simple language")
        facts = q.facts_at(conv, lk)
        nonempty_known = False
        for cond, pol in facts:
            if isinstance(key, ast.Name):
                if isinstance(cond, ast.Name) and cond.id == key.id and pol:
                    nonempty_known = True
                if isinstance(cond, ast.Compare) and len(cond.ops) == 1 and isinstance(cond.left, ast.Name) and cond.left.id == key.id \
                        and isinstance(cond.comparators[0], ast.Constant) and cond.comparators[0].value == "":
                    if (isinstance(cond.ops[0], ast.Eq) and not pol) or (isinstance(cond.ops[0], ast.NotEq) and pol):
                        nonempty_known = True
                if isinstance(cond, ast.Compare) and isinstance(cond.ops[0], ast.In) and isinstance(cond.left, ast.Name) and cond.left.id == key.id \
                        and pol and isinstance(cond.comparators[0], ast.Attribute) and cond.comparators[0].attr == "dunits":
                    nonempty_known = True
                    L = set()
        need = {s for s in L if not (s == "" and (nonempty_known or default_one))}
        missing = sorted(s for s in need if s not in dunits)
        if isinstance(lk, ast.Call) and missing:
            ctx.fail("R19.3", conv, lk, f"the volume-size pattern accepts unit strings {missing!r} that are not keys of Cli.dunits and the lookup `{norm(lk)}` silently maps them to its "
                     "default: `-v 1K` passes validation and is then taken as 1 byte per volume", construct="dunits.get(unit) lookup")
            continue
        ctx.check(not missing, "R19.3", conv, lk, f"unit group language {sorted(L)} within dunits keys",
                  f"the volume-size pattern accepts unit strings {missing!r} that are not keys of Cli.dunits: "
                  f"`-v 1000` (no suffix) passes validation and then raises KeyError('') instead of creating volumes",
                  construct="dunits[unit] lookup")


def r19_4(ctx: Ctx) -> None:
    def modes_in(f: Func) -> List[str]:
        out = []
        for c in q.calls(f):
            if attr_tail(c) == "SevenZipFile":
                m = c.args[1] if len(c.args) > 1 else next((k.value for k in c.keywords if k.arg == "mode"), None)
                out.append(m.value if isinstance(m, ast.Constant) else ("r" if m is None else "?"))
        return out
    a = _cli(ctx, "run_append")
    ctx.check(modes_in(a) and set(modes_in(a)) == {"a"}, "R19.4", a, a.node, "`a` opens with mode 'a'", f"`a` opens the archive with {modes_in(a)}", construct="run_append mode")
    c = _cli(ctx, "run_create")
    ctx.check(modes_in(c) and set(modes_in(c)) == {"w"}, "R19.4", c, c.node, "`c` opens with mode 'w'", f"`c` opens the archive with {modes_in(c)}", construct="run_create mode")
    for name, api in (("run_extract", "extractall"), ("run_test", "testzip"), ("_run_list", "list")):
        f = _cli(ctx, name)
        ok = any(attr_tail(x) == api for x in q.calls(f)) and set(modes_in(f)) <= {"r"}
        ctx.check(ok, "R19.4", f, f.node, f"{name} calls {api} on a read-mode archive", f"{name} does not call the library's {api}() on a read-mode archive", construct=f"{name} -> {api}")
    for name in ("run_create", "run_append"):
        f = _cli(ctx, name)
        tails = {attr_tail(n) for g, n, via in q.deep_nodes(ctx, f, depth=2) if isinstance(n, ast.Call)}
        ok = "writeall" in tails and "write" in tails
        ctx.check(ok, "R19.4", f, f.node, f"{name} archives directories with writeall and files with write", f"{name} does not call writeall/write", construct=f"{name} -> writeall/write")


def r19_5(ctx: Ctx) -> None:
    """`l` recognises the first volume of the sets that `c -v` writes."""
    rc = _cli(ctx, "run_create")
    mv = [c for c in q.calls(rc) if attr_tail(c) == "MultiVolume" or any(k.arg == "volume" for k in c.keywords)]  # or a subclass of the package, opened with volume=
    ctx.floor("R19.5", len(mv), 1, "MultiVolume(...) in run_create")
    digits = None
    for c in mv:
        for k in c.keywords:
            if k.arg == "ext_digits" and isinstance(k.value, ast.Constant):
                digits = k.value.value
    ctx.need(digits is not None, "ext_digits of the volumes written by run_create is not a constant")
    first = f".{1:0{digits}d}"  # multivolumefile numbers volumes from 1 by default
    rl = _cli(ctx, "run_list")
    decided = None
    for n in walk(rl.node):
        if isinstance(n, ast.If):
            t = n.test
            if isinstance(t, ast.Call) and dotted(t.func) in ("re.fullmatch", "re.match") and len(t.args) == 2 and isinstance(t.args[0], ast.Constant) and "suffix" in norm(t.args[1]):
                pat = t.args[0].value
                decided = bool(re.fullmatch(pat, first)) if dotted(t.func) == "re.fullmatch" else bool(re.match(pat, first))
                node = n
            elif isinstance(t, ast.Compare) and isinstance(t.ops[0], ast.In) and "suffix" in norm(t.left):
                try:
                    vals = ctx.ce.eval(t.comparators[0], "cli")
                    decided = first in vals
                    node = n
                except NotConst:
                    pass
    ctx.need(decided is not None, "multi-volume detection in run_list not recognised")
    ctx.check(decided, "R19.5", rl, node.test, f"`l` treats the suffix {first} (written by `c -v`, ext_digits={digits}) as a volume set",
              f"`c -v` writes volumes NAME.7z{first}, ... (ext_digits={digits}) but `l` does not recognise the suffix {first} as the first volume of a set: listing what the command itself created fails")
    # the digits / start passed on to MultiVolume are derived from the suffix
    mvl = [c for c in q.calls(rl) if attr_tail(c) == "MultiVolume"]
    ok = bool(mvl) and any(k.arg == "ext_digits" and "suffix" in norm(k.value) for k in mvl[0].keywords)
    ctx.check(ok, "R19.5", rl, mvl[0] if mvl else rl.node, "`l` opens the set with the digit count of the suffix", "`l` does not derive ext_digits from the suffix", construct="run_list ext_digits")


def r19_7(ctx: Ctx) -> None:
    """`c`/`a` write the archive the user named: the path handed to SevenZipFile / MultiVolume derives from args.arcfile only by
    appending '.7z' (never by replacing or cutting a part of the name: 'release-1.2' must become 'release-1.2.7z', not 'release-1.7z');
    and the error channel of the folder tasks (R04.8) is intact, so that `x`/`t` cannot exit 0 when a worker thread failed."""
    LOSSY = {"with_suffix", "with_name", "with_stem", "splitext", "replace", "rsplit", "split", "removesuffix", "rstrip", "strip", "partition", "rpartition"}
    n = 0
    for name in ("run_create", "run_append"):
        f = _cli(ctx, name)
        for c in q.calls(f):
            if attr_tail(c) not in ("SevenZipFile", "MultiVolume") or not c.args:
                continue
            tgt = c.args[0]
            if isinstance(tgt, ast.Name) and any(isinstance(v, ast.Call) and attr_tail(v) == "MultiVolume" for v in q.assigned_values(f, tgt.id)):
                continue  # the multi-volume object itself, its own construction is checked
            n += 1
            seen, todo, bad = set(), [tgt], []
            while todo:
                e = todo.pop()
                for x in ast.walk(e):
                    if isinstance(x, ast.Call) and isinstance(x.func, ast.Attribute) and x.func.attr in LOSSY:
                        bad.append(x)
                    if isinstance(x, ast.Attribute) and x.attr in ("stem", "parent", "name") and not (isinstance(x.value, ast.Name) and x.value.id == "args"):
                        bad.append(x)
                    if isinstance(x, ast.Name) and x.id not in seen:
                        seen.add(x.id)
                        todo += q.assigned_values(f, x.id)
                        todo += [a.value for a in walk(f.node) if isinstance(a, ast.AugAssign) and isinstance(a.target, ast.Name) and a.target.id == x.id]
            ctx.check(not bad, "R19.7", f, c, f"{name}: the archive path is args.arcfile, completed only by appending",
                      f"{name} derives the archive path with `{norm(bad[0]) if bad else ''}`, which replaces or cuts a part of the name the user gave: `c release-1.2 dir` "
                      "writes release-1.7z, the archive the user asked for does not exist afterwards and a later `c release-1.3 dir` is refused", construct="archive name derivation")
    ctx.floor("R19.7", n, 2, "archive openings in run_create/run_append")
    c04.r04_8(ctx, rule="R19.7")


def r19_8(ctx: Ctx) -> None:
    """what the CLI owes its progress reporter: (a) `x` closes the archive after extraction on every path (closing waits for the reporter;
    otherwise the lines still queued die with the daemon thread and `x --verbose` lists fewer members than it extracted); (b) the CLI's
    callback does not divide by the archive's total size unless it is known to be positive (an archive of empty members has total 0: the
    reporter thread would die at the first member with ZeroDivisionError, exit status still 0)."""
    f = _cli(ctx, "run_extract")
    cfg = cfg_of(f.node)
    ex = [c for c in q.calls(f) if attr_tail(c) == "extractall"]
    ctx.floor("R19.8", len(ex), 1, "extractall calls in run_extract")
    closes = [c for c in q.calls(f) if attr_tail(c) == "close"]
    in_with = any(isinstance(w, ast.With) and any(e in list(ast.walk(st)) for st in w.body for e in ex) and
                  any(isinstance(i.context_expr, ast.Call) and (attr_tail(i.context_expr) == "SevenZipFile" or (dotted(i.context_expr.func) or "").endswith("closing"))
                      or isinstance(i.context_expr, ast.Name) for i in w.items) for w in walk(f.node))
    in_finally = any(isinstance(t, ast.Try) and any(c in list(ast.walk(st)) for st in t.finalbody for c in closes) and
                     all(any(e in list(ast.walk(st)) for st in t.body) for e in ex) for t in walk(f.node))
    ctx.check(in_with or in_finally, "R19.8", f, ex[0], "`x` closes the archive after extraction (finally / with)",
              "run_extract never closes the archive: close() is what waits for the progress reporter, so with --verbose the lines still queued when extractall() returns are lost "
              "at interpreter exit (1500 members extracted, 817 listed, exit status 0)", construct="run_extract close")
    # status 0 of `x` means: extractall ran to its end - every `return 0` is reached only through an extractall call, there is one, and with
    # --verbose the callback is handed over
    cfg = cfg_of(f.node)
    zeros = [r for r in walk(f.node) if isinstance(r, ast.Return) and isinstance(r.value, ast.Constant) and r.value.value == 0 and not isinstance(r.value.value, bool)]
    ctx.check(bool(zeros) and all(not cfg.reaches(cfg.entry, q.node_for(f, r), avoid=[q.node_for(f, e) for e in ex]) for r in zeros), "R19.8", f, zeros[0] if zeros else f.node,
              "`x` returns 0 only after extractall() returned", "run_extract can return 0 on a path that never called extractall() (or never returns 0 at all): `x` reports success without "
              "extracting, or failure after a successful extraction", construct="run_extract status 0")
    for e in ex:
        val = next((k.value for k in e.keywords if k.arg == "callback"), None)
        ctx.check(val is not None and not (isinstance(val, ast.Constant) and val.value is None), "R19.8", f, e, "`x` hands its progress callback to extractall",
                  f"`{norm(e)}` does not pass the callback built for --verbose: `x --verbose` lists nothing", construct="run_extract drops the callback")
    cb = ctx.prog.cls("CliExtractCallback", "cli")
    n = 0
    for m in cb.methods.values():
        for d in [x for x in walk(m.node) if isinstance(x, ast.BinOp) and isinstance(x.op, (ast.Div, ast.FloorDiv, ast.Mod)) and isinstance(x.right, ast.Attribute)]:
            n += 1
            from ..model import parent_map
            pm = parent_map(m.node)
            guarded = any(isinstance(cd, ast.Compare) and norm(x.right if False else d.right) in norm(cd) for cd, pol in q.facts_at(m, d))
            cur = d
            while cur in pm and not guarded:
                par = pm[cur]
                if isinstance(par, ast.IfExp) and par.body is cur and norm(d.right) in norm(par.test):
                    guarded = True
                cur = par
            ctx.check(guarded, "R19.8", m, d, f"{m.qname}: division by `{norm(d.right)}` only where it is known to be positive",
                      f"`{norm(d)}` divides by the archive's total size, which is 0 for an archive whose members are all empty: the reporter thread dies with ZeroDivisionError at the "
                      "first member, the other members are not reported and the exit status is still 0", construct=f"division by {norm(d.right)}")
    ctx.floor("R19.8", n, 1, "divisions by a stored total in the CLI callback")


def r19_9(ctx: Ctx) -> None:
    """`c -v SIZE` for every size the option's pattern accepts: (a) the object the volumes are written through is not a bare
    multivolumefile.MultiVolume - its write() calls itself once per volume a block crosses, and the compressor hands over blocks of
    about 1 MiB (volumes of a kilobyte: RecursionError, a thousand orphan volumes) - but a class of the package whose write() feeds it
    slices in a loop; (b) a size of zero is refused: the validity test compares the converted number with 0."""
    f = _cli(ctx, "run_create")
    opens = [c for c in q.calls(f) if any(k.arg == "volume" for k in c.keywords)]
    ctx.floor("R19.9", len(opens), 1, "volume writers opened by run_create")
    for c in opens:
        cn = dotted(c.func) or ""
        local = ctx.prog.module("cli").classes.get(cn.split(".")[-1]) if "." not in cn else None
        ok = False
        if local is not None:
            w = ctx.prog.method(local, "write")
            ok = w is not None and any(isinstance(l, (ast.For, ast.While)) and any(isinstance(x, ast.Call) and attr_tail(x) == "write" and any(isinstance(y, ast.Subscript) and isinstance(y.slice, ast.Slice) for y in ast.walk(x))
                                                                                  for x in ast.walk(l)) for l in walk(w.node))
        ctx.check(ok, "R19.9", f, c, "volumes are written through a class that slices each block (no recursion per volume crossed)",
                  f"`{cn}` is handed to SevenZipFile as it is: MultiVolume.write() recurses once per volume a block crosses, so `c -v 1k` (a size the option accepts) dies with "
                  "RecursionError as soon as the compressor writes a 1 MiB block, leaving about a thousand orphan volumes", construct="bare MultiVolume for c -v")
    chk = _cli(ctx, "_check_volumesize_valid")
    pos = [cmp for cmp in walk(chk.node) if isinstance(cmp, ast.Compare) and len(cmp.ops) == 1 and
           ((isinstance(cmp.ops[0], (ast.Gt, ast.NotEq)) and isinstance(cmp.comparators[0], ast.Constant) and cmp.comparators[0].value == 0) or
            (isinstance(cmp.ops[0], ast.GtE) and isinstance(cmp.comparators[0], ast.Constant) and cmp.comparators[0].value == 1))]
    ctx.check(bool(pos), "R19.9", chk, chk.node, "a volume size of 0 is refused", "_check_volumesize_valid accepts `-v 0` (any digits): MultiVolume then never advances and creation dies in unbounded recursion",
              construct="volume size 0 accepted")


def r19_10(ctx: Ctx) -> None:
    """`t` mirrors BOTH integrity entry points of the library: 'Everything is Ok' / status 0 stands under the outcome of testzip()
    (member CRCs) and of test() (packed-stream CRCs) - the library's test() returns False for an archive `t` would otherwise bless."""
    f = _cli(ctx, "run_test")
    rets = [r for r in walk(f.node) if isinstance(r, ast.Return) and isinstance(r.value, ast.Constant) and r.value.value == 0]
    ctx.floor("R19.10", len(rets), 1, "`return 0` in run_test")
    for r in rets:
        facts = q.facts_at(f, r)
        seen = {attr_tail(x) for cd, _ in facts for x in ast.walk(cd) if isinstance(x, ast.Call)}
        for v in q.deep_nodes(f, r) if False else []:
            pass
        # outcomes stored in locals first
        for cd, _ in facts:
            for nm in [x for x in ast.walk(cd) if isinstance(x, ast.Name)]:
                for v in q.assigned_values(f, nm.id):
                    seen |= {attr_tail(x) for x in ast.walk(v) if isinstance(x, ast.Call)}
        for ep in ("testzip", "test"):
            ctx.check(ep in seen, "R19.10", f, r, f"status 0 of `t` depends on SevenZipFile.{ep}()",
                      f"`t` reports success without consulting SevenZipFile.{ep}(): " + ("an archive whose packed-stream CRC does not match (the library's test() returns False) gets 'Everything is Ok', exit 0"
                                                                                       if ep == "test" else "member CRCs are not verified"), construct=f"run_test ignores {ep}()")


SAME_FILE = ("samefile", "samestat", "sameopenfile")


def r19_11(ctx: Ctx) -> None:
    """`c ARC .` / `a ARC.7z .`: the archive being written lies inside the tree that is walked.  The arm of the walk (_writeall) that
    stores a regular file it FOUND stands under the false outcome of an identity test between that file and the archive handle
    (os.path.samestat/samefile/sameopenfile, directly or in a method of the class) - otherwise the half-written archive becomes one of
    its own members and `x` yields the input tree plus a bogus file."""
    f = shared.szf(ctx, "_writeall")
    _cls = ctx.prog.cls("SevenZipFile", "py7zr")

    def body_of(m):
        """the nodes of a method and of the methods of the class it calls on self (one level: helpers the identity test was split into)"""
        out = list(walk(m.node))
        for x in list(out):
            if isinstance(x, ast.Call) and isinstance(x.func, ast.Attribute) and norm(x.func.value) == "self":
                h = ctx.prog.method(_cls, x.func.attr)
                if h is not None and h is not m:
                    out += list(walk(h.node))
        return out

    def is_file_arm(t: ast.AST) -> bool:
        alts = t.values if isinstance(t, ast.BoolOp) and isinstance(t.op, ast.Or) else [t]
        return any(isinstance(a_, ast.Call) and attr_tail(a_) == "is_file" for a_ in alts)
    arms = [n for n in walk(f.node) if isinstance(n, ast.If) and is_file_arm(n.test)]
    ctx.floor("R19.11", len(arms), 1, "is_file() arm of the walk")
    for arm in arms:
        writes = [c for st in arm.body for c in ast.walk(st) if isinstance(c, ast.Call) and attr_tail(c) == "write"]
        ctx.need(bool(writes), "the is_file() arm of _writeall writes nothing")
        for wcall in writes:
            ok = False
            negs = []
            for cd, pol in q.facts_at(f, wcall):
                if pol:
                    continue
                # `if not as_link and self._is_this_archive(path): return` : the conjunction is false at the write; the identity test is one of its conjuncts
                negs += list(cd.values) if isinstance(cd, ast.BoolOp) and isinstance(cd.op, ast.And) else [cd]
            for cd in negs:
                if not isinstance(cd, ast.Call):
                    continue
                if attr_tail(cd) in SAME_FILE:
                    ok = True
                elif isinstance(cd.func, ast.Attribute) and norm(cd.func.value) == "self":
                    m = ctx.prog.method(ctx.prog.cls("SevenZipFile", "py7zr"), cd.func.attr)
                    if m is not None and any(isinstance(x, ast.Call) and attr_tail(x) in SAME_FILE for x in body_of(m)) and any(
                            isinstance(x, ast.Attribute) and norm(x) in ("self.fp", "self.filename") for x in body_of(m)):
                        ok = True  # an identity test in a method that looks at the archive's own handle(s) / name
            if ok:
                # `c -v SIZE DIR/out DIR`: the archive is a SET of files; the identity test looks at the volumes too (a MultiVolume has no fileno())
                mv = any(isinstance(cd2, ast.Call) and isinstance(cd2.func, ast.Attribute) and norm(cd2.func.value) == "self" and (m2 := ctx.prog.method(ctx.prog.cls("SevenZipFile", "py7zr"), cd2.func.attr)) is not None
                         and any(isinstance(x, ast.Attribute) and x.attr in ("MultiVolume", "_files") or (isinstance(x, ast.Constant) and x.value == "_files") for x in body_of(m2)) for cd2 in negs if isinstance(cd2, ast.Call))
                direct = any(isinstance(cd2, ast.Call) and attr_tail(cd2) in SAME_FILE for cd2 in negs)
                ctx.check(mv or direct, "R19.11", f, wcall, "the identity test covers the volumes of a multi-volume archive",
                          "the test 'is this the archive being written' asks the handle for fileno(), which a MultiVolume answers with RuntimeError -> 'no': `c -v 1m DIR/out DIR` stores "
                          "the half-written first volume DIR/out.7z.0001 as a member of itself and exits 0", construct="volumes pack themselves")
            ctx.check(ok, "R19.11", f, wcall, "a file found by the walk is stored only if it is not the archive being written",
                      "_writeall stores every regular file it finds, also the archive it is writing (`c backup.7z .`): the half-written archive becomes a member of itself, "
                      "`c` exits 0 and `x` yields the input tree plus a bogus backup.7z", construct="archive packs itself")


def r19_12(ctx: Ctx) -> None:
    """'the exit status is 0 exactly when the requested operation succeeded': the status of a command is what its run_* method returns (`None`
    becomes 0).  (a) No run_* method falls off its end or returns None: every normal way out is a `return <value>` (or `exit(...)`); (b) in `t` the
    arm that reports a bad archive and every handler return a non-zero constant."""
    cli = ctx.prog.cls("Cli", "cli")
    n = 0
    for name, f in sorted(cli.methods.items()):
        if not name.startswith("run_") and name != "_run_list":
            continue
        n += 1
        if not any(isinstance(r, ast.Return) and isinstance(r.value, ast.Constant) and isinstance(r.value.value, int) and r.value.value != 0 for r in walk(f.node)):
            continue  # a command that reports no failure of its own (`i`): falling off the end is its status 0
        cfg = cfg_of(f.node)
        outs = [q.node_for(f, r) for r in walk(f.node) if isinstance(r, ast.Return) and r.value is not None and not (isinstance(r.value, ast.Constant) and r.value.value is None)]
        outs += [q.node_for(f, c) for c in q.calls(f) if dotted(c.func) in ("exit", "sys.exit")]
        ok = cfg.every_path_to_exit_passes(cfg.entry, outs)
        ctx.check(ok, "R19.12", f, f.node, f"{name}: every way out carries a status",
                  f"Cli.{name} can end without `return <status>` (it falls off its end, or returns None): the process exits with status 0 whatever happened on that path",
                  construct=f"{name} falls off")
    t = _cli(ctx, "run_test")
    for h in [h for h in walk(t.node) if isinstance(h, ast.ExceptHandler)]:
        rets = [r for r in ast.walk(h) if isinstance(r, ast.Return)]
        ok = bool(rets) and all(isinstance(r.value, ast.Constant) and isinstance(r.value.value, int) and r.value.value != 0 for r in rets)
        ctx.check(ok, "R19.12", t, h, "a failing `t` returns non-zero", f"the `except {norm(h.type) if h.type else ''}` handler of run_test does not return a non-zero status", construct="run_test handler status")
    ctx.floor("R19.12", n, 5, "run_* methods of the CLI")


def r19_13(ctx: Ctx) -> None:
    """`c` and `a` archive what they were given: every session they open (`with py7zr.SevenZipFile(...) as z`) walks ALL the file arguments, hands a
    directory to writeall() and anything else to write(); `c` passes the password it asked for; the end of the command is `return 0`."""
    for name in ("run_create", "run_append"):
        f = _cli(ctx, name)
        sessions = [w for w in walk(f.node) if isinstance(w, ast.With) and any(isinstance(i.context_expr, ast.Call) and attr_tail(i.context_expr) == "SevenZipFile" and i.optional_vars is not None for i in w.items)]
        ctx.floor("R19.13", len(sessions), 1, f"archive sessions in {name}")
        for w in sessions:
            it = next(i for i in w.items if isinstance(i.context_expr, ast.Call) and attr_tail(i.context_expr) == "SevenZipFile")
            z = norm(it.optional_vars)
            loops = [l for l in ast.walk(w) if isinstance(l, ast.For) and norm(l.iter) in ("filenames", "args.filenames")]
            ok = False
            for l in loops:
                for cond in [c for c in ast.walk(l) if isinstance(c, ast.If) and isinstance(c.test, ast.Call) and attr_tail(c.test) == "is_dir"]:
                    src = norm(cond.test.func.value)
                    wa = any(isinstance(x, ast.Call) and attr_tail(x) == "writeall" and norm(x.func.value) == z and x.args and norm(x.args[0]) == src for st in cond.body for x in ast.walk(st))
                    wr = any(isinstance(x, ast.Call) and attr_tail(x) == "write" and norm(x.func.value) == z and x.args and norm(x.args[0]) == src for st in cond.orelse for x in ast.walk(st))
                    derived = any(isinstance(n, ast.Assign) and norm(n.targets[0]) == src and any(isinstance(y, ast.Name) and y.id == norm(l.target) for y in ast.walk(n.value)) for n in ast.walk(l))
                    ok = ok or (wa and wr and derived)
            ctx.check(ok, "R19.13", f, w, f"{name}: every file argument is archived (writeall for a directory, write otherwise)",
                      f"a session of Cli.{name} does not hand every file argument to `{z}.writeall()` (directories) / `{z}.write()` (the rest): `c`/`a` exit 0 with an archive that lacks "
                      "what it was asked to hold", construct=f"{name} sources")
            if name == "run_create":
                pw = next((k.value for k in it.context_expr.keywords if k.arg == "password"), None)
                ctx.check(pw is not None and norm(pw) == "password", "R19.13", f, it.context_expr, "`c` passes the password it asked for",
                          "Cli.run_create opens the archive without `password=password`: `c -P` asks for a password and writes an unencrypted archive", construct="run_create password")
        cfg = cfg_of(f.node)
        last = f.node.body[-1]
        tails = [r for r in ast.walk(last) if isinstance(r, ast.Return)] if not isinstance(last, ast.Return) else [last]
        ok = bool(tails) and all(isinstance(r.value, ast.Constant) and r.value.value == 0 and not isinstance(r.value.value, bool) for r in tails)
        ctx.check(ok, "R19.13", f, last, f"{name} ends with status 0", f"Cli.{name} does not end in `return 0` after the session(s): a successful `{name[4]}` reports failure", construct=f"{name} final status")


def r19_14(ctx: Ctx) -> None:
    """the exit status of a command is the status of the runner that did the work: a method of Cli that returns a non-zero status on some
    path is never called for its side effects only - its value is returned (or kept in a name that is).  `l name.001` on a volume set that
    is no archive would otherwise print 'not a 7z file' and exit 0 while `l name.7z` exits 1."""
    cls = ctx.prog.module("cli").classes.get("Cli")
    ctx.need(cls is not None, "class Cli not found")

    def reports_failure(m) -> bool:
        return any(isinstance(r, ast.Return) and r.value is not None and not (isinstance(r.value, ast.Constant) and r.value.value in (0, None))
                   for r in walk(m.node))
    status = {name for name, m in cls.methods.items() if reports_failure(m)}
    n = 0
    for name, m in sorted(cls.methods.items()):
        for c in q.calls(m):
            if isinstance(c.func, ast.Attribute) and isinstance(c.func.value, ast.Name) and c.func.value.id == "self" and c.func.attr in status:
                n += 1
                dropped = any(isinstance(st, ast.Expr) and st.value is c for st in walk(m.node))
                ctx.check(not dropped, "R19.14", m, c, f"{name}: the status of self.{c.func.attr}() is handed on",
                          f"`{norm(c)[:80]}` is called for its side effects and its status is dropped: the command prints the failure (e.g. 'not a 7z file') and still exits 0 on this arm, "
                          "while the sibling arm returns the runner's status", construct=f"{name} drops the status of {c.func.attr}")
    ctx.floor("R19.14", n, 2, "calls of status-returning runners inside Cli")


def r19_16(ctx: Ctx) -> None:
    """`x` exits non-zero for damaged data also when the only digest the archive carries is the CRC of the packed stream (no folder or member
    CRC: legal): extraction never looks at packed-stream CRCs, test() does.  run_extract calls `<archive>.test()` and returns non-zero on its
    False outcome, on a path that comes before the successful `return 0`."""
    f = _cli(ctx, "run_extract")
    cfg = cfg_of(f.node)
    ok = False
    for t in cfg.nodes:
        if t.kind != "test":
            continue
        for a, pol in q.atoms(t.ast, True):
            if pol and isinstance(a, ast.Compare) and isinstance(a.left, ast.Call) and attr_tail(a.left) == "test" and isinstance(a.ops[0], ast.Is) \
                    and isinstance(a.comparators[0], ast.Constant) and a.comparators[0].value is False:
                te = next((e for e in t.succ if e.kind == "true"), None)
                if te is not None and any(isinstance(n_.ast, ast.Return) and not (isinstance(n_.ast.value, ast.Constant) and n_.ast.value.value in (0, None))
                                          for n_ in cfg.reachable_from(te) if n_.kind == "stmt" and n_.ast is not None) and not any(
                        isinstance(n_.ast, ast.Return) and isinstance(n_.ast.value, ast.Constant) and n_.ast.value.value == 0 for n_ in cfg.reachable_from(te) if n_.kind == "stmt" and n_.ast is not None):
                    ok = True
    ctx.check(ok, "R19.16", f, f.node, "`x` consults the packed-stream CRCs for members that have no CRC of their own",
              "run_extract never calls test(): an archive whose only digest is the CRC of its packed stream (a Copy folder without folder or member CRC), with one data byte flipped, "
              "makes `x` exit 0 and write the wrong bytes, while `t` exits 1", construct="x ignores packed-stream CRCs")


def r19_17(ctx: Ctx) -> None:
    """an archive without a streams section (directories and empty files only, as 7-Zip writes it) has `header.main_streams` None: wherever the
    command line reads a field of it, a None test stands in front (`if ... main_streams is not None:` / a conditional expression) - otherwise
    `t` dies with AttributeError and exits 1 on an intact archive that the library finds good."""
    mod = ctx.prog.module("cli")
    n = 0
    for f in [g for g in ctx.prog.all_funcs if g.module == "cli"]:
        for a in [x for x in walk(f.node) if isinstance(x, ast.Attribute) and isinstance(x.value, ast.Attribute) and x.value.attr == "main_streams"]:
            n += 1
            subj = norm(a.value)
            ok = any((nt := q.is_none_test(cd)) is not None and norm(nt[0]) == subj and nt[1] != pol for cd, pol in q.facts_at(f, a))
            ctx.check(ok, "R19.17", f, a, f"{f.name}: `{subj}` is read behind a None test",
                      f"`{norm(a)}` in {f.qname} reads a field of `main_streams` without a None test: for a directories-only archive as 7-Zip writes it (no streams section) `t` raises "
                      "AttributeError and exits 1 although test()/testzip() and `x` find the archive good", construct=f"{f.name} unguarded main_streams")
    ctx.floor("R19.17", n, 1, "reads of main_streams fields in the command line")


def run(ctx: Ctx) -> None:
    r19_17(ctx)
    from . import c08 as _c08a
    _c08a.r08_3(ctx, rule="R19.18")  # `a` continues behind the packed data (packpos included): earlier members stay readable
    r19_16(ctx)
    r19_14(ctx)
    c04.r04_17(ctx, rule="R19.15")  # `x` does not exit 0 over a damaged member: the CRC comparison asks `is not None`, not truth (a stored CRC of 0 is a CRC)
    r19_13(ctx)
    r19_12(ctx)
    r19_11(ctx)
    r19_10(ctx)
    r19_9(ctx)
    r19_8(ctx)
    r19_7(ctx)
    r19_5(ctx)
    c04.r04_7(ctx)
    r19_1(ctx)
    r19_2(ctx)
    r19_3(ctx)
    r19_4(ctx)
