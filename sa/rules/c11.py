"""C11 — encryption: nothing leaks, nothing is delivered without the right password."""
from __future__ import annotations

import ast
from typing import List

from ..cfg import cfg_of
from ..consteval import NotConst
from ..model import AnalysisError, Func, attr_tail, dotted, norm, walk
from ..report import Ctx
from .. import q
from . import shared

EXPLANATION = (
    "Source-level conditions of confidentiality: the IV handed to AES.new in the compressor derives from a CSPRNG call "
    "(Cryptodome get_random_bytes / os.urandom / secrets) of at least 16 bytes and from nothing else, and no IV/cipher is "
    "stored at module or class level (a new one per compressor, which is created per folder and per header encoding); only the "
    "last stage's output reaches the file (R01.2); a password with default filters selects a chain that contains 7zAES, and "
    "this is decided by `password is not None`, not by truthiness; the header-encryption flag reaches Header.write, whose "
    "encrypted arm is tested first and selects a filter list containing 7zAES, the setters keep 'encrypted implies encoded' "
    "and never clear encryption when encoding is switched on, and the raw header is written only to a local buffer; the "
    "PasswordRequired check dominates every decoder construction; KDF parameters agree on both sides (R07.6); wrong-key "
    "garbage is caught by the member CRC (R04.2). Not decided: secrecy of ciphertext, uniqueness of random draws, library correctness."
)
TRUSTED = ["CPython ast parser", "sa.consteval (default filter tables)", "sa.cfg dominators", "Cryptodome.Random.get_random_bytes / os.urandom / secrets are CSPRNGs"]

CSPRNG = {"Cryptodome.Random.get_random_bytes", "Crypto.Random.get_random_bytes", "os.urandom", "secrets.token_bytes"}
AES_ID = 0x06F10701


def r11_1(ctx: Ctx) -> None:
    f = ctx.prog.func("compressor", "AESCompressor.__init__")
    mod = ctx.prog.module("compressor")
    news = [c for c in q.calls(f) if dotted(c.func) == "AES.new"]
    ctx.floor("R11.1", len(news), 1, "AES.new in AESCompressor.__init__")
    for c in news:
        iv = c.args[2] if len(c.args) > 2 else next((k.value for k in c.keywords if k.arg in ("iv", "IV")), None)
        ctx.need(iv is not None, "AES.new without an IV argument")
        # all definitions of the iv attribute in __init__
        name = norm(iv)
        defs = [n for n in walk(f.node) if isinstance(n, (ast.Assign, ast.AugAssign)) and norm(n.targets[0] if isinstance(n, ast.Assign) else n.target) == name]
        ctx.need(bool(defs), "IV definition not found")
        rng_calls = []
        bad = []
        for d in defs:
            v = d.value
            if isinstance(d, ast.AugAssign):
                # padding with zero bytes up to the block size is allowed
                ok_pad = isinstance(v, ast.Call) and dotted(v.func) == "bytes"
                if not ok_pad:
                    bad.append(d)
                continue
            if isinstance(v, ast.Call):
                nm = dotted(v.func)
                full = mod.imports.get(nm.split(".")[0], nm.split(".")[0]) + ("." + ".".join(nm.split(".")[1:]) if "." in nm else "")
                if full in CSPRNG:
                    rng_calls.append(v)
                    continue
            bad.append(d)
        ctx.check(bool(rng_calls) and not bad, "R11.1", f, c, "IV comes from a CSPRNG call only",
                  f"the IV given to AES.new is defined by {[norm(b) for b in bad] or 'no CSPRNG call'}: not a fresh draw from a cryptographic RNG (constant or predictable IVs repeat across archives)")
        for r in rng_calls:
            try:
                k = ctx.ce.eval(r.args[0], "compressor", cls="AESCompressor")
            except NotConst:
                k = None
            ctx.check(k is not None and k >= 16, "R11.1", f, r, f"IV length {k} >= 16", f"the random IV is {k} bytes; the remaining bytes of the 16-byte block are constant zero padding")
    # nothing cached at module / class level
    cls = ctx.prog.cls("AESCompressor", "compressor")
    cached = [s for s in cls.node.body if isinstance(s, (ast.Assign, ast.AnnAssign)) and any(w in norm(s).lower() for w in ("iv", "cipher", "key", "salt"))]
    ctx.check(not cached, "R11.1", "compressor:AESCompressor", cached[0] if cached else None, "no IV/cipher/key at class level", "key material is stored at class level and shared by all compressors", construct="class-level key material")
    deco = [d for fn in (f,) for d in fn.node.decorator_list]
    ctx.check(not deco, "R11.1", f, f.node, "constructor not memoised", "AESCompressor.__init__ is decorated (memoised?)", construct="ctor decorators")
    # one compressor per folder / per header encoding
    pc = ctx.prog.func("archiveinfo", "Folder.prepare_coderinfo")
    ok = any(isinstance(n, ast.Assign) and norm(n.targets[0]) == "self.compressor" and isinstance(n.value, ast.Call) and attr_tail(n.value) == "SevenZipCompressor" for n in walk(pc.node))
    ctx.check(ok, "R11.1", pc, pc.node, "a new SevenZipCompressor per folder", "prepare_coderinfo does not create a new SevenZipCompressor per folder", construct="compressor per folder")
    eh = ctx.prog.func("archiveinfo", "Header._encode_header")
    ok = any(attr_tail(c) == "Folder" for c in q.calls(eh)) and any(attr_tail(c) == "prepare_coderinfo" for c in q.calls(eh))
    ctx.check(ok, "R11.1", eh, eh.node, "a new folder/compressor per header encoding", "_encode_header reuses a compressor", construct="compressor per header")
    sac = ctx.prog.func("compressor", "SevenZipCompressor._set_alternate_compressors_coders")
    ok = any(isinstance(n, ast.Assign) and norm(n.targets[0]) == "compressor" and isinstance(n.value, ast.Call) and isinstance(n.value.func, ast.Subscript) for n in walk(sac.node))
    ctx.check(ok, "R11.1", sac, sac.node, "codec objects are constructed per chain", "codec objects are not constructed per chain", construct="codec per chain")


def _contains_aes(v) -> bool:
    return isinstance(v, list) and any(isinstance(d, dict) and d.get("id") == AES_ID for d in v)


def r11_2(ctx: Ctx) -> None:
    try:
        enc = ctx.ce.class_const("DefaultFilters", "ENCRYPTED_ARCHIVE_FILTER")
        ench = ctx.ce.class_const("DefaultFilters", "ENCRYPTED_HEADER_FILTER")
        plain = ctx.ce.class_const("DefaultFilters", "ARCHIVE_FILTER")
        aes = ctx.ce.module_const("properties", "FILTER_CRYPTO_AES256_SHA256")
    except NotConst as e:
        raise AnalysisError(f"default filter tables not constant: {e}")
    ctx.check(aes == AES_ID, "R11.2", "properties:FILTER_CRYPTO_AES256_SHA256", None, "7zAES filter id", f"FILTER_CRYPTO_AES256_SHA256 is {aes:#x}", construct="AES id")
    ctx.check(_contains_aes(enc) and enc[-1].get("id") == AES_ID, "R11.2", "properties:DefaultFilters", None, "ENCRYPTED_ARCHIVE_FILTER ends with 7zAES",
              f"ENCRYPTED_ARCHIVE_FILTER = {enc} does not end with the 7zAES coder", construct="ENCRYPTED_ARCHIVE_FILTER")
    ctx.check(_contains_aes(ench), "R11.2", "properties:DefaultFilters", None, "ENCRYPTED_HEADER_FILTER contains 7zAES", f"ENCRYPTED_HEADER_FILTER = {ench} has no 7zAES coder", construct="ENCRYPTED_HEADER_FILTER")
    ctx.check(not _contains_aes(plain), "R11.2", "properties:DefaultFilters", None, "plain default has no AES (sanity)", "ARCHIVE_FILTER unexpectedly contains AES", construct="ARCHIVE_FILTER")
    for name in ("_prepare_write", "_prepare_append"):
        f = shared.szf(ctx, name)
        sel = [n for n in walk(f.node) if isinstance(n, ast.Assign) and norm(n.targets[0]) == "filters" and norm(n.value).endswith("ENCRYPTED_ARCHIVE_FILTER")]
        ctx.floor("R11.2", len(sel), 1, f"encrypted default selection in {name}")
        for s in sel:
            facts = q.facts_at(f, s)
            pw_none_test = any(pol and q.is_none_test(cd) is not None and not q.is_none_test(cd)[1] and norm(q.is_none_test(cd)[0]) == "password" for cd, pol in facts)
            pw_truthy = any(isinstance(cd, ast.Name) and cd.id == "password" for cd, pol in facts)
            ctx.check(pw_none_test and not pw_truthy, "R11.2", f, s, f"{name}: a given password (even empty) selects the encrypted default chain",
                      f"{name} selects the encrypted default filters by the truthiness of the password: an empty-string password produces an unencrypted archive")
        plain_sel = [n for n in walk(f.node) if isinstance(n, ast.Assign) and norm(n.targets[0]) == "filters" and norm(n.value).endswith(".ARCHIVE_FILTER")]
        for s in plain_sel:
            # reached only when the encrypted arm's condition was false: i.e. password is None (given filters is None)
            facts = [(norm(cd), pol) for cd, pol in q.facts_at(f, s)]
            ok = ("filters is None", True) in facts
            ctx.check(ok, "R11.2", f, s, f"{name}: plain default only when no filters were given", f"{name} replaces given filters by the plain default")
    # the password reaches the folder compressor
    hi = ctx.prog.func("archiveinfo", "Header.initialize")
    ok = any(isinstance(n, ast.Assign) and norm(n.targets[0]) == "folder.password" and norm(n.value) == "self.password" for n in walk(hi.node))
    ctx.check(ok, "R11.2", hi, hi.node, "folder compressor receives the archive password", "Header.initialize does not hand the password to the folder", construct="folder password")
    wi = ctx.prog.func("compressor", "SevenZipCompressor.__init__")
    ok = any(attr_tail(c) == "_set_alternate_compressors_coders" and any(norm(a) == "password" for a in c.args) for c in q.calls(wi))
    ctx.check(ok, "R11.2", wi, wi.node, "crypto coder is built with the password", "the crypto coder is not constructed with the password", construct="crypto coder password")
    # mixed chains: crypto must be the last coder
    mixed = [n for n in walk(wi.node) if isinstance(n, ast.If) and any(isinstance(c, ast.Call) and attr_tail(c) == "is_crypto_id" for c in ast.walk(n.test))]
    ok = bool(mixed) and any("self.filters[-1]" in norm(c) for n in mixed for c in ast.walk(n.test) if isinstance(c, ast.Call) and attr_tail(c) == "is_crypto_id")
    ctx.check(ok, "R11.2", wi, mixed[0] if mixed else wi.node, "native+crypto chains require the crypto coder last", "a native+crypto chain is accepted with the crypto coder not in last position", construct="crypto last")
    from . import c01
    c01.r01_2(ctx)


def r11_3(ctx: Ctx) -> None:
    wh = shared.szf(ctx, "_write_header")
    hw = [c for c in q.calls(wh) if norm(c.func).endswith("header.write")]
    ctx.floor("R11.3", len(hw), 1, "Header.write call in _write_header")
    kw = {k.arg: norm(k.value) for k in hw[0].keywords}
    ctx.check(kw.get("encrypted") == "self.header_encryption" and kw.get("encoded") == "self.encoded_header_mode", "R11.3", wh, hw[0], "header flags reach Header.write",
              f"_write_header passes encrypted={kw.get('encrypted')}, encoded={kw.get('encoded')} instead of the session's flags")
    h = ctx.prog.func("archiveinfo", "Header.write")
    top = [n for n in h.node.body if isinstance(n, ast.If)]
    # whenever `encrypted` holds the chain handed to _encode_header is the AES one: every assignment of the plain chain to the name that goes into
    # _encode_header stands under `encrypted` false, the AES chain is assigned under `encrypted` true, and (below) raw bytes need both flags off
    enc_calls = [c for c in q.calls(h) if attr_tail(c) == "_encode_header"]
    argn = {a.id for c in enc_calls for a in c.args if isinstance(a, ast.Name)}
    plain = [n for n in walk(h.node) if isinstance(n, ast.Assign) and isinstance(n.targets[0], ast.Name) and n.targets[0].id in argn and norm(n.value).endswith("ENCODED_HEADER_FILTER")]
    aes = [n for n in walk(h.node) if isinstance(n, ast.Assign) and isinstance(n.targets[0], ast.Name) and n.targets[0].id in argn and norm(n.value).endswith("ENCRYPTED_HEADER_FILTER")]
    ok = bool(enc_calls) and bool(aes) and all(("encrypted", False) in [(norm(cd), pol) for cd, pol in q.facts_at(h, n)] for n in plain) and \
        all(("encrypted", True) in [(norm(cd), pol) for cd, pol in q.facts_at(h, n)] for n in aes) and \
        not any(norm(a).endswith("ENCODED_HEADER_FILTER") and ("encrypted", False) not in [(norm(cd), pol) for cd, pol in q.facts_at(h, c)] for c in enc_calls for a in c.args)
    ctx.check(ok, "R11.3", h, top[0] if top else h.node, "encrypted arm is tested first and encodes with the AES header filter",
              "Header.write does not test `encrypted` first and encode with ENCRYPTED_HEADER_FILTER (an 'encoded' arm taken first would write the names unencrypted)", construct="Header.write encrypted arm")
    # raw bytes only in the last arm
    raw_writes = [c for c in q.calls(h) if attr_tail(c) in ("write_byte",) or (attr_tail(c) == "write" and "main_streams" in norm(c.func))]
    for c in raw_writes:
        facts = [(norm(cd), pol) for cd, pol in q.facts_at(h, c)]
        ok = ("encrypted", False) in facts and ("encoded", False) in facts
        ctx.check(ok, "R11.3", h, c, "raw header is emitted only when neither encrypted nor encoded", "raw header bytes can be emitted to the file although encryption/encoding was requested")
    # _encode_header: raw header into a local buffer, only compressor output to the file
    eh = ctx.prog.func("archiveinfo", "Header._encode_header")
    fileparam = eh.params[1]
    raw = [c for c in q.calls(eh) if norm(c.func) == "self.write"]
    ctx.floor("R11.3", len(raw), 1, "raw Header.write inside _encode_header")
    for c in raw:
        tgt = c.args[0]
        local = isinstance(tgt, ast.Name) and tgt.id != fileparam and any(isinstance(v, ast.Call) and attr_tail(v) == "BytesIO" for v in q.assigned_values(eh, tgt.id))
        plain = len(c.args) >= 3 and isinstance(c.args[2], ast.Constant) and c.args[2].value is False
        ctx.check(local and plain, "R11.3", eh, c, "raw header is serialised into a local buffer", "the raw (unencrypted) header is written to the archive file inside _encode_header")
    comp = [c for c in q.calls(eh) if attr_tail(c) == "compress"]
    ok = bool(comp) and norm(comp[0].args[1]) == fileparam and isinstance(comp[0].args[0], ast.Name) and comp[0].args[0].id != fileparam
    ctx.check(ok, "R11.3", eh, comp[0] if comp else eh.node, "only the compressor's output goes to the file", "_encode_header does not pass the buffer through the compressor into the file")
    ok = any(isinstance(n, ast.Assign) and norm(n.targets[0]) == "folder.password" and norm(n.value) == "self.password" for n in walk(eh.node))
    ctx.check(ok, "R11.3", eh, eh.node, "header folder gets the password", "the header folder is built without the password", construct="header folder password")
    # setters
    se = shared.szf(ctx, "set_encoded_header_mode")
    for n in walk(se.node):
        if isinstance(n, ast.Assign) and norm(n.targets[0]) == "self.header_encryption" and isinstance(n.value, ast.Constant) and n.value.value is False:
            facts = [(norm(cd), pol) for cd, pol in q.facts_at(se, n)]
            ctx.check((se.params[1], False) in facts, "R11.3", se, n, "encryption is cleared only when encoding is switched off",
                      "set_encoded_header_mode clears header_encryption also when encoding is switched ON: a requested header encryption is silently dropped and names are written in clear")
        if isinstance(n, ast.Assign) and norm(n.targets[0]) == "self.encoded_header_mode" and isinstance(n.value, ast.Constant) and n.value.value is False:
            cfg = cfg_of(se.node)
            clears = [x for x in walk(se.node) if isinstance(x, ast.Assign) and norm(x.targets[0]) == "self.header_encryption" and isinstance(x.value, ast.Constant) and x.value.value is False]
            ok = any(cfg.every_path_to_exit_passes(q.node_for(se, n), [q.node_for(se, c)]) or cfg.dominates(q.node_for(se, c), q.node_for(se, n)) for c in clears)
            ctx.check(ok, "R11.3", se, n, "switching encoding off also switches encryption off", "set_encoded_header_mode(False) leaves header_encryption on with encoding off")
    sx = shared.szf(ctx, "set_encrypted_header")
    for n in walk(sx.node):
        if isinstance(n, ast.Assign) and norm(n.targets[0]) == "self.header_encryption" and isinstance(n.value, ast.Constant) and n.value.value is True:
            cfg = cfg_of(sx.node)
            enc = [x for x in walk(sx.node) if isinstance(x, ast.Assign) and norm(x.targets[0]) == "self.encoded_header_mode" and isinstance(x.value, ast.Constant) and x.value.value is True]
            ok = any(cfg.dominates(q.node_for(sx, e), q.node_for(sx, n)) or cfg.every_path_to_exit_passes(q.node_for(sx, n), [q.node_for(sx, e)]) for e in enc)
            ctx.check(ok, "R11.3", sx, n, "switching encryption on also switches encoding on", "set_encrypted_header(True) does not switch encoded_header_mode on")
    init = shared.szf(ctx, "__init__")
    ok = any(isinstance(n, ast.Assign) and norm(n.targets[0]) == "self.header_encryption" and norm(n.value) == "header_encryption" for n in walk(init.node)) and \
        any(isinstance(n, ast.Assign) and norm(n.targets[0]) == "self.encoded_header_mode" and isinstance(n.value, ast.Constant) and n.value.value is True for n in walk(init.node))
    ctx.check(ok, "R11.3", init, init.node, "constructor stores the flag; encoding on by default", "the constructor does not store header_encryption / default encoded_header_mode=True", construct="ctor header flags")


def r11_4(ctx: Ctx) -> None:
    f = ctx.prog.func("compressor", "SevenZipDecompressor.__init__")
    cfg = cfg_of(f.node)
    raises = [n for n in walk(f.node) if isinstance(n, ast.Raise) and isinstance(n.exc, ast.Call) and dotted(n.exc.func) == "PasswordRequired"]
    tests = [n for n in cfg.nodes if n.kind == "test" and any(isinstance(c, ast.Call) and attr_tail(c) == "needs_password" for c in ast.walk(n.ast))]
    if not raises or not tests:
        ctx.fail("R11.4", f, f.node, "SevenZipDecompressor.__init__ has no `needs_password(coders) and password is None -> raise PasswordRequired` check before decoders are built",
                 construct="PasswordRequired check")
        return
    t = tests[0]
    good_cond = any(q.is_none_test(a) is not None and q.is_none_test(a)[1] and norm(q.is_none_test(a)[0]) == "password" for a, pol in q.atoms(t.ast, True) if pol) and \
        any(isinstance(a, ast.Call) and attr_tail(a) == "needs_password" and norm(a.args[0]) == f.params[1] for a, pol in q.atoms(t.ast, True) if pol)
    te = next(s for s in t.succ if s.kind == "true")
    ok = good_cond and q.branch_always_raises(cfg, te)
    ctx.check(ok, "R11.4", f, raises[0], "needs_password(coders) and password is None -> raise PasswordRequired", "the missing-password test is not `needs_password(coders) and password is None` leading to raise PasswordRequired")
    ctors = [c for c in q.calls(f) if attr_tail(c) in ("_get_alternative_decompressor", "_get_lzma_decompressor")]
    ctx.floor("R11.4", len(ctors), 4, "decoder constructions")
    for c in ctors:
        ctx.check(cfg.dominates(t, q.node_for(f, c)), "R11.4", f, c, "password check dominates decoder construction",
                  "a decoder is constructed on a path that has not passed the PasswordRequired check (AES key derivation with password None / wrong exception)")
    # the password given by the caller reaches the folder before decoders are built
    rg = shared.szf(ctx, "_real_get_contents")
    ok = any(isinstance(n, ast.Assign) and norm(n.targets[0]) == "folder.password" and norm(n.value) == "password" for n in walk(rg.node))
    ctx.check(ok, "R11.4", rg, rg.node, "reader hands the password to every folder", "_real_get_contents does not hand the password to the folders", construct="reader folder password")
    hr = ctx.prog.func("archiveinfo", "Header._read")
    ok = any(isinstance(n, ast.Assign) and norm(n.targets[0]) == "folder.password" and norm(n.value) == "password" for n in walk(hr.node))
    ctx.check(ok, "R11.4", hr, hr.node, "encoded header folder gets the password", "Header._read does not hand the password to the header folder", construct="header reader password")


MUTATORS = {"pop", "append", "remove", "insert", "clear", "extend", "sort", "reverse", "update", "setdefault", "popitem", "__setitem__", "__delitem__"}


def r11_6(ctx: Ctx) -> None:
    """the filter specification handed in by the caller (possibly the module constant DEFAULT_FILTERS.ENCRYPTED_ARCHIVE_FILTER, shared by
    every archive written in the process) is read-only: nothing in the package mutates a `filters` parameter, `self.filters` that aliases
    one, or an element taken from them.  Popping the 7zAES entry off the shared list makes every LATER password archive plain."""
    n_fn = 0
    for mod in ("compressor", "py7zr", "archiveinfo"):
        for f in ctx.prog.funcs_in(mod):
            names = set()
            if "filters" in f.params:
                names.add("filters")
            attrs = set()
            if f.cls is not None:
                cls = ctx.prog.module(mod).classes.get(f.cls)
                if cls is not None:
                    for m in cls.methods.values():
                        for n in walk(m.node):
                            if isinstance(n, (ast.Assign, ast.AnnAssign)) and n.value is not None and isinstance(n.value, ast.Name) and n.value.id == "filters" and "filters" in m.params:
                                for t in (n.targets if isinstance(n, ast.Assign) else [n.target]):
                                    if isinstance(t, ast.Attribute) and isinstance(t.value, ast.Name) and t.value.id == "self":
                                        attrs.add(t.attr)
            if not names and not attrs:
                continue
            n_fn += 1

            def aliased(e: ast.AST, depth: int = 3) -> bool:
                if isinstance(e, ast.Name):
                    if e.id in names:
                        # a parameter that is re-bound to a fresh copy first is no alias any more: only the plain parameter counts
                        return not any(isinstance(v, ast.Call) or isinstance(v, (ast.List, ast.ListComp)) for v in q.assigned_values(f, e.id))
                    if depth > 0:
                        vals = q.assigned_values(f, e.id)
                        return any(aliased(v, depth - 1) for v in vals if not isinstance(v, ast.Call))
                    return False
                if isinstance(e, ast.Attribute) and isinstance(e.value, ast.Name) and e.value.id == "self":
                    return e.attr in attrs
                if isinstance(e, ast.Subscript) and not isinstance(e.slice, ast.Slice):
                    return aliased(e.value, depth)  # an element (a filter dict) of the shared list
                return False

            # loop variables over an aliased list are elements of it
            elems = {lp.target.id for lp in walk(f.node) if isinstance(lp, ast.For) and isinstance(lp.target, ast.Name) and aliased(lp.iter)}
            for n in walk(f.node):
                tgt = None
                if isinstance(n, ast.Call) and isinstance(n.func, ast.Attribute) and n.func.attr in MUTATORS:
                    tgt = n.func.value
                elif isinstance(n, (ast.Assign, ast.AugAssign, ast.Delete)):
                    ts = n.targets if isinstance(n, (ast.Assign, ast.Delete)) else [n.target]
                    for t in ts:
                        if isinstance(t, ast.Subscript):
                            tgt = t.value
                if tgt is None:
                    continue
                if aliased(tgt) or (isinstance(tgt, ast.Name) and tgt.id in elems):
                    ctx.fail("R11.6", f, n, f"`{norm(n)[:70]}` mutates the caller's filter specification (`{norm(tgt)}` aliases the `filters` argument, which may be the "
                             "shared DEFAULT_FILTERS constant): the change persists into every archive written later in the process (e.g. the 7zAES entry is popped once "
                             "and later password archives are written unencrypted)", construct=f"mutation of {norm(tgt)}")
    ctx.floor("R11.6", n_fn, 3, "functions handling a caller-supplied filter list")
    ctx.ok("R11.6", f"{n_fn} functions that hold a caller-supplied `filters` list: none mutates it or its elements")


def r11_7(ctx: Ctx, rule: str = "R11.7") -> None:
    """(a) 'without the password nothing is delivered': the missing password is noticed before any output is touched.  The decoders raise
    PasswordRequired only when they are built, which is after the first member's file has been opened for writing (a file under the member's
    name is created, an existing one truncated); _extract therefore raises PasswordRequired itself, on a path that dominates the worker
    call and every directory/file creation.  (b) 'in no case are bytes delivered that differ from the original': on the disk-output arm of
    Worker._extract_single the file is removed again before CrcError is raised (with Copy+7zAES / 7zAES alone a wrong key is only noticed
    by the CRC, after the whole member has been written)."""
    ex = shared.szf(ctx, "_extract")
    cfg = cfg_of(ex.node)
    raises = [r for r in walk(ex.node) if isinstance(r, ast.Raise) and r.exc is not None and "PasswordRequired" in norm(r.exc)]
    wcalls = [c for c in q.calls(ex) if "py7zr:Worker.extract" in shared.targets_of(ctx, ex, c)]
    ok = False
    for r in raises:
        facts = q.facts_at(ex, r)
        asks = any(isinstance(cd, ast.Call) and attr_tail(cd) == "needs_password" and pol for cd, pol in facts) and \
            any((nt := q.is_none_test(cd)) is not None and "password" in norm(nt[0]) and nt[1] == pol for cd, pol in facts)
        rn = q.node_for(ex, r)
        # nothing that can be observed lies before it: the worker call, any directory creation (the destination included: a refused
        # extraction must not leave a new directory tree behind), the start of the reporter and the first event for the callback
        before_all = all(not cfg.reaches(q.node_for(ex, w), rn) for w in wcalls) and all(
            not cfg.reaches(q.node_for(ex, c), rn) for c in q.calls(ex)
            if attr_tail(c) in ("mkdir", "makedirs", "touch", "open", "unlink") or (attr_tail(c) == "start" and not c.args) or (attr_tail(c) == "put" and norm(c.func.value) == "self.q"))
        ok = ok or (asks and before_all)
    ctx.check(ok, rule, ex, ex.node, "_extract asks for the password before any output is touched",
              "extraction of an encrypted archive without a password raises PasswordRequired only when the first decoder is built - after the first member's file was opened "
              "for writing: an empty file appears under the member's name and a correct copy that was already there is truncated (or it is raised behind the creation of the "
              "destination directory / the callback's 'preparation' event: the refused call leaves a new directory and a callback that waits for an extraction)", construct="password before output")
    es = ctx.prog.func("py7zr", "Worker._extract_single")
    ecfg = cfg_of(es.node)
    n = 0
    for r in [x for x in walk(es.node) if isinstance(x, ast.Raise) and x.exc is not None and "CrcError" in norm(x.exc)]:
        rn = q.node_for(es, r)
        # the arm that wrote to a real file: an `open(mode="wb")` of the output precedes the raise and no BytesIO buffer is the target
        opens = [c for c in q.calls(es) if attr_tail(c) == "open" and any(k.arg == "mode" and isinstance(k.value, ast.Constant) and "w" in str(k.value.value) for k in c.keywords)
                 and ecfg.reaches(q.node_for(es, c), rn) and ecfg.dominates(q.node_for(es, c), rn)]
        if not opens:
            continue
        n += 1
        removed = any(attr_tail(c) in ("unlink", "remove") and ecfg.reaches(q.node_for(es, c), rn) and not ecfg.reaches(rn, q.node_for(es, c))
                      and any(pol and isinstance(cd, ast.Compare) and "crc" in norm(cd).lower() for cd, pol in q.facts_at(es, c)) for c in q.calls(es))
        # or: the raise stands in a try whose CrcError handler removes the file and re-raises
        removed = removed or _crc_handler_unlinks(es, r)
        ctx.check(removed, rule, es, r, "wrong content is removed from disk before CrcError is raised",
                  "Worker._extract_single writes the member straight to its destination and raises CrcError afterwards, leaving the wrong bytes (wrong password with "
                  "Copy+7zAES / 7zAES alone, or damage) under the member's name", construct="wrong bytes left on disk")
    ctx.floor(rule, n, 1, "CrcError raises behind a disk write in _extract_single")
    # the FOLDER's CRC is raised by Worker.decompress itself, at the end of the folder, i.e. from inside the `with <output>.open("wb")` block:
    # every decode into a real output file stands in a try whose CrcError handler removes the file
    wd = ctx.prog.func("py7zr", "Worker.decompress")
    folder_level = any(isinstance(x, ast.Raise) and x.exc is not None and "CrcError" in norm(x.exc) for x in walk(wd.node))
    if folder_level:
        m = 0
        def wopen(e: ast.AST) -> bool:
            return isinstance(e, ast.Call) and attr_tail(e) == "open" and any(k.arg == "mode" and isinstance(k.value, ast.Constant) and "w" in str(k.value.value) for k in e.keywords)
        opened = {n.targets[0].id: n for n in walk(es.node) if isinstance(n, ast.Assign) and isinstance(n.targets[0], ast.Name) and wopen(n.value)}
        for w in [w for w in walk(es.node) if isinstance(w, ast.With)]:
            sinks = [it.optional_vars.id for it in w.items if wopen(it.context_expr) and isinstance(it.optional_vars, ast.Name)]
            sinks += [it.context_expr.id for it in w.items if isinstance(it.context_expr, ast.Name) and it.context_expr.id in opened]
            # opening the output is not part of what the clean-up undoes: an open() that FAILS (busy executable, read-only file) has touched nothing, and the
            # handler must not delete the file that is there
            for it in w.items:
                oc = it.context_expr if wopen(it.context_expr) else (opened[it.context_expr.id].value if isinstance(it.context_expr, ast.Name) and it.context_expr.id in opened else None)
                if oc is None:
                    continue
                inside = any(isinstance(t, ast.Try) and any(oc is x for st in t.body for x in ast.walk(st)) and any(
                    any(isinstance(x, ast.Call) and attr_tail(x) in ("unlink", "remove") for x in ast.walk(h)) for h in t.handlers) for t in walk(es.node))
                ctx.check(not inside, rule, es, oc, "a failing open() of the output does not delete the file that is there",
                          f"`{norm(oc)}` stands inside the try whose handler unlinks the member's file: when the open itself fails (ETXTBSY for a running program, EACCES for a "
                          "read-only file of another user) the user's existing file is deleted although nothing was written to it", construct="open inside the clean-up try")
            for c in [c for st in w.body for c in ast.walk(st) if isinstance(c, ast.Call) and attr_tail(c) == "decompress" and len(c.args) > 2 and isinstance(c.args[2], ast.Name) and c.args[2].id in sinks]:
                m += 1
                ctx.check(_crc_handler_unlinks(es, c, broad=True), rule, es, c, "ANY failure while a member is decoded into its file removes that file",
                          "the clean-up around the decode into the member's file catches CrcError only: with a wrong password and a compressing chain (LZMA2+7zAES, the default) the "
                          "decoder fails with LZMAError / zlib.error / DecompressionError, the file opened with 'wb' stays behind - an existing correct copy truncated to nothing, or "
                          "decoded garbage under the member's name", construct="decoder error leaves the file")
                ctx.check(_crc_handler_unlinks(es, c), rule, es, c, "a folder CRC mismatch raised while a member is written removes that member's file",
                          "Worker.decompress raises the folder-level CrcError from inside `with fileish.open('wb')`, before the member-level comparison and its unlink: where the digest is "
                          "the folder CRC (wrong password on Copy+7zAES, damage) the wrong bytes stay on disk under the member's name", construct="folder CrcError leaves the file")
        ctx.floor(rule, m, 1, "decodes into a real output file in _extract_single")


def _crc_handler_unlinks(es, node: ast.AST, broad: bool = False) -> bool:
    """the handler that TAKES the exception (the first one of the try, in order, whose class matches) removes the file and re-raises.  For
    CrcError that is the first handler naming CrcError or a base class of it; for `broad` (any failure of a decoder) every handler up to and
    including the first catch-all must do so - an `except CrcError: raise` in front of a cleaning `except Exception` lets the CRC mismatch
    out with the file still there."""
    crc_bases = {"CrcError", "ArchiveError", "Exception", "BaseException"}

    def cleans(h) -> bool:
        return any(isinstance(x, ast.Call) and attr_tail(x) in ("unlink", "remove") for x in ast.walk(h)) and bool(h.body) and isinstance(h.body[-1], ast.Raise)
    for t in [t for t in walk(es.node) if isinstance(t, ast.Try) and any(node is x for st in t.body for x in ast.walk(st))]:
        for h in t.handlers:
            names = {x.id for x in ast.walk(h.type) if isinstance(x, ast.Name)} | {x.attr for x in ast.walk(h.type) if isinstance(x, ast.Attribute)} if h.type is not None else {"BaseException"}
            if broad:
                if not cleans(h):
                    break
                if names & {"Exception", "BaseException"}:
                    return True
            elif names & crc_bases:
                if cleans(h):
                    return True
                break
    return False


def r11_8(ctx: Ctx) -> None:
    """'with header encryption not the member names either' also when encryption is switched on after the constructor: set_encrypted_header(True)
    sets `header_encryption` (and the encoded-header mode it needs) to True in its truthy arm; the falsy arm switches it off."""
    f = shared.szf(ctx, "set_encrypted_header")
    par = f.params[1] if len(f.params) > 1 else None
    ctx.need(par is not None, "set_encrypted_header has no mode parameter")
    def sets(attr: str, val: bool, pol: bool) -> bool:
        return any(isinstance(n, ast.Assign) and norm(n.targets[0]) == f"self.{attr}" and isinstance(n.value, ast.Constant) and n.value.value is val
                   and any(isinstance(cd, ast.Name) and cd.id == par and p_ == pol for cd, p_ in q.facts_at(f, n)) for n in walk(f.node))
    ok = sets("header_encryption", True, True) and sets("encoded_header_mode", True, True) and sets("header_encryption", False, False)
    ctx.check(ok, "R11.8", f, f.node, "set_encrypted_header(True) switches header encryption (and the encoded header) on, False switches it off",
              "set_encrypted_header does not set `header_encryption` / `encoded_header_mode` to True for a true argument (or to False for a false one): an archive whose owner asked for "
              "header encryption is written with readable member names", construct="set_encrypted_header arms")


def r11_9(ctx: Ctx) -> None:
    """'with header encryption not the member names either' survives an append: the session's `header_encryption` flag comes from a constructor
    argument that defaults to False, and the append rewrites the whole header.  (a) Header._read records that the packed header it decoded was
    7zAES-coded (an assignment of True under `needs_password(<folder>.coders)` in the loop over the header's folders); (b) _prepare_append turns
    `header_encryption` (and the encoded-header mode) on under that record, before the snapshot for the fallback is taken."""
    h = ctx.prog.func("archiveinfo", "Header._read")
    marks = [n for n in walk(h.node) if isinstance(n, ast.Assign) and isinstance(n.targets[0], ast.Attribute) and norm(n.targets[0].value) == "self" and isinstance(n.value, ast.Constant)
             and n.value.value is True and any(pol and isinstance(cd, ast.Call) and attr_tail(cd) in ("needs_password", "is_crypto_id") for cd, pol in q.facts_at(h, n))]
    ctx.check(bool(marks), "R11.9", h, marks[0] if marks else h.node, "Header._read records that the packed header was encrypted",
              "Header._read decodes a 7zAES-coded packed header and keeps no record of it: an append session (which rewrites the whole header) cannot know that the member names "
              "were protected", construct="encrypted header not recorded")
    if not marks:
        return
    field = marks[0].targets[0].attr
    pa = shared.szf(ctx, "_prepare_append")
    cfg = cfg_of(pa.node)
    on = [n for n in walk(pa.node) if isinstance(n, ast.Assign) and norm(n.targets[0]) == "self.header_encryption" and isinstance(n.value, ast.Constant) and n.value.value is True
          and any(pol and isinstance(cd, ast.Attribute) and cd.attr == field for cd, pol in q.facts_at(pa, n))]
    enc = [n for n in walk(pa.node) if isinstance(n, ast.Assign) and norm(n.targets[0]) == "self.encoded_header_mode" and isinstance(n.value, ast.Constant) and n.value.value is True
           and any(pol and isinstance(cd, ast.Attribute) and cd.attr == field for cd, pol in q.facts_at(pa, n))]
    ctx.check(bool(on) and bool(enc), "R11.9", pa, on[0] if on else pa.node, "an append to an archive with an encrypted header keeps the header encrypted",
              f"_prepare_append does not switch `header_encryption` (and the encoded-header mode) on when the header it read was encrypted (`{field}`): "
              "`SevenZipFile(arc, 'a', password=pw)` rewrites the header in the clear - afterwards the archive opens without a password and lists every member name, the old ones included",
              construct="append drops header encryption")


def r11_11(ctx: Ctx, rule: str = "R11.11") -> None:
    """what _prepare_append decides about the header (an archive whose header was encrypted keeps it encrypted, R11.9) is not overwritten by the
    constructor afterwards: no assignment of `header_encryption` / `encoded_header_mode` in __init__ can be reached from the _prepare_append call."""
    f = shared.szf(ctx, "__init__")
    cfg = cfg_of(f.node)
    pa = [c for c in q.calls(f) if attr_tail(c) == "_prepare_append"]
    ctx.floor(rule, len(pa), 1, "_prepare_append call in the constructor")
    for n in [n for n in walk(f.node) if isinstance(n, ast.Assign) and norm(n.targets[0]) in ("self.header_encryption", "self.encoded_header_mode")]:
        late = any(cfg.reaches(q.node_for(f, c), q.node_for(f, n)) for c in pa)
        ctx.check(not late, rule, f, n, "the constructor sets the header flags before the archive is opened, not after",
                  f"`{norm(n)}` comes behind _prepare_append in the constructor: the header encryption an append adopts from an archive with an encrypted header is overwritten by the "
                  "argument's default - the append rewrites the header (all member names) without 7zAES", construct="header flags set after _prepare_append")


def run(ctx: Ctx) -> None:
    r11_11(ctx)
    from . import c15 as _c15r
    _c15r.r15_16(ctx, rule="R11.10")  # a failed append puts the header back as it was found (encrypted iff it was)
    r11_9(ctx)
    r11_8(ctx)
    r11_7(ctx)
    r11_6(ctx)
    shared.exits_do_not_swallow(ctx, "R11.5")
    r11_1(ctx)
    r11_2(ctx)
    r11_3(ctx)
    r11_4(ctx)
    from . import c07, c04
    c07.r07_6(ctx)
    c04.r04_2(ctx)
