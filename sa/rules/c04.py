"""C04 — damage is detected: checksum obligations."""
from __future__ import annotations

import ast
from typing import List, Optional

from ..cfg import cfg_of
from ..model import AnalysisError, Func, attr_tail, dotted, norm, walk
from ..report import Ctx
from .. import q
from . import shared

EXPLANATION = (
    "Static checksum-obligation analysis of the reader and writer: every stored digest the parser reads "
    "(start-header CRC, next-header CRC, encoded-header folder CRC, per-member digests, packed-stream CRCs) "
    "must be compared on every path that delivers the protected data and a mismatch must raise / return the "
    "failure verdict; the testzip verdict sentinel cannot collide with a raise site; the writer serialises a "
    "digest for the packed header stream. Decided on CFG paths, dominators and resolved call sites of the "
    "current source. Not decided: that CRC32 changes for a given damage (probabilistic)."
)
TRUSTED = ["CPython ast parser", "sa.cfg dominator computation", "sa.resolve call resolution (Worker.decompress call sites)"]


def _raises_name(f: Func, pseudo, names) -> bool:
    """all paths from pseudo end in a raise of one of `names` (or any raise if names empty) and never reach exit."""
    cfg = cfg_of(f.node)
    reach = cfg.reachable_from(pseudo)
    if cfg.exit in reach:
        return False
    ok = False
    for n in reach:
        if n.kind == "stmt" and isinstance(n.ast, ast.Raise):
            ok = True
            if names and n.ast.exc is not None:
                nm = dotted(n.ast.exc.func) if isinstance(n.ast.exc, ast.Call) else dotted(n.ast.exc)
                if nm.split(".")[-1] not in names:
                    return False
    return ok


def _mismatch_edge(cmp_: ast.Compare) -> Optional[bool]:
    """polarity of the test under which the two sides DIFFER."""
    if len(cmp_.ops) != 1:
        return None
    if isinstance(cmp_.ops[0], ast.NotEq):
        return True
    if isinstance(cmp_.ops[0], ast.Eq):
        return False
    return None


def _test_nodes_with(f: Func, pred):
    cfg = cfg_of(f.node)
    for n in cfg.nodes:
        if n.kind == "test":
            for sub in ast.walk(n.ast):
                if isinstance(sub, ast.Compare) and pred(sub):
                    yield n, sub


def _edge_of(test_node, cmp_: ast.Compare, want_mismatch: bool = True):
    """pseudo node (true/false) of test_node on which cmp_ signals mismatch, taking `not` and `and` into account."""
    pol = _mismatch_edge(cmp_)
    if pol is None:
        return None
    # the compare must be an atom of the test under polarity p
    for p in (True, False):
        for atom, ap in q.atoms(test_node.ast, p):
            if atom is cmp_ and ap == pol:
                return next(s for s in test_node.succ if s.kind == ("true" if p else "false"))
    return None


def r04_1(ctx: Ctx) -> None:
    # (a) start header CRC -----------------------------------------------------------------
    f = ctx.prog.func("archiveinfo", "SignatureHeader._read")
    hits = list(_test_nodes_with(f, lambda c: any(isinstance(x, ast.Attribute) and x.attr == "startheadercrc" for x in ast.walk(c))))
    if not hits:
        ctx.fail("R04.1", f, f.node, "start-header CRC is parsed but never compared in SignatureHeader._read",
                 construct="startheadercrc comparison")
    for tn, cmp_ in hits:
        edge = _edge_of(tn, cmp_)
        good = edge is not None and _raises_name(f, edge, set())
        other = cmp_.comparators[0] if any(isinstance(x, ast.Attribute) and x.attr == "startheadercrc" for x in ast.walk(cmp_.left)) else cmp_.left
        derived = q.derives_from(f, other, lambda s: isinstance(s, ast.Call) and attr_tail(s) == "calculate_crc32")
        ctx.check(good and derived, "R04.1", f, cmp_, "start-header CRC compared with computed CRC; mismatch raises",
                  "start-header CRC comparison does not raise on mismatch or is not against a computed CRC")
    # the three covered fields all flow into the computed crc (straight-line simulation)
    covered = _sig_crc_coverage(f)
    want = {"nextheaderofs", "nextheadersize", "nextheadercrc"}
    ctx.check(covered == want, "R04.1", f, f.node, "start-header CRC covers offset,size,crc fields",
              f"start-header CRC is computed over {sorted(covered)} instead of {sorted(want)}",
              construct="crc coverage of start header fields")

    # (b) next header CRC ------------------------------------------------------------------
    g = shared.szf(ctx, "_real_get_contents")
    hits = list(_test_nodes_with(g, lambda c: any(isinstance(x, ast.Attribute) and x.attr == "nextheadercrc" for x in ast.walk(c))))
    retrieve_calls = [c for c in q.calls(g) if "archiveinfo:Header.retrieve" in shared.targets_of(ctx, g, c)]
    ctx.floor("R04.1", len(retrieve_calls), 1, "Header.retrieve call in _real_get_contents")
    if not hits:
        ctx.fail("R04.1", g, g.node, "next-header CRC is never compared before the header is parsed", construct="nextheadercrc comparison")
    for tn, cmp_ in hits:
        edge = _edge_of(tn, cmp_)
        good = edge is not None and _raises_name(g, edge, set())
        other = cmp_.comparators[0] if any(isinstance(x, ast.Attribute) and x.attr == "nextheadercrc" for x in ast.walk(cmp_.left)) else cmp_.left
        derived = q.derives_from(g, other, lambda s: isinstance(s, ast.Call) and attr_tail(s) == "calculate_crc32")
        cfg = cfg_of(g.node)
        dom = all(cfg.dominates(tn, q.node_for(g, rc)) for rc in retrieve_calls)
        ctx.check(good and derived and dom, "R04.1", g, cmp_, "next-header CRC verified before Header.retrieve",
                  "next-header CRC check does not raise on mismatch, is not against a computed CRC, or does not dominate Header.retrieve")
        # the hashed bytes are the bytes handed to the parser
        for rc in retrieve_calls:
            buf_args = [a for a in rc.args if isinstance(a, ast.Name)]
            crc_calls = [s for s in ast.walk(other) if isinstance(s, ast.Call) and attr_tail(s) == "calculate_crc32"] or \
                        [s for v in q.sources_of(g, other) for s in ast.walk(v) if isinstance(s, ast.Call) and attr_tail(s) == "calculate_crc32"]
            same_buf = any(isinstance(n, ast.Name) and n.id in {a.id for a in buf_args} for cc in crc_calls for n in ast.walk(cc))
            ctx.check(same_buf, "R04.1", g, rc, "hashed buffer is the buffer parsed",
                      "the buffer whose CRC is verified is not the buffer passed to Header.retrieve")

    # (c) encoded header folder CRC ----------------------------------------------------------
    h = ctx.prog.func("archiveinfo", "Header._read")
    cfg = cfg_of(h.node)
    hits = list(_test_nodes_with(h, lambda c: any(isinstance(x, ast.Attribute) and x.attr == "crc" for x in ast.walk(c))
                                 and any(isinstance(x, ast.Call) and attr_tail(x) == "calculate_crc32" for x in ast.walk(c))))
    parse_calls = [c for c in q.calls(h) if attr_tail(c) == "_extract_header_info" and q.enclosing_loops(h, c) == []
                   and any(isinstance(a, ast.Name) and a.id != "buffer" for a in c.args)]
    second_parse = [c for c in q.calls(h) if attr_tail(c) == "_extract_header_info"]
    ctx.floor("R04.1", len(second_parse), 2, "_extract_header_info calls in Header._read")
    if not hits:
        ctx.fail("R04.1", h, h.node, "folder CRC of the encoded header is never compared", construct="encoded header folder crc comparison")
    for tn, cmp_ in hits:
        edge = _edge_of(tn, cmp_)
        good = edge is not None and _raises_name(h, edge, set())
        # the only guard allowed around the comparison: "<folder>.digestdefined"
        # guards that lie between the decoding and the comparison (dominated by the decode loop head)
        dec0 = [c for c in q.calls(h) if attr_tail(c) == "decompress"]
        ctx.floor("R04.1", len(dec0), 1, "decompress call in Header._read")
        dloops = q.enclosing_loops(h, dec0[0])
        head = cfg.by_ast.get(dloops[-1]) if dloops else q.node_for(h, dec0[0])
        between = []
        for gnode in cfg.dominators().get(tn, set()):
            if gnode.kind in ("true", "false") and gnode.owner is not None and gnode.owner is not head \
                    and cfg.dominates(head, gnode.owner):
                between.append((gnode.ast, gnode.kind == "true"))
        allowed = all(_mentions_attr(gc, "digestdefined") and gp for gc, gp in between)
        ctx.check(good and allowed, "R04.1", h, cmp_, "encoded-header folder CRC compared when defined; mismatch raises",
                  "encoded-header folder CRC comparison does not raise on mismatch or is skipped under a condition other than 'digest defined'")
        # decoded data reaches the second parse only through the comparison or the 'not defined' edge
        skip_edges = [n for n in cfg.nodes if n.kind == "false" and _mentions_attr(n.ast, "digestdefined")]
        dec = [c for c in q.calls(h) if attr_tail(c) == "decompress"]
        for d in dec:
            dn = q.node_for(h, d)
            for pc in second_parse[-1:]:
                pn = q.node_for(h, pc)
                bypass = cfg.reaches(dn, pn, avoid=[tn] + skip_edges)
                ctx.check(not bypass, "R04.1", h, pc, "decoded header reaches the parser only via the CRC comparison",
                          "a path from header decoding to the second parse bypasses the folder CRC comparison")


def _is_loop_cond(f: Func, cond: ast.AST) -> bool:
    for n in walk(f.node):
        if isinstance(n, ast.While) and n.test is cond:
            return True
    return False


def _is_if_guard(f: Func, cond: ast.AST) -> bool:
    for n in walk(f.node):
        if isinstance(n, ast.If) and n.test is cond:
            return True
    return False


def _mentions_attr(e: ast.AST, attr: str) -> bool:
    return any(isinstance(x, ast.Attribute) and x.attr == attr for x in ast.walk(e))


def _sig_crc_coverage(f: Func) -> set:
    """straight-line simulation: which header fields' raw bytes flow into the crc compared with startheadercrc."""
    data_of = {}  # variable -> field
    crc_cov = {}  # crc variable -> set of fields
    final: set = set()
    for st in f.node.body:
        if isinstance(st, ast.Assign) and isinstance(st.value, ast.Call):
            c = st.value
            tail = attr_tail(c)
            tgt = st.targets[0]
            if tail in shared.WIDTHS and isinstance(tgt, ast.Tuple) and len(tgt.elts) == 2:
                fld, dv = tgt.elts
                if isinstance(fld, ast.Attribute) and isinstance(dv, ast.Name):
                    data_of[dv.id] = fld.attr
                elif isinstance(dv, ast.Name):
                    data_of.pop(dv.id, None)
            elif tail == "calculate_crc32" and isinstance(tgt, ast.Name):
                cov = set()
                if c.args and isinstance(c.args[0], ast.Name) and c.args[0].id in data_of:
                    cov.add(data_of[c.args[0].id])
                elif c.args:
                    # hashed expression built from several data variables (e.g. a + b + c)
                    for n in ast.walk(c.args[0]):
                        if isinstance(n, ast.Name) and n.id in data_of:
                            cov.add(data_of[n.id])
                prev = c.args[1] if len(c.args) > 1 else next((k.value for k in c.keywords if k.arg == "value"), None)
                if isinstance(prev, ast.Name):
                    cov |= crc_cov.get(prev.id, set())
                crc_cov[tgt.id] = cov
        elif isinstance(st, ast.If):
            for n in ast.walk(st.test):
                if isinstance(n, ast.Name) and n.id in crc_cov:
                    final |= crc_cov[n.id]
    return final


def r04_2(ctx: Ctx) -> None:
    sites = shared.calls_to(ctx, "py7zr:Worker.decompress")
    ctx.floor("R04.2", len(sites), 3, "Worker.decompress call sites")
    for f, call in sites:
        cfg = cfg_of(f.node)
        cn = q.node_for(f, call)
        # result must be bound
        bound = None
        st = cn.ast
        if isinstance(st, ast.Assign) and st.value is call and isinstance(st.targets[0], ast.Name):
            bound = st.targets[0].id
        if bound is None:
            ctx.fail("R04.2", f, call, "CRC returned by Worker.decompress is discarded: a damaged member is delivered without its stored digest being compared")
            continue
        tests = []
        for tn, cmp_ in _test_nodes_with(f, lambda c: any(isinstance(x, ast.Name) and x.id == bound for x in ast.walk(c))
                                         and _mentions_attr(c, "crc32")):
            edge = _edge_of(tn, cmp_)
            if edge is not None and _raises_name(f, edge, {"CrcError"}):
                # the only other atoms allowed in the test: "<member>.crc32 is not None"
                extra_ok = True
                for atom, pol in q.atoms(tn.ast, True):
                    if atom is cmp_:
                        continue
                    t = q.is_none_test(atom)
                    if not (t and _mentions_attr(t[0], "crc32") and (t[1] != pol)):
                        extra_ok = False
                if extra_ok:
                    tests.append(tn)
        if not tests:
            ctx.fail("R04.2", f, call, "CRC returned by Worker.decompress is not compared with the member's stored digest (or mismatch does not raise CrcError)")
            continue
        through = cfg.every_path_to_exit_passes(cn, tests)
        # also: no path from the call back to the call (next iteration) avoiding the test
        loop_bypass = cfg.reaches(cn, cn, avoid=tests, normal_only=True)
        # guards between call and test other than digest-defined
        ctx.check(through and not loop_bypass, "R04.2", f, call, "decompress result compared with stored digest on every path",
                  "some path from Worker.decompress to the end of the member bypasses the digest comparison")


def r04_3(ctx: Ctx) -> None:
    rd = shared.sig_read_sequence(ctx)
    wr = shared.sig_write_sequence(ctx, "SignatureHeader.write")
    cc = shared.sig_write_sequence(ctx, "SignatureHeader.calccrc")
    f = ctx.prog.func("archiveinfo", "SignatureHeader.write")
    ctx.need(len(rd) == 4, f"SignatureHeader._read fixed-width field reads not recognised: {rd}")
    ctx.check(rd == wr, "R04.3", f, f.node, "_read and write agree on field order and widths",
              f"SignatureHeader._read consumes {rd} but write emits {wr}", construct="signature header field sequence")
    g = ctx.prog.func("archiveinfo", "SignatureHeader.calccrc")
    ctx.check(cc == wr[1:], "R04.3", g, g.node, "calccrc hashes the three trailing fields as write emits them",
              f"calccrc hashes {cc} but write emits {wr[1:]} after the start-header CRC", construct="calccrc field sequence")


def _crcerror_raises(ctx: Ctx):
    for f in ctx.prog.all_funcs:
        for n in walk(f.node):
            if isinstance(n, ast.Raise) and isinstance(n.exc, ast.Call) and dotted(n.exc.func).split(".")[-1] == "CrcError":
                yield f, n


def _nonnull_expr(f: Func, e: ast.AST, handler_name: Optional[str], raise_sites_ok: bool) -> bool:
    if isinstance(e, ast.Constant):
        return e.value is not None
    if isinstance(e, ast.JoinedStr):
        return True
    if isinstance(e, ast.BoolOp) and isinstance(e.op, ast.Or):
        return _nonnull_expr(f, e.values[-1], handler_name, raise_sites_ok)
    if isinstance(e, ast.IfExp):
        a = _nonnull_expr(f, e.body, handler_name, raise_sites_ok)
        t = q.is_none_test(e.test)
        if t is not None and q.same(t[0], e.body) and not t[1]:
            a = True
        if t is not None and q.same(t[0], e.orelse) and t[1]:
            return a and True
        return a and _nonnull_expr(f, e.orelse, handler_name, raise_sites_ok)
    # crce.args[2] / crce.filename
    if handler_name is not None:
        if isinstance(e, ast.Subscript) and isinstance(e.value, ast.Attribute) and e.value.attr == "args" \
                and isinstance(e.value.value, ast.Name) and e.value.value.id == handler_name:
            return raise_sites_ok
        if isinstance(e, ast.Attribute) and isinstance(e.value, ast.Name) and e.value.id == handler_name and e.attr == "filename":
            return raise_sites_ok
    if isinstance(e, ast.Call) and dotted(e.func) == "str":
        return True
    return False


def r04_4(ctx: Ctx) -> None:
    # raise sites: third argument may not be None
    sites = list(_crcerror_raises(ctx))
    ctx.floor("R04.4", len(sites), 2, "raise CrcError sites")
    all_ok = True
    bad_sites = []
    for f, r in sites:
        args = r.exc.args
        third = args[2] if len(args) >= 3 else next((k.value for k in r.exc.keywords if k.arg == "filename"), None)
        ok = third is not None and not (isinstance(third, ast.Constant) and third.value is None)
        if ok and isinstance(third, ast.Name):
            vals = q.assigned_values(f, third.id)
            if any(isinstance(v, ast.Constant) and v.value is None for v in vals):
                ok = False
            if third.id in f.params:
                # a parameter: every resolved call site must supply it, and not as a None constant
                a = f.node.args
                pos = [x.arg for x in a.posonlyargs + a.args]
                bound = pos[1:] if f.cls and not f.is_static else pos
                callers = shared.calls_to(ctx, f.qname)
                if not callers:
                    ok = False
                for g, c in callers:
                    idx = bound.index(third.id) if third.id in bound else None
                    v = c.args[idx] if idx is not None and idx < len(c.args) else next((k.value for k in c.keywords if k.arg == third.id), None)
                    if v is None or (isinstance(v, ast.Constant) and v.value is None):
                        ok = False
                        ctx.note(f"{g.qname}:{c.lineno} calls {f.qname} without a member name")
        if not ok:
            all_ok = False
            bad_sites.append((f, r))
    t = shared.szf(ctx, "testzip")
    handlers = [n for n in walk(t.node) if isinstance(n, ast.ExceptHandler)]
    ctx.floor("R04.4", len(handlers), 1, "exception handlers in testzip")
    # what does testzip return for "good"?
    cfg = cfg_of(t.node)
    good_returns = []
    for n in walk(t.node):
        if isinstance(n, ast.Return):
            inside_handler = any(n in list(ast.walk(h)) for h in handlers)
            if not inside_handler:
                good_returns.append(n)
    good_is_none = all(r.value is None or (isinstance(r.value, ast.Constant) and r.value.value is None) for r in good_returns) or not good_returns
    uses_sentinel = False
    for h in handlers:
        rets = [n for n in ast.walk(h) if isinstance(n, ast.Return)]
        falls = cfg.exit in cfg.reachable_from(cfg.by_ast[h]) and not rets
        if not rets:
            # handler that re-raises is fine; one that falls through to the good return is not
            hn = cfg.by_ast[h]
            reach = cfg.reachable_from(hn)
            if cfg.exit in reach:
                ctx.fail("R04.4", t, h, "an exception handler in testzip falls through to the 'archive is good' return")
            else:
                ctx.ok("R04.4", f"testzip handler {norm(h.type) if h.type else 'bare'} re-raises")
            continue
        for r in rets:
            if r.value is None:
                ctx.fail("R04.4", t, r, "an exception handler in testzip returns None, the 'archive is good' verdict")
                continue
            direct = _nonnull_expr(t, r.value, h.name, True)
            needs_sites = not _nonnull_expr(t, r.value, h.name, False)
            if not direct:
                ctx.fail("R04.4", t, r, "testzip's handler may return None (the 'good' verdict) for a damaged archive")
            elif needs_sites:
                uses_sentinel = True
                if all_ok:
                    ctx.ok("R04.4", f"testzip returns {norm(r.value)}; all {len(sites)} CrcError raise sites carry a non-None name")
            else:
                ctx.ok("R04.4", f"testzip handler returns provably non-None {norm(r.value)}")
    if uses_sentinel and good_is_none:
        for f, r in bad_sites:
            ctx.fail("R04.4", f, r, "CrcError raised with filename None: testzip() maps it to None, which is also its 'no damage' verdict "
                                   "(and the CLI 't' command then prints 'Everything is Ok' and exits 0)")
    for f, r in sites:
        if (f, r) not in bad_sites:
            ctx.ok("R04.4", f"{f.qname}: {norm(r)}")
    # test(): mismatch returns False
    r04_6(ctx)


def r04_6(ctx: Ctx) -> None:
    f = shared.szf(ctx, "test")
    cfg = cfg_of(f.node)
    rd = [c for c in q.calls(f) if attr_tail(c) == "_read_digest"]
    ctx.floor("R04.6", len(rd), 1, "_read_digest calls in test()")
    for c in rd:
        tn = q.node_for(f, c)
        ok = False
        if tn.kind == "test":
            for sub in ast.walk(tn.ast):
                if isinstance(sub, ast.Compare) and any(x is c for x in ast.walk(sub)):
                    edge = _edge_of(tn, sub)
                    if edge is not None:
                        reach = cfg.reachable_from(edge)
                        rets = [n for n in reach if n.kind == "stmt" and isinstance(n.ast, ast.Return)]
                        first = [n for n in edge.succ]
                        ok = bool(first) and all(isinstance(n.ast, ast.Return) and isinstance(n.ast.value, ast.Constant)
                                                 and n.ast.value.value is False for n in first)
        ctx.check(ok, "R04.6", f, c, "packed-stream CRC mismatch returns False", "a packed-stream CRC mismatch in test() does not return False")
        # position advance on every iteration
        loops = q.enclosing_loops(f, c)
        if loops:
            lp = loops[-1]
            adv = [n for n in walk(lp) if isinstance(n, ast.AugAssign) and isinstance(n.op, ast.Add) and isinstance(n.target, ast.Name)
                   and any(isinstance(a, ast.Name) and a.id == n.target.id for a in c.args)]
            good = False
            for a in adv:
                an = q.node_for(f, a)
                it = cfg.by_ast.get(lp)
                body = next((s for s in it.succ if s.kind == "body"), None) if it else None
                if body is not None and not cfg.reaches(body, it, avoid=[an], normal_only=True):
                    good = True
            ctx.check(good, "R04.6", f, lp, "position advances by every pack size", "the stream position in test() is not advanced on every iteration",
                      construct="for-loop position advance in test()")


def r04_5(ctx: Ctx) -> None:
    f = ctx.prog.func("archiveinfo", "Header._encode_header")
    # which digests does _encode_header set for the packed header stream?
    sets_folder_crc = [n for n in walk(f.node) if isinstance(n, ast.Assign) and any(isinstance(t, ast.Attribute) and t.attr == "crc" for t in n.targets)]
    sets_defined = [n for n in walk(f.node) if isinstance(n, ast.Assign) and any(isinstance(t, ast.Attribute) and t.attr == "digestdefined" for t in n.targets)
                    and isinstance(n.value, ast.Constant) and n.value.value is True]
    uw = ctx.prog.func("archiveinfo", "UnpackInfo.write")
    uw_emits = any(isinstance(n, ast.Attribute) and n.attr == "crc" and isinstance(n.ctx, ast.Load) for n in walk(uw.node)) and \
        any(isinstance(n, ast.Attribute) and n.attr == "CRC" for n in walk(uw.node))
    folder_path = bool(sets_folder_crc) and uw_emits and bool(sets_defined)
    # when the emission depends on a parameter of UnpackInfo.write, the header descriptor writer must switch it on
    gate_params = set()
    for n in walk(uw.node):
        if isinstance(n, ast.Call) and attr_tail(n) == "write_byte" and len(n.args) > 1 and norm(n.args[1]) == "PROPERTY.CRC":
            for cd, pol in q.facts_at(uw, n):
                for x in ast.walk(cd):
                    if isinstance(x, ast.Name) and x.id in uw.params and pol:
                        gate_params.add(x.id)
    # a gate that is (re)computed from another parameter (`if crc_defined is None: crc_defined = [write_crcs and ...]`) is switched by that one too
    for g_ in list(gate_params):
        for v in q.assigned_values(uw, g_):
            gate_params |= {x.id for x in ast.walk(v) if isinstance(x, ast.Name) and x.id in uw.params}
    if folder_path and gate_params:
        hw = ctx.prog.func("archiveinfo", "HeaderStreamsInfo.write")
        calls = [c for c in q.calls(hw) if norm(c.func).endswith("unpackinfo.write")]
        on = bool(calls) and all(any(k.arg in gate_params and not (isinstance(k.value, ast.Constant) and k.value.value in (False, None)) for k in c.keywords) for c in calls)
        folder_path = on
    # pack-stream digest path: crcs set, digestdefined set, enable_digests not forced False
    sets_crcs = [n for n in walk(f.node) if isinstance(n, ast.Assign) and any(isinstance(t, ast.Attribute) and t.attr == "crcs" for t in n.targets)]
    pk_defined = [n for n in walk(f.node) if isinstance(n, ast.Assign) and any(isinstance(t, ast.Attribute) and t.attr == "digestdefined"
                                                                                 and _mentions_attr(t, "packinfo") for t in n.targets)]
    disables = [n for n in walk(f.node) if isinstance(n, ast.Assign) and any(isinstance(t, ast.Attribute) and t.attr == "enable_digests" for t in n.targets)
                and isinstance(n.value, ast.Constant) and n.value.value is False]
    pack_path = bool(sets_crcs) and bool(pk_defined) and not disables
    ctx.check(folder_path or pack_path, "R04.5", f, (sets_folder_crc or sets_crcs or [f.node])[0],
              "packed header stream carries a serialised digest",
              "the packed (encoded) header is written without any digest: folder.crc is set but UnpackInfo.write never emits it, "
              "and packinfo digests are disabled; damage confined to the packed header is decoded and trusted",
              construct="digest of the packed header stream")


def r04_7(ctx: Ctx) -> None:
    """testzip's full-decode request (skip_notarget=False) reaches every folder task, sequential and parallel."""
    f = ctx.prog.func("py7zr", "Worker.extract")
    tgt = ctx.prog.func("py7zr", "Worker.extract_single")
    params = tgt.params[1:]
    ctx.need("skip_notarget" in params and "skip_notarget" in f.params, "skip_notarget parameter vanished")
    idx = params.index("skip_notarget")
    n = 0
    for c in q.calls(f):
        if attr_tail(c) == "extract_single":
            # lists of members without a stream have nothing to decode
            lst = c.args[1] if len(c.args) > 1 else None
            if isinstance(lst, ast.Name) and lst.id.startswith("empty"):
                continue
            n += 1
            v = c.args[idx] if idx < len(c.args) else next((k.value for k in c.keywords if k.arg == "skip_notarget"), None)
            ctx.check(v is not None and norm(v) == "skip_notarget", "R04.7", f, c, "skip_notarget forwarded to the folder extractor",
                      "a folder is extracted without forwarding skip_notarget: testzip() (skip_notarget=False) silently skips members it was asked to verify")
        tg = next((k.value for k in c.keywords if k.arg == "target"), None)
        args = next((k.value for k in c.keywords if k.arg == "args"), None)
        if tg is not None and isinstance(args, ast.Tuple) and norm(tg).endswith("extract_single"):
            n += 1
            v = args.elts[idx] if idx < len(args.elts) else None
            ctx.check(v is not None and norm(v) == "skip_notarget", "R04.7", f, c, "skip_notarget forwarded to the parallel folder task",
                      "the parallel folder task is started without skip_notarget: with testzip() on a multi-folder archive nothing is decoded and every damage is certified as good")
    ctx.floor("R04.7", n, 3, "folder extractor invocations in Worker.extract")
    tz = shared.szf(ctx, "testzip")
    ex = [c for c in q.calls(tz) if attr_tail(c) == "extract"]
    ok = bool(ex) and any(k.arg == "skip_notarget" and isinstance(k.value, ast.Constant) and k.value.value is False for k in ex[0].keywords)
    ctx.check(ok, "R04.7", tz, ex[0] if ex else tz.node, "testzip requests a full decode", "testzip() does not request skip_notarget=False")
    # every member is registered (None) so that all of them are decoded for checking
    reg = [c for c in q.calls(tz) if attr_tail(c) == "register_filelike"]
    ok = bool(reg) and q.enclosing_loops(tz, reg[0]) and norm(q.enclosing_loops(tz, reg[0])[-1].iter) == "self.files"
    ctx.check(bool(ok), "R04.7", tz, tz.node, "testzip registers every member for checking", "testzip() does not register every member", construct="testzip registrations")


def r04_8(ctx: Ctx, rule: str = "R04.8") -> None:
    """a CrcError raised by the member decoder is not lost on the way to the caller: the catch-all around the folder task
    re-raises or forwards into the error channel, the decision being made on that channel (shared with R13.3)."""
    from . import c13
    w = ctx.prog.func("py7zr", "Worker.extract_single")
    n = 0
    work = [c for c in q.calls(w) if "py7zr:Worker._extract_single" in shared.targets_of(ctx, w, c)]
    for tr in [t for t in walk(w.node) if isinstance(t, ast.Try) and any(c in list(ast.walk(st)) for st in t.body for c in work)]:
        def _names(h):
            return ({x.id for x in ast.walk(h.type) if isinstance(x, ast.Name)} if h.type is not None else {"BaseException"})
        catch_all = any(_names(h) & {"Exception", "BaseException"} for h in tr.handlers)
        ctx.check(catch_all, rule, w, tr.handlers[0] if tr.handlers else tr, "the folder task's body is wrapped by a catch-all",
                  f"the handler around the folder task catches only {sorted(set().union(*[_names(h) for h in tr.handlers])) if tr.handlers else []}: any other exception (e.g. lzma.LZMAError "
                  "from a damaged stream, zlib.error, MemoryError) is raised inside the worker thread and lost; extraction, testzip() and the CLI report success",
                  construct="folder task catch-all")
        if not catch_all:
            n += 1
    for h in [x for x in walk(w.node) if isinstance(x, ast.ExceptHandler)]:
        names = {x.id for x in ast.walk(h.type) if isinstance(x, ast.Name)} if h.type is not None else {"BaseException"}
        if not names & {"Exception", "BaseException"}:
            continue
        chans = {x.func.value.id for x in ast.walk(h) if isinstance(x, ast.Call) and isinstance(x.func, ast.Attribute) and x.func.attr in ("put", "put_nowait")
                 and isinstance(x.func.value, ast.Name) and x.func.value.id in w.params}
        if len(chans) != 1:
            ctx.fail(rule, w, h, "the catch-all around the folder task forwards the exception into no (or more than one) channel parameter")
            continue
        n += 1
        c13.handler_branches(ctx, rule, w, h, next(iter(chans)))
    ctx.floor(rule, n, 1, "catch-all handlers in the folder task")


def r04_12(ctx: Ctx) -> None:
    """(a) test() certifies ('return True') only when every packed stream was verified: the arm of the per-stream loop that has no CRC to
    compare against records that fact, and the final verdict depends on it.  (b) the packed-stream CRC of an ENCODED HEADER is compared:
    it is a stored digest like any other and may be the only one that protects the header stream (folder CRC absent)."""
    t = shared.szf(ctx, "test")
    loops = [n for n in walk(t.node) if isinstance(n, ast.For) and any(isinstance(c, ast.Call) and attr_tail(c) == "_read_digest" for c in ast.walk(n))]
    ctx.floor("R04.12", len(loops), 1, "per-stream verification loop of test()")
    for lp in loops:
        # names assigned inside the loop on a path that does NOT call _read_digest
        skipped_flags = set()
        for st in ast.walk(lp):
            if isinstance(st, ast.If):
                for arm in (st.body, st.orelse):
                    if arm and not any(isinstance(c, ast.Call) and attr_tail(c) == "_read_digest" for x in arm for c in ast.walk(x)):
                        skipped_flags |= {tg.id for x in arm for a in ast.walk(x) if isinstance(a, ast.Assign) for tg in a.targets if isinstance(tg, ast.Name)}
        # does every iteration verify? (no conditional around _read_digest)
        cfg = cfg_of(t.node)
        dn = [q.node_for(t, c) for c in q.calls(t) if attr_tail(c) == "_read_digest"]
        it = cfg.by_ast[lp]
        body = next(s_ for s_ in it.succ if s_.kind == "body")
        always = not cfg.reaches(body, it, avoid=dn, normal_only=True)
        trues = [r for r in walk(t.node) if isinstance(r, ast.Return) and r.value is not None and cfg.reaches(it, q.node_for(t, r)) and not any(x is r for x in ast.walk(lp))]
        for r in trues:
            certifies = any(isinstance(x, ast.Constant) and x.value is True for x in ast.walk(r.value))  # `return True`, `return True if flag else None`
            depends = any(isinstance(x, ast.Name) and x.id in skipped_flags for x in ast.walk(r.value)) or \
                any(any(isinstance(x, ast.Name) and x.id in skipped_flags for x in ast.walk(cd)) for cd, pol in q.facts_at(t, r))
            ctx.check(always or depends or not certifies, "R04.12", t, r, "test() returns True only when every packed stream was verified",
                      "test() skips the packed streams that have no CRC and still ends in `return True`: damage in such a stream is certified as good while extractall() raises "
                      "CrcError for the same archive (partially defined packed-stream CRCs)", construct="test() verdict with unverified streams")
        # the stored CRCs are a COMPACT list (one entry per defined stream): the cursor into it is a counter of its own, stepped by one in the arm
        # that consumed an entry - and only there
        for sub in [x for x in ast.walk(lp) if isinstance(x, ast.Subscript) and isinstance(x.slice, ast.Name) and "crcs" in norm(q.expand_locals(t, x.value)) + norm(x.value)]:
            cur = sub.slice.id
            loopvars = {x.id for x in ast.walk(lp.target) if isinstance(x, ast.Name)}
            if cur in loopvars:
                continue  # indexed by the stream number: R08.11 judges that convention
            arm = next((st for st in ast.walk(lp) if isinstance(st, ast.If) and any(sub is x for b_ in st.body for x in ast.walk(b_))), None)
            steps = [x for x in ast.walk(lp) if isinstance(x, ast.AugAssign) and isinstance(x.op, ast.Add) and norm(x.target) == cur]
            in_arm = [x for x in steps if arm is not None and any(x is y for b_ in arm.body for y in ast.walk(b_)) and isinstance(x.value, ast.Constant) and x.value.value == 1]
            inits = [n.value for n in walk(t.node) if isinstance(n, ast.Assign) and any(isinstance(tg, ast.Name) and tg.id == cur for tg in n.targets) and isinstance(n.value, ast.Constant)]
            ok = len(steps) == 1 and len(in_arm) == 1 and bool(inits) and all(v.value == 0 for v in inits)
            ctx.check(ok, "R04.12", t, sub, f"the cursor `{cur}` into the compact CRC list starts at 0 and is stepped by one per verified stream",
                      f"test() reads `{norm(sub)}` but does not step `{cur}` by exactly one in the arm that consumed the entry (starting from 0): from the second defined stream on, the CRC of "
                      "one stream is compared with the stored CRC of another - an intact archive is reported damaged, or damage goes unseen", construct="compact crc cursor in test()")
    h = ctx.prog.func("archiveinfo", "Header._read")
    def _is_crc(e: ast.AST) -> bool:
        return any(isinstance(x, ast.Call) and attr_tail(x) == "calculate_crc32" for x in ast.walk(e)) or \
            q.derives_from(h, e, lambda s_: isinstance(s_, ast.Call) and attr_tail(s_) == "calculate_crc32")
    cmps = [n for n in walk(h.node) if isinstance(n, ast.Compare) and len(n.ops) == 1 and any(isinstance(x, ast.Attribute) and x.attr == "crcs" for x in ast.walk(n))
            and (_is_crc(n.left) or _is_crc(n.comparators[0]))]
    ok = False
    hcfg = cfg_of(h.node)
    for c in cmps:
        for tn in hcfg.nodes:
            if tn.kind == "test" and any(x is c for x in ast.walk(tn.ast)):
                pol = _mismatch_edge(c)
                if pol is not None:
                    # the edge of the TEST on which the comparison is known to say 'mismatch' (the test may negate or combine it)
                    for epol in (True, False):
                        if any(a_ is c and ap == pol for a_, ap in q.atoms(tn.ast, epol)):
                            e = next((s_ for s_ in tn.succ if s_.kind == ("true" if epol else "false")), None)
                            ok = ok or (e is not None and q.branch_always_raises(hcfg, e))
    # the CRC is taken by READING the packed header: the handle is put back to the start of the packed header before the decoder reads it
    pre = [c for c in q.calls(h) if attr_tail(c) in ("read_fully", "read") and q.enclosing_loops(h, c) and any(
        isinstance(x, ast.Call) and attr_tail(x) == "calculate_crc32" for x in ast.walk(q.enclosing_loops(h, c)[-1]))]
    decs = [c for c in q.calls(h) if attr_tail(c) == "decompress"]
    backs = [q.node_for(h, c) for c in q.calls(h) if attr_tail(c) == "seek" and c.args and "src_start" in norm(c.args[0])]
    for pc in pre:
        for dc in decs:
            okb = not hcfg.reaches(q.node_for(h, pc), q.node_for(h, dc), avoid=backs)
            ctx.check(okb, "R04.12", h, pc, "the handle is put back after the packed header was read for its CRC",
                      "Header._read reads the packed header once to take its CRC and then hands the handle to the decoder without seeking back to the start of the packed header: "
                      "an archive whose packed header carries a packed-stream CRC cannot be opened (the decoder starts behind its data)", construct="no seek back after header CRC")
    ctx.check(ok, "R04.12", h, h.node, "the packed-stream CRC of an encoded header is compared",
              "Header._read parses the packed-stream CRC of an encoded header (PackInfo kCRC) but never compares it: when that CRC is the only digest of the header stream "
              "(no folder CRC - a legal layout) a flipped bit in the packed header is accepted and members are delivered under wrong names, or not at all, with success",
              construct="encoded header pack crc")


def r04_14(ctx: Ctx) -> None:
    """the folder CRC is due when the folder has been DELIVERED, not when the file position has reached the end of the folder: the decoder
    reads its input lazily (a trailing end marker need not have been fetched), so a condition on `tell()` can leave the folder CRC
    uncompared for ever and testzip() certifies damaged data."""
    f = ctx.prog.func("py7zr", "Worker.decompress")
    checks = [c for c in q.calls(f) if attr_tail(c) == "check_crc"]
    ctx.floor("R04.14", len(checks), 1, "folder CRC comparison in Worker.decompress")
    for c in checks:
        facts = q.facts_at(f, c)
        positional = [cd for cd, pol in facts if any(isinstance(x, ast.Call) and attr_tail(x) == "tell" for x in ast.walk(cd))]
        ctx.check(not positional, "R04.14", f, c, "the folder CRC comparison does not wait for a file position",
                  f"the folder CRC is compared only under `{norm(positional[0]) if positional else ''}`: the decoder fetches its input lazily, so for a folder whose data is complete "
                  "before the last packed byte is read (LZMA2 end marker, last substream of zero bytes) the comparison never happens and testzip() returns None for damaged data",
                  construct="folder crc waits for tell()")


def r04_15(ctx: Ctx) -> None:
    """testzip() never certifies without having looked: None is its verdict 'every member is good' (the zipfile contract), so every normal
    way out of the function passes the decode of all folders (`self.worker.extract(..., skip_notarget=False)`); a guard that cannot do the
    work (wrong mode) leaves by raising, not by `return None`."""
    tz = shared.szf(ctx, "testzip")
    cfg = cfg_of(tz.node)
    ex = [c for c in q.calls(tz) if attr_tail(c) == "extract" and "worker" in norm(c.func.value)]
    ctx.floor("R04.15", len(ex), 1, "worker.extract call in testzip")
    ok = cfg.every_path_to_exit_passes(cfg.entry, [q.node_for(tz, c) for c in ex])
    early = [r for r in walk(tz.node) if isinstance(r, ast.Return) and cfg.reaches(cfg.entry, q.node_for(tz, r), avoid=[q.node_for(tz, c) for c in ex])]
    ctx.check(ok, "R04.15", tz, early[0] if early else tz.node, "testzip() returns only after every folder has been decoded",
              "testzip() can return (None = 'no bad member') on a path that decodes nothing" + (f": `{norm(early[0])}` under `{' and '.join(norm(cd) if pol else 'not ' + norm(cd) for cd, pol in q.facts_at(tz, early[0]))}`" if early else "")
              + ": on an archive opened for appending a damaged existing member is certified as good, where the same bytes opened with 'r' name the bad member",
              construct="testzip certifies without decoding")


def r04_16(ctx: Ctx) -> None:
    """test() hashes each packed stream where it lies: _read_digest positions the handle at the `pos` it was given before its first read
    (every fixture of the suite has no packed-stream CRCs, so test() never gets this far there); without the seek the CRC of some other
    bytes is compared and an intact archive is reported damaged - or damage goes unseen."""
    f = shared.szf(ctx, "_read_digest")
    cfg = cfg_of(f.node)
    reads = [c for c in q.calls(f) if attr_tail(c) == "read" and "fp" in norm(c.func.value)]
    seeks = [c for c in q.calls(f) if attr_tail(c) == "seek" and "fp" in norm(c.func.value) and c.args and norm(c.args[0]) == f.params[1]]
    if not reads:
        # the blocks may come from a generator of the class (`for data in self._blocks(size):`): its call stands for the reads, provided the generator
        # itself reads the archive handle and does not move it
        cls_ = ctx.prog.cls("SevenZipFile", "py7zr")
        for c in q.calls(f):
            if isinstance(c.func, ast.Attribute) and norm(c.func.value) == "self":
                m = ctx.prog.method(cls_, c.func.attr)
                if m is not None and any(isinstance(y, (ast.Yield, ast.YieldFrom)) for y in walk(m.node)) and any(
                        isinstance(x, ast.Call) and attr_tail(x) == "read" and "fp" in norm(x.func.value) for x in walk(m.node)) and not any(
                        isinstance(x, ast.Call) and attr_tail(x) == "seek" for x in walk(m.node)):
                    reads.append(c)
    ctx.floor("R04.16", len(reads), 1, "reads in _read_digest")
    for r in reads:
        ok = any(cfg.dominates(q.node_for(f, s_), q.node_for(f, r)) for s_ in seeks)
        ctx.check(ok, "R04.16", f, r, "_read_digest seeks to the stream's position before reading",
                  f"_read_digest reads from wherever the handle stands instead of `{f.params[1]}`: test() compares the stored CRC of a packed stream with the CRC of other bytes",
                  construct="_read_digest without seek")
    callers = [c for c in q.calls(shared.szf(ctx, "test")) if attr_tail(c) == "_read_digest"]
    for c in callers:
        tf = shared.szf(ctx, "test")
        ok = len(c.args) >= 2 and (q.derives_from(tf, c.args[0], lambda x: isinstance(x, ast.Attribute) and x.attr == "packpos", depth=4) or "packpos" in norm(c.args[0])) \
            and (q.derives_from(tf, c.args[1], lambda x: isinstance(x, ast.Attribute) and x.attr == "packsizes", depth=4) or "packsizes" in norm(c.args[1]))
        ctx.check(ok, "R04.16", shared.szf(ctx, "test"), c, "test() hashes stream i at its position with its size", "test() does not pass (position, packsizes[i]) to _read_digest", construct="test digest args")


def r04_17(ctx: Ctx, rule: str = "R04.17") -> None:
    """every CrcError of the extraction path is raised for a MISMATCH of a DEFINED digest, in that polarity: the raise stands under 'the stored
    CRC is not None' (a member or folder without a stored CRC is legal and must be delivered) and under the false outcome of the comparison
    (`computed != stored` true, `check_crc()` false).  The suite's fixtures all carry member CRCs and none a folder CRC on the main streams, so
    neither a dropped guard nor an inverted folder check is visible to it."""
    n = 0
    for qual in ("Worker.decompress", "Worker._extract_single", "Worker._check"):
        f = ctx.prog.func("py7zr", qual)
        for r in [x for x in walk(f.node) if isinstance(x, ast.Raise) and x.exc is not None and isinstance(x.exc, ast.Call) and (dotted(x.exc.func) or "").endswith("CrcError")]:
            n += 1
            facts = q.facts_at(f, r)
            defined = any((nt := q.is_none_test(cd)) is not None and "crc" in norm(nt[0]).lower() and nt[1] != pol for cd, pol in facts)
            mismatch = any(isinstance(cd, ast.Compare) and len(cd.ops) == 1 and "crc" in norm(cd).lower() and not isinstance(cd.comparators[0], ast.Constant) and
                           ((isinstance(cd.ops[0], ast.NotEq) and pol) or (isinstance(cd.ops[0], ast.Eq) and not pol)) for cd, pol in facts) or \
                any(isinstance(cd, ast.Call) and attr_tail(cd) == "check_crc" and not pol for cd, pol in facts)
            ctx.check(defined and mismatch, rule, f, r, f"{qual}: CrcError only for a mismatch of a stored CRC",
                      f"{qual} raises CrcError " + ("without knowing that a CRC is stored (`... is not None` is not among the conditions): a member or folder without a digest - legal - cannot be "
                                                    "extracted" if not defined else "under the wrong outcome of the comparison: data that matches its CRC is refused and data that does not is delivered"),
                      construct=f"{qual} CrcError conditions")
    ctx.floor(rule, n, 4, "CrcError raises on the extraction path")


def r04_18(ctx: Ctx, rule: str = "R04.18") -> None:
    """the three predicates of SevenZipDecompressor that the extraction path builds its verdicts on say what their names say (the suite has no
    folder CRC on main streams and no truncated stream, so their polarity is invisible to it): check_crc() is `stored == computed`;
    is_finished() is `no sizes or delivered >= the folder's size`; is_exhausted() is the conjunction 'no packed input left' and 'nothing unused'
    and 'nothing buffered' and 'the last call moved nothing' - every conjunct with this polarity; and `_progress` is 'something came out, or the
    counters moved'."""
    c = ctx.prog.cls("SevenZipDecompressor", "compressor")

    def ret(name):
        m = ctx.prog.method(c, name)
        if m is None:
            return None, None
        rs = [r for r in walk(m.node) if isinstance(r, ast.Return)]
        if len(rs) == 1 and len([st for st in m.node.body if not (isinstance(st, ast.Expr) and isinstance(st.value, ast.Constant))]) == 1:
            return m, rs[0].value
        # early returns, named sub-conditions: the body as one expression
        return m, shared.body_as_expr(m.node)
    if any(ctx.prog.method(c, n_) is None for n_ in ("check_crc", "is_finished", "is_exhausted")) or ctx.prog.module("helpers").funcs.get("read_fully") is None:
        ctx.note(f"{rule}: a predicate of SevenZipDecompressor (or helpers.read_fully) does not exist in this tree; the rules that need it report that")
        return
    m, v = ret("check_crc")
    ok = shared.same_predicate(v, [({"self.crc": 7, "self.digest": 7}, True), ({"self.crc": 7, "self.digest": 8}, False), ({"self.crc": 0, "self.digest": 0}, True)])
    ctx.check(ok, rule, m, m.node, "check_crc() is `self.crc == self.digest`", f"check_crc() returns `{norm(v) if v is not None else 'nothing'}`: the folder CRC comparison is inverted or void - "
              "a folder whose data matches its CRC is refused, or damage under a folder CRC is delivered", construct="check_crc shape")
    m, v = ret("is_finished")
    ok = shared.same_predicate(v, [({"len(self.unpacksizes)": 0, "self._delivered": 0, "self.unpacksizes[-1]": 10**9}, True),
                                   ({"len(self.unpacksizes)": 2, "self._delivered": 5, "self.unpacksizes[-1]": 9}, False),
                                   ({"len(self.unpacksizes)": 2, "self._delivered": 9, "self.unpacksizes[-1]": 9}, True),
                                   ({"len(self.unpacksizes)": 1, "self._delivered": 0, "self.unpacksizes[-1]": 0}, True),
                                   ({"len(self.unpacksizes)": 1, "self._delivered": 12, "self.unpacksizes[-1]": 9}, True)])
    ctx.check(ok, rule, m, m.node, "is_finished() is `no sizes or delivered >= folder size`", f"is_finished() returns `{norm(v) if v is not None else 'nothing'}`: the folder CRC is compared too early "
              "(after the first member of a solid folder: valid archive refused) or never (damage certified)", construct="is_finished shape")
    m, v = ret("is_exhausted")
    cases = []
    for left in (0, 5):
        for unused in (0, 3):
            for buf, pos in ((4, 4), (4, 2)):
                for prog in (False, True):
                    cases.append(({"self.input_size": 100, "self.consumed": 100 - left, "len(self._unused)": unused, "len(self._buf)": buf, "self._pos": pos, "self._progress": prog},
                                  left == 0 and unused == 0 and buf <= pos and not prog))
    ok = shared.same_predicate(v, cases)
    ctx.check(ok, rule, m, m.node, "is_exhausted() is the four-fold conjunction", f"is_exhausted() returns `{norm(v) if v is not None else 'nothing'}`: the stall detection of the decode loops "
              "raises 'unexpected end of data' on valid streams (a stage still holds data) or never (a truncated stream spins for ever)", construct="is_exhausted shape")
    d = ctx.prog.method(c, "decompress")
    pr = [n for n in walk(d.node) if isinstance(n, ast.Assign) and norm(n.targets[0]) == "self._progress"]
    def prog_ok(e: ast.AST) -> bool:
        # leaves: the length of what came out, and the (consumed, unpacked) pair before and after
        pairs = [x for x in ast.walk(e) if isinstance(x, ast.Tuple) and "consumed" in norm(x)]
        befores = [x for x in ast.walk(e) if isinstance(x, ast.Name) and x.id not in ("res", "self", "len", "sum", "bool")]
        if len(pairs) != 1 or not befores:
            return False
        now, bef = norm(pairs[0]), norm(befores[0])
        return shared.same_predicate(e, [({"len(res)": 3, now: (1, 2), bef: (1, 2), "res": b"abc"}, True), ({"len(res)": 0, now: (1, 2), bef: (1, 2), "res": b""}, False),
                                         ({"len(res)": 0, now: (2, 2), bef: (1, 2), "res": b""}, True), ({"len(res)": 0, now: (1, 3), bef: (1, 2), "res": b""}, True)])
    ok = bool(pr) and all(prog_ok(n.value) for n in pr)
    ctx.check(ok, rule, d, pr[0] if pr else d.node, "`_progress` = output produced or counters moved", "SevenZipDecompressor.decompress does not set `_progress` to 'output was produced or the "
              "input/stage counters moved': the decode loops take a working decoder for a stalled one (valid archive refused) or the reverse", construct="_progress shape")
    rf = ctx.prog.func("helpers", "read_fully")
    loops = [l for l in walk(rf.node) if isinstance(l, ast.While)]
    ok = False
    for l in loops:
        reads = [n for n in ast.walk(l) if isinstance(n, ast.Assign) and isinstance(n.value, ast.Call) and attr_tail(n.value) == "read" and n.value.args
                 and isinstance(n.value.args[0], ast.BinOp) and isinstance(n.value.args[0].op, ast.Sub) and norm(n.value.args[0].left) == rf.params[1] and norm(n.value.args[0].right).startswith("len(")]
        brk = any(isinstance(t, ast.If) and any(isinstance(y, ast.Break) for y in t.body) and "== 0" in norm(t.test) for t in ast.walk(l))
        grows = any(isinstance(n, ast.AugAssign) and isinstance(n.op, ast.Add) for n in ast.walk(l))
        ok = ok or (bool(reads) and brk and grows)
    ctx.check(ok, rule, rf, rf.node, "read_fully reads `size - len(data)` until it has all or a read comes back empty",
              "helpers.read_fully does not keep reading the missing `size - len(data)` bytes: a read that comes back short where a multi-volume file changes volume truncates a header or "
              "a packed block", construct="read_fully shape")


def r04_20(ctx: Ctx, rule: str = "R04.20") -> None:
    """the folder CRC is taken over everything the decoder DELIVERS, and 'the whole folder has been delivered' is counted the same way:
    every normal path through SevenZipDecompressor.decompress passes `self.digest = calculate_crc32(<returned>, self.digest)` and
    `self._delivered += len(<returned>)` for the very buffer it returns.  Without the first the folder CRC compares with 0 (every
    archive protected by folder CRCs only is 'damaged', or - with the comparison gone too - none is); without the second is_finished()
    never answers True and the folder CRC is never looked at."""
    d = ctx.prog.func("compressor", "SevenZipDecompressor.decompress")
    cfg = cfg_of(d.node)
    rets = [r for r in walk(d.node) if isinstance(r, ast.Return) and r.value is not None]
    ctx.floor(rule, len(rets), 1, "returns of SevenZipDecompressor.decompress")
    for r in rets:
        rv = norm(r.value)
        dig = [n for n in walk(d.node) if isinstance(n, ast.Assign) and norm(n.targets[0]) == "self.digest" and isinstance(n.value, ast.Call) and attr_tail(n.value) == "calculate_crc32"
               and len(n.value.args) == 2 and norm(n.value.args[0]) == rv and norm(n.value.args[1]) == "self.digest"]
        cnt = [n for n in walk(d.node) if isinstance(n, ast.AugAssign) and isinstance(n.op, ast.Add) and norm(n.target) == "self._delivered" and norm(n.value) == f"len({rv})"]
        ok1 = bool(dig) and cfg.every_path_to_exit_passes(cfg.entry, [q.node_for(d, n) for n in dig])
        ok2 = bool(cnt) and cfg.every_path_to_exit_passes(cfg.entry, [q.node_for(d, n) for n in cnt])
        # the buffer is not changed between the accounting and the return
        later = [n for n in walk(d.node) if isinstance(n, (ast.Assign, ast.AugAssign)) and any(norm(t) == rv for t in (n.targets if isinstance(n, ast.Assign) else [n.target]))
                 and any(cfg.reaches(q.node_for(d, a_), q.node_for(d, n)) for a_ in dig + cnt)]
        ctx.check(ok1 and not later, rule, d, r, "the folder digest covers every delivered byte",
                  f"some path through SevenZipDecompressor.decompress returns `{rv}` without `self.digest = calculate_crc32({rv}, self.digest)` (or changes the buffer afterwards): the folder "
                  "CRC is compared with a digest that does not cover what was delivered - damage in a folder protected by its folder CRC only goes unnoticed, or every such archive is refused",
                  construct="folder digest accounting")
        ctx.check(ok2 and not later, rule, d, r, "the delivered-byte count covers every delivered byte",
                  f"some path through SevenZipDecompressor.decompress returns `{rv}` without `self._delivered += len({rv})`: is_finished() never (or too early) answers True and the folder CRC is "
                  "never (or prematurely) compared", construct="delivered count accounting")


def r04_21(ctx: Ctx, rule: str = "R04.21") -> None:
    """(a) test() certifies the archive after the LAST packed stream: the return that can answer True stands outside every loop of the function
    (inside the loop over the streams it answers after the first one - damage in a later stream is certified).  (b) the CRC record of the folders
    is written back whenever SOME folder has a CRC (`any(<vector>)` over the very vector that is written): with `all(...)` an append drops the
    folder CRCs of an archive where only some folders carry one, and damage in those folders' members is no longer noticed."""
    t = shared.szf(ctx, "test")
    rets = [r for r in walk(t.node) if isinstance(r, ast.Return) and r.value is not None and any(isinstance(x, ast.Constant) and x.value is True for x in ast.walk(r.value))]
    ctx.floor(rule, len(rets), 1, "certifying return of test()")
    for r in rets:
        ctx.check(not q.enclosing_loops(t, r), rule, t, r, "test() certifies only after every packed stream was looked at",
                  f"`{norm(r)}` stands inside the loop over the packed streams: test() answers after the first stream - a flipped bit in the second packed stream of an archive that was "
                  "appended to is certified True although its members no longer extract", construct="test() answers inside the stream loop")
    w = ctx.prog.func("archiveinfo", "UnpackInfo.write")
    cfg = cfg_of(w.node)
    marks = [c for c in q.calls(w) if attr_tail(c) == "write_byte" and len(c.args) > 1 and norm(c.args[1]) == "PROPERTY.CRC"]
    ctx.floor(rule, len(marks), 1, "CRC record in UnpackInfo.write")
    for mk in marks:
        vecs = [c for c in q.calls(w) if attr_tail(c) == "write_boolean" and len(c.args) > 1 and cfg.dominates(q.node_for(w, mk), q.node_for(w, c))]
        vname = norm(vecs[0].args[1]) if vecs else None
        ok = any(pol and isinstance(cd, ast.Call) and dotted(cd.func) == "any" and cd.args and norm(cd.args[0]) == vname for cd, pol in q.facts_at(w, mk))
        ctx.check(ok, rule, w, mk, "the folders' CRC record is written whenever some folder has a CRC",
                  f"the CRC record of UnpackInfo.write is not written under `any({vname})`: when only some folders carry a CRC (an older multi-member folder without per-member digests next to "
                  "py7zr's own folders) an append drops it, and damage in that folder's members extracts as wrong content while testzip() answers None", construct="folder CRC record condition")


def run(ctx: Ctx) -> None:
    r04_21(ctx)
    r04_20(ctx)
    r04_18(ctx)
    r04_17(ctx)
    r04_16(ctx)
    r04_15(ctx)
    r04_14(ctx)
    from . import c11 as _c11
    _c11.r11_7(ctx, rule="R04.13")  # no wrong bytes stay on disk behind a CrcError
    r04_12(ctx)
    from . import c12 as _c12
    _c12.r12_6(ctx, rule="R04.11")  # testzip must give its verdict for stream archives too
    from . import c06 as _c06x
    _c06x.dispatch_forwards_skip(ctx, "R04.10")
    from . import c05 as _c05x
    _c05x.countdown_by_delivered(ctx, shared.read_closure(ctx), "R04.19")  # an intact archive is not called damaged because a read came back short
    _c06x.r06_3(ctx)  # the flag Header._read keys the packed header's CRC comparison on is set wherever the folder CRC is stored
    from . import c09 as _c09x
    _c09x.r09_4(ctx)  # testzip registers no targets: a folder skipped although skip_notarget is off is a folder certified unread
    shared.exits_do_not_swallow(ctx, "R04.9")
    r04_7(ctx)
    r04_8(ctx)
    from . import c10
    c10.r10_3(ctx)
    r04_1(ctx)
    r04_2(ctx)
    r04_3(ctx)
    r04_4(ctx)
    r04_5(ctx)
