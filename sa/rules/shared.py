"""Rule pieces used by more than one property."""
from __future__ import annotations

import ast
from typing import Dict, List, Optional, Sequence, Tuple

from ..cfg import cfg_of
from ..model import AnalysisError, Func, attr_tail, dotted, norm, walk
from ..report import Ctx
from .. import q

READ_API = ["getnames", "namelist", "getinfo", "archiveinfo", "needs_password", "list", "extractall", "extract",
            "reset", "test", "testzip"]
WRITE_API = ["write", "writeall", "writef", "writestr"]

WIDTHS = {"read_uint32": 4, "write_uint32": 4, "read_real_uint64": 8, "write_real_uint64": 8}


def szf(ctx: Ctx, name: str) -> Func:
    return ctx.prog.func("py7zr", f"SevenZipFile.{name}")


def read_roots(ctx: Ctx) -> List[Func]:
    roots = [szf(ctx, n) for n in READ_API]
    roots.append(szf(ctx, "__init__"))
    roots.append(szf(ctx, "close"))
    roots.append(szf(ctx, "__exit__"))
    return roots


WRITE_MODE_ONLY = ["_write_flush", "_prepare_write", "_prepare_append"]


def read_closure(ctx: Ctx) -> Dict[str, Func]:
    """closure of the read-mode API; the write-mode-only helpers (reachable from close()/__init__ only under a mode test,
    which R12.1 verifies) are cut."""
    stop = [szf(ctx, n).qname for n in WRITE_MODE_ONLY]
    return ctx.res.closure(read_roots(ctx), stop=stop)


def strict_reads(ctx: Ctx, rule: str) -> None:
    """the header primitives raise on a short read (ord / struct.unpack), they never turn missing bytes into a value."""
    prims = {"read_byte": 1, "read_uint32": 4, "read_real_uint64": 8, "read_uint64": 1}
    for name, width in prims.items():
        f = ctx.prog.func("archiveinfo", name)
        reads = [c for c in q.calls(f) if attr_tail(c) == "read" and c.args and isinstance(c.args[0], ast.Constant) and c.args[0].value == width]
        # or through the completing read of helpers (a multi-volume file may answer short where it changes volume): same width, still strict - unpack raises on fewer bytes
        reads += [c for c in q.calls(f) if (dotted(c.func) or "").split(".")[-1] == "read_fully" and len(c.args) == 2 and isinstance(c.args[1], ast.Constant) and c.args[1].value == width]
        if not reads:
            ctx.fail(rule, f, f.node, f"{name} no longer reads exactly {width} byte(s)", construct=f"{name} read width")
            continue
        rd = reads[0]
        # how is the value of that read converted?
        strict = False
        pm = None
        from ..model import parent_map
        pm = parent_map(f.node)
        par = pm.get(rd)
        if isinstance(par, ast.Call) and dotted(par.func) in ("ord",):
            strict = True
        if isinstance(par, ast.Assign) and isinstance(par.targets[0], ast.Name):
            var = par.targets[0].id
            for c in q.calls(f):
                if dotted(c.func).split(".")[-1] in ("unpack", "ord") and any(isinstance(a, ast.Name) and a.id == var for a in c.args):
                    strict = True
        if isinstance(par, ast.Call) and dotted(par.func).split(".")[-1] == "unpack":
            strict = True
        ctx.check(strict, rule, f, rd, f"{name}: a short read raises (ord / struct.unpack)",
                  f"{name} converts the bytes it read with a function that accepts fewer bytes than requested (e.g. int.from_bytes): at end of data it returns 0 instead of raising, so "
                  "loops bounded by a declared count run in full on a truncated header and a torn file can parse as an empty archive")


def targets_of(ctx: Ctx, f: Func, call: ast.Call) -> List[str]:
    cs = ctx.res.site_of(f, call)
    return [t.qname for t in cs.targets] if cs else []


def calls_to(ctx: Ctx, target_q: str, within: Optional[Sequence[Func]] = None) -> List[Tuple[Func, ast.Call]]:
    out = []
    for cs in ctx.res.sites:
        if within is not None and cs.caller not in within:
            continue
        if any(t.qname == target_q for t in cs.targets):
            out.append((cs.caller, cs.node))
    return out


# ------------------------------------------------------------------------------------------
# signature header layout: field sequences of _read / calccrc / write
FIELDS = ("startheadercrc", "nextheaderofs", "nextheadersize", "nextheadercrc")


def sig_read_sequence(ctx: Ctx) -> List[Tuple[str, int]]:
    """[(field, width)] in the order SignatureHeader._read consumes them (fixed-width reads only)."""
    f = ctx.prog.func("archiveinfo", "SignatureHeader._read")
    seq = []
    for st in f.node.body:
        if isinstance(st, ast.Assign) and isinstance(st.value, ast.Call) and attr_tail(st.value) in WIDTHS:
            w = WIDTHS[attr_tail(st.value)]
            tgt = st.targets[0]
            first = tgt.elts[0] if isinstance(tgt, ast.Tuple) else tgt
            if isinstance(first, ast.Attribute) and first.attr in FIELDS:
                seq.append((first.attr, w))
    return seq


def sig_write_sequence(ctx: Ctx, qual: str, handle_param_index: int = 1) -> List[Tuple[str, int]]:
    """[(field-or-const, width)] of the fixed-width writes in a SignatureHeader writer, in CFG order."""
    f = ctx.prog.func("archiveinfo", qual)
    seq = []
    for st in f.node.body:
        if isinstance(st, ast.Expr) and isinstance(st.value, ast.Call) and attr_tail(st.value) in WIDTHS:
            c = st.value
            w = WIDTHS[attr_tail(c)]
            v = c.args[1] if len(c.args) > 1 else None
            if isinstance(v, ast.Attribute):
                seq.append((v.attr, w))
            else:
                seq.append((norm(v) if v is not None else "?", w))
    return seq


def exits_do_not_swallow(ctx: Ctx, rule: str) -> None:
    """no context manager of the package suppresses exceptions: `__exit__` returns nothing / None / False on every path.  A truthy
    return value (`return self`, `return True`) makes every `with` block over that object swallow CrcError, PasswordRequired, ... :
    extraction through such a writer reports success for damaged data or a wrong password."""
    n = 0
    for mod in ctx.prog.modules.values():
        for cls in mod.classes.values():
            m = cls.methods.get("__exit__")
            if m is None:
                continue
            n += 1
            bad = [r for r in walk(m.node) if isinstance(r, ast.Return) and r.value is not None
                   and not (isinstance(r.value, ast.Constant) and (r.value.value is None or r.value.value is False))]
            ctx.check(not bad, rule, m, bad[0] if bad else m.node, f"{m.qname} returns None/False (exceptions propagate out of the with block)",
                      f"{m.qname} returns `{norm(bad[0].value) if bad else ''}`: a truthy result of __exit__ suppresses the exception raised inside the with block "
                      "(CrcError / PasswordRequired / write errors vanish and the caller sees success)", construct=f"{cls.name}.__exit__ result")
    ctx.floor(rule, n, 2, "__exit__ methods in the package")


def mode_guard_consts(f: Func, node: ast.AST) -> set:
    """mode constants under which `node` runs: from the enclosing if-tests (true arms) of the forms `mode == "w"`, `"w" in self.mode`,
    `mode in ("w", "x")` and disjunctions of those (an `or` whose disjuncts are ALL mode tests contributes every constant)."""
    from ..model import parent_map
    pm = parent_map(f.node)

    def consts_of(test: ast.AST):
        if isinstance(test, ast.BoolOp) and isinstance(test.op, ast.Or):
            parts = [consts_of(v) for v in test.values]
            return set().union(*parts) if all(p is not None for p in parts) else None
        if isinstance(test, ast.Compare) and len(test.ops) == 1:
            l, r = test.left, test.comparators[0]
            if isinstance(test.ops[0], ast.Eq) and "mode" in norm(l) and isinstance(r, ast.Constant) and isinstance(r.value, str):
                return {r.value}
            if isinstance(test.ops[0], ast.In) and isinstance(l, ast.Constant) and isinstance(l.value, str) and "mode" in norm(r):
                return {l.value}
            if isinstance(test.ops[0], ast.In) and "mode" in norm(l) and isinstance(r, (ast.Tuple, ast.List, ast.Set)):
                vals = {e.value for e in r.elts if isinstance(e, ast.Constant) and isinstance(e.value, str)}
                return vals or None
        return None

    out = set()
    cur = node
    while cur in pm:
        par = pm[cur]
        if isinstance(par, ast.If) and any(cur is x for x in par.body):
            tests = par.test.values if isinstance(par.test, ast.BoolOp) and isinstance(par.test.op, ast.And) else [par.test]
            for t in tests:
                c = consts_of(t)
                if c:
                    out |= c
        cur = par
    return out


def layout_agreement(ctx: Ctx, rule: str) -> None:
    """reader and writer of every header section use the same primitives per record (sa/layout.py): the multisets of
    (primitive kind, repeated?) collected from `_read` + helpers and from `write` + helpers are equal for the mandatory part and for every
    record both sides know.  Decides the SHAPE of the layout (which fields, which widths, inside or outside the loops), not the counts."""
    from .. import layout
    n = 0
    for cls in layout.SECTIONS:
        c = ctx.prog.cls(cls, "archiveinfo")
        rd, wr = c.methods.get("_read"), c.methods.get("write")
        ctx.need(rd is not None and wr is not None, f"{cls}._read / {cls}.write not found")
        diffs, rl, wl = layout.compare(ctx.prog, cls)
        n += 1 + len([l for l in rl if l in wl])
        if not diffs:
            ctx.ok(rule, f"{cls}: reader and writer agree on the primitives of the mandatory part and of records {sorted(set(rl) & set(wl))}")
        for lab, a, b in diffs:
            ctx.fail(rule, rd, rd.node, f"{cls} record {lab}: the reader consumes [{layout.fmt(a)}] but the writer emits [{layout.fmt(b)}] "
                     "(N NUMBER, Q 8 bytes, L 4 bytes, B byte, V bit vector, S UTF-16 string, R raw bytes, @x sub-section; * = repeated): a field is missing, has another "
                     "width or sits on the other side of a loop on one side, so what py7zr writes is not what it reads back", construct=f"{cls} layout {lab}")
    ctx.floor(rule, n, 15, "section records compared between reader and writer")



def off_when(f, e: ast.AST, pred, depth: int = 4) -> bool:
    """is the boolean expression `e` guaranteed FALSE whenever a sub-expression satisfying `pred` is true?  (`parallel = not A and not B`
    is off when A: a conjunct is the negation of something that is on when A).  Mentioning the flag is not enough: `parallel = A and ...`
    mentions it too."""
    if isinstance(e, ast.Constant):
        return e.value is False
    if isinstance(e, ast.UnaryOp) and isinstance(e.op, ast.Not):
        return on_when(f, e.operand, pred, depth)
    if isinstance(e, ast.BoolOp):
        vals = [off_when(f, v, pred, depth) for v in e.values]
        return any(vals) if isinstance(e.op, ast.And) else all(vals)
    if isinstance(e, ast.Name) and depth > 0 and not pred(e):
        vals = q.assigned_values(f, e.id)
        return bool(vals) and all(off_when(f, v, pred, depth - 1) for v in vals)
    return False


def on_when(f, e: ast.AST, pred, depth: int = 4) -> bool:
    """is `e` guaranteed TRUE whenever a sub-expression satisfying `pred` is true?"""
    if pred(e):
        return True
    if isinstance(e, ast.UnaryOp) and isinstance(e.op, ast.Not):
        return off_when(f, e.operand, pred, depth)
    if isinstance(e, ast.BoolOp):
        vals = [on_when(f, v, pred, depth) for v in e.values]
        return all(vals) if isinstance(e.op, ast.And) else any(vals)
    if isinstance(e, ast.Name) and depth > 0:
        vals = q.assigned_values(f, e.id)
        return bool(vals) and all(on_when(f, v, pred, depth - 1) for v in vals)
    return False


def implied_by_all(e: ast.AST, atoms) -> bool:
    """is `e` true whenever ALL the atoms (normalised texts) are true?  e is one of the atoms, a conjunction of such, or a disjunction with one."""
    if norm(e) in atoms:
        return True
    if isinstance(e, ast.BoolOp):
        vals = [implied_by_all(v, atoms) for v in e.values]
        return all(vals) if isinstance(e.op, ast.And) else any(vals)
    return False



class Unknown(Exception):
    pass


def truth_eval(e: ast.AST, leaves: Dict[str, object]):
    """value of a side-effect-free expression when the leaves (normalised source text -> value) are given: a finite truth table instead of a
    comparison of texts, so that `a == b` and `not (a != b)` are the same predicate.  Raises Unknown for anything else."""
    t = norm(e)
    if t in leaves:
        return leaves[t]
    if isinstance(e, ast.Constant):
        return e.value
    if isinstance(e, ast.BoolOp):
        vals = [truth_eval(v, leaves) for v in e.values]
        return all(vals) if isinstance(e.op, ast.And) else any(vals)
    if isinstance(e, ast.UnaryOp):
        v = truth_eval(e.operand, leaves)
        if isinstance(e.op, ast.Not):
            return not v
        if isinstance(e.op, ast.USub):
            return -v
    if isinstance(e, ast.BinOp) and isinstance(e.op, (ast.Add, ast.Sub)):
        l, r = truth_eval(e.left, leaves), truth_eval(e.right, leaves)
        return l + r if isinstance(e.op, ast.Add) else l - r
    if isinstance(e, ast.Compare):
        import operator
        ops = {ast.Eq: operator.eq, ast.NotEq: operator.ne, ast.Lt: operator.lt, ast.LtE: operator.le, ast.Gt: operator.gt, ast.GtE: operator.ge, ast.Is: operator.is_, ast.IsNot: operator.is_not}
        left = truth_eval(e.left, leaves)
        for op, c in zip(e.ops, e.comparators):
            right = truth_eval(c, leaves)
            if type(op) not in ops or not ops[type(op)](left, right):
                if type(op) not in ops:
                    raise Unknown(norm(e))
                return False
            left = right
        return True
    if isinstance(e, ast.IfExp):
        return truth_eval(e.body if truth_eval(e.test, leaves) else e.orelse, leaves)
    if isinstance(e, ast.Call) and dotted(e.func) == "bool" and len(e.args) == 1:
        return bool(truth_eval(e.args[0], leaves))
    raise Unknown(t)


def same_predicate(e: Optional[ast.AST], cases) -> bool:
    """does the expression have the expected value in every case?  cases: [(leaves, expected)]"""
    if e is None:
        return False
    try:
        return all(bool(truth_eval(e, lv)) == exp for lv, exp in cases)
    except Unknown:
        return False
