"""Rule pieces used by more than one property."""
from __future__ import annotations

import ast
from typing import Dict, List, Optional, Sequence, Tuple

from ..cfg import cfg_of
from ..model import AnalysisError, Func, attr_tail, dotted, norm, walk
from ..report import Ctx
from .. import q

READ_API = ["getnames", "namelist", "getinfo", "archiveinfo", "needs_password", "list", "extractall", "extract",
            "reset", "test", "testzip"]
WRITE_API = ["write", "writeall", "writef", "writestr"]

WIDTHS = {"read_uint32": 4, "write_uint32": 4, "read_real_uint64": 8, "write_real_uint64": 8}


def szf(ctx: Ctx, name: str) -> Func:
    return ctx.prog.func("py7zr", f"SevenZipFile.{name}")


def read_roots(ctx: Ctx) -> List[Func]:
    roots = [szf(ctx, n) for n in READ_API]
    roots.append(szf(ctx, "__init__"))
    roots.append(szf(ctx, "close"))
    roots.append(szf(ctx, "__exit__"))
    return roots


WRITE_MODE_ONLY = ["_write_flush", "_prepare_write", "_prepare_append"]


def read_closure(ctx: Ctx) -> Dict[str, Func]:
    """closure of the read-mode API; the write-mode-only helpers (reachable from close()/__init__ only under a mode test,
    which R12.1 verifies) are cut."""
    stop = [szf(ctx, n).qname for n in WRITE_MODE_ONLY]
    return ctx.res.closure(read_roots(ctx), stop=stop)


def strict_reads(ctx: Ctx, rule: str) -> None:
    """the header primitives raise on a short read (ord / struct.unpack), they never turn missing bytes into a value."""
    prims = {"read_byte": 1, "read_uint32": 4, "read_real_uint64": 8, "read_uint64": 1}
    for name, width in prims.items():
        f = ctx.prog.func("archiveinfo", name)
        reads = [c for c in q.calls(f) if attr_tail(c) == "read" and c.args and isinstance(c.args[0], ast.Constant) and c.args[0].value == width]
        # or through the completing read of helpers (a multi-volume file may answer short where it changes volume): same width, still strict - unpack raises on fewer bytes
        reads += [c for c in q.calls(f) if (dotted(c.func) or "").split(".")[-1] == "read_fully" and len(c.args) == 2 and isinstance(c.args[1], ast.Constant) and c.args[1].value == width]
        if not reads:
            ctx.fail(rule, f, f.node, f"{name} no longer reads exactly {width} byte(s)", construct=f"{name} read width")
            continue
        rd = reads[0]
        # how is the value of that read converted?
        strict = False
        pm = None
        from ..model import parent_map
        pm = parent_map(f.node)
        par = pm.get(rd)
        if isinstance(par, ast.Call) and dotted(par.func) in ("ord",):
            strict = True
        if isinstance(par, ast.Assign) and isinstance(par.targets[0], ast.Name):
            var = par.targets[0].id
            for c in q.calls(f):
                if dotted(c.func).split(".")[-1] in ("unpack", "ord") and any(isinstance(a, ast.Name) and a.id == var for a in c.args):
                    strict = True
        if isinstance(par, ast.Call) and dotted(par.func).split(".")[-1] == "unpack":
            strict = True
        ctx.check(strict, rule, f, rd, f"{name}: a short read raises (ord / struct.unpack)",
                  f"{name} converts the bytes it read with a function that accepts fewer bytes than requested (e.g. int.from_bytes): at end of data it returns 0 instead of raising, so "
                  "loops bounded by a declared count run in full on a truncated header and a torn file can parse as an empty archive")


def targets_of(ctx: Ctx, f: Func, call: ast.Call) -> List[str]:
    cs = ctx.res.site_of(f, call)
    return [t.qname for t in cs.targets] if cs else []


def calls_to(ctx: Ctx, target_q: str, within: Optional[Sequence[Func]] = None) -> List[Tuple[Func, ast.Call]]:
    out = []
    for cs in ctx.res.sites:
        if within is not None and cs.caller not in within:
            continue
        if any(t.qname == target_q for t in cs.targets):
            out.append((cs.caller, cs.node))
    return out


# ------------------------------------------------------------------------------------------
# signature header layout: field sequences of _read / calccrc / write
FIELDS = ("startheadercrc", "nextheaderofs", "nextheadersize", "nextheadercrc")


def sig_read_sequence(ctx: Ctx) -> List[Tuple[str, int]]:
    """[(field, width)] in the order SignatureHeader._read consumes them (fixed-width reads only)."""
    f = ctx.prog.func("archiveinfo", "SignatureHeader._read")
    seq = []
    for st in f.node.body:
        if isinstance(st, ast.Assign) and isinstance(st.value, ast.Call) and attr_tail(st.value) in WIDTHS:
            w = WIDTHS[attr_tail(st.value)]
            tgt = st.targets[0]
            first = tgt.elts[0] if isinstance(tgt, ast.Tuple) else tgt
            if isinstance(first, ast.Attribute) and first.attr in FIELDS:
                seq.append((first.attr, w))
    return seq


def sig_write_sequence(ctx: Ctx, qual: str, handle_param_index: int = 1) -> List[Tuple[str, int]]:
    """[(field-or-const, width)] of the fixed-width writes in a SignatureHeader writer, in CFG order."""
    f = ctx.prog.func("archiveinfo", qual)
    seq = []
    for st in f.node.body:
        if isinstance(st, ast.Expr) and isinstance(st.value, ast.Call) and attr_tail(st.value) in WIDTHS:
            c = st.value
            w = WIDTHS[attr_tail(c)]
            v = c.args[1] if len(c.args) > 1 else None
            if isinstance(v, ast.Attribute):
                seq.append((v.attr, w))
            else:
                seq.append((norm(v) if v is not None else "?", w))
    return seq


def exits_do_not_swallow(ctx: Ctx, rule: str) -> None:
    """no context manager of the package suppresses exceptions: `__exit__` returns nothing / None / False on every path.  A truthy
    return value (`return self`, `return True`) makes every `with` block over that object swallow CrcError, PasswordRequired, ... :
    extraction through such a writer reports success for damaged data or a wrong password."""
    n = 0
    for mod in ctx.prog.modules.values():
        for cls in mod.classes.values():
            m = cls.methods.get("__exit__")
            if m is None:
                continue
            n += 1
            bad = [r for r in walk(m.node) if isinstance(r, ast.Return) and r.value is not None
                   and not (isinstance(r.value, ast.Constant) and (r.value.value is None or r.value.value is False))]
            ctx.check(not bad, rule, m, bad[0] if bad else m.node, f"{m.qname} returns None/False (exceptions propagate out of the with block)",
                      f"{m.qname} returns `{norm(bad[0].value) if bad else ''}`: a truthy result of __exit__ suppresses the exception raised inside the with block "
                      "(CrcError / PasswordRequired / write errors vanish and the caller sees success)", construct=f"{cls.name}.__exit__ result")
    ctx.floor(rule, n, 2, "__exit__ methods in the package")


def mode_guard_consts(f: Func, node: ast.AST) -> set:
    """mode constants under which `node` runs: from the enclosing if-tests (true arms) of the forms `mode == "w"`, `"w" in self.mode`,
    `mode in ("w", "x")` and disjunctions of those (an `or` whose disjuncts are ALL mode tests contributes every constant)."""
    from ..model import parent_map
    pm = parent_map(f.node)

    def consts_of(test: ast.AST):
        if isinstance(test, ast.BoolOp) and isinstance(test.op, ast.Or):
            parts = [consts_of(v) for v in test.values]
            return set().union(*parts) if all(p is not None for p in parts) else None
        if isinstance(test, ast.Compare) and len(test.ops) == 1:
            l, r = test.left, test.comparators[0]
            if isinstance(test.ops[0], ast.Eq) and "mode" in norm(l) and isinstance(r, ast.Constant) and isinstance(r.value, str):
                return {r.value}
            if isinstance(test.ops[0], ast.In) and isinstance(l, ast.Constant) and isinstance(l.value, str) and "mode" in norm(r):
                return {l.value}
            if isinstance(test.ops[0], ast.In) and "mode" in norm(l) and isinstance(r, (ast.Tuple, ast.List, ast.Set)):
                vals = {e.value for e in r.elts if isinstance(e, ast.Constant) and isinstance(e.value, str)}
                return vals or None
        return None

    out = set()
    cur = node
    while cur in pm:
        par = pm[cur]
        if isinstance(par, ast.If) and any(cur is x for x in par.body):
            tests = par.test.values if isinstance(par.test, ast.BoolOp) and isinstance(par.test.op, ast.And) else [par.test]
            for t in tests:
                c = consts_of(t)
                if c:
                    out |= c
        cur = par
    return out


def layout_agreement(ctx: Ctx, rule: str) -> None:
    """reader and writer of every header section use the same primitives per record (sa/layout.py): the multisets of
    (primitive kind, repeated?) collected from `_read` + helpers and from `write` + helpers are equal for the mandatory part and for every
    record both sides know.  Decides the SHAPE of the layout (which fields, which widths, inside or outside the loops), not the counts."""
    from .. import layout
    n = 0
    for cls in layout.SECTIONS:
        c = ctx.prog.cls(cls, "archiveinfo")
        rd, wr = c.methods.get("_read"), c.methods.get("write")
        ctx.need(rd is not None and wr is not None, f"{cls}._read / {cls}.write not found")
        diffs, rl, wl = layout.compare(ctx.prog, cls)
        n += 1 + len([l for l in rl if l in wl])
        if not diffs:
            ctx.ok(rule, f"{cls}: reader and writer agree on the primitives of the mandatory part and of records {sorted(set(rl) & set(wl))}")
        for lab, a, b in diffs:
            ctx.fail(rule, rd, rd.node, f"{cls} record {lab}: the reader consumes [{layout.fmt(a)}] but the writer emits [{layout.fmt(b)}] "
                     "(N NUMBER, Q 8 bytes, L 4 bytes, B byte, V bit vector, S UTF-16 string, R raw bytes, @x sub-section; * = repeated): a field is missing, has another "
                     "width or sits on the other side of a loop on one side, so what py7zr writes is not what it reads back", construct=f"{cls} layout {lab}")
    ctx.floor(rule, n, 15, "section records compared between reader and writer")



def off_when(f, e: ast.AST, pred, depth: int = 4) -> bool:
    """is the boolean expression `e` guaranteed FALSE whenever a sub-expression satisfying `pred` is true?  (`parallel = not A and not B`
    is off when A: a conjunct is the negation of something that is on when A).  Mentioning the flag is not enough: `parallel = A and ...`
    mentions it too."""
    if isinstance(e, ast.Constant):
        return e.value is False
    if isinstance(e, ast.UnaryOp) and isinstance(e.op, ast.Not):
        return on_when(f, e.operand, pred, depth)
    if isinstance(e, ast.BoolOp):
        vals = [off_when(f, v, pred, depth) for v in e.values]
        return any(vals) if isinstance(e.op, ast.And) else all(vals)
    if isinstance(e, ast.Name) and depth > 0 and not pred(e):
        vals = q.assigned_values(f, e.id)
        return bool(vals) and all(off_when(f, v, pred, depth - 1) for v in vals)
    return False


def on_when(f, e: ast.AST, pred, depth: int = 4) -> bool:
    """is `e` guaranteed TRUE whenever a sub-expression satisfying `pred` is true?"""
    if pred(e):
        return True
    if isinstance(e, ast.UnaryOp) and isinstance(e.op, ast.Not):
        return off_when(f, e.operand, pred, depth)
    if isinstance(e, ast.BoolOp):
        vals = [on_when(f, v, pred, depth) for v in e.values]
        return all(vals) if isinstance(e.op, ast.And) else any(vals)
    if isinstance(e, ast.Name) and depth > 0:
        vals = q.assigned_values(f, e.id)
        return bool(vals) and all(on_when(f, v, pred, depth - 1) for v in vals)
    return False


def implied_by_all(e: ast.AST, atoms) -> bool:
    """is `e` true whenever ALL the atoms (normalised texts) are true?  e is one of the atoms, a conjunction of such, or a disjunction with one."""
    if norm(e) in atoms:
        return True
    if isinstance(e, ast.BoolOp):
        vals = [implied_by_all(v, atoms) for v in e.values]
        return all(vals) if isinstance(e.op, ast.And) else any(vals)
    return False



class Unknown(Exception):
    pass


def truth_eval(e: ast.AST, leaves: Dict[str, object]):
    """value of a side-effect-free expression when the leaves (normalised source text -> value) are given: a finite truth table instead of a
    comparison of texts, so that `a == b` and `not (a != b)` are the same predicate.  Raises Unknown for anything else."""
    t = norm(e)
    if t in leaves:
        return leaves[t]
    if isinstance(e, ast.Constant):
        return e.value
    if isinstance(e, ast.BoolOp):
        vals = [truth_eval(v, leaves) for v in e.values]
        return all(vals) if isinstance(e.op, ast.And) else any(vals)
    if isinstance(e, ast.UnaryOp):
        v = truth_eval(e.operand, leaves)
        if isinstance(e.op, ast.Not):
            return not v
        if isinstance(e.op, ast.USub):
            return -v
    if isinstance(e, ast.BinOp) and isinstance(e.op, (ast.Add, ast.Sub)):
        l, r = truth_eval(e.left, leaves), truth_eval(e.right, leaves)
        return l + r if isinstance(e.op, ast.Add) else l - r
    if isinstance(e, ast.Compare):
        import operator
        ops = {ast.Eq: operator.eq, ast.NotEq: operator.ne, ast.Lt: operator.lt, ast.LtE: operator.le, ast.Gt: operator.gt, ast.GtE: operator.ge, ast.Is: operator.is_, ast.IsNot: operator.is_not}
        left = truth_eval(e.left, leaves)
        for op, c in zip(e.ops, e.comparators):
            right = truth_eval(c, leaves)
            if type(op) not in ops or not ops[type(op)](left, right):
                if type(op) not in ops:
                    raise Unknown(norm(e))
                return False
            left = right
        return True
    if isinstance(e, ast.IfExp):
        return truth_eval(e.body if truth_eval(e.test, leaves) else e.orelse, leaves)
    if isinstance(e, ast.Call) and dotted(e.func) == "bool" and len(e.args) == 1:
        return bool(truth_eval(e.args[0], leaves))
    raise Unknown(t)


def same_predicate(e: Optional[ast.AST], cases) -> bool:
    """does the expression have the expected value in every case?  cases: [(leaves, expected)]"""
    if e is None:
        return False
    try:
        return all(bool(truth_eval(e, lv)) == exp for lv, exp in cases)
    except Unknown:
        return False


def windowed_traversal(ctx: Ctx, rule: str) -> None:
    """a list that is worked off in windows (`for k in range(a, N, S): ... X[k : k + S] ...`) is worked off completely: a == 0, N is
    `len(X)` of the very list that is sliced and the stride equals the window length.  A bound taken from another quantity (the window
    width, a count of something else) leaves the tail of the list untouched: folder tasks never started, members never produced."""
    n = 0
    for f in ctx.prog.all_funcs:
        for lp in [x for x in walk(f.node) if isinstance(x, ast.For)]:
            it = lp.iter
            if not (isinstance(it, ast.Call) and dotted(it.func) == "range" and len(it.args) == 3 and isinstance(lp.target, ast.Name)):
                continue
            k = lp.target.id
            a, bound, stride = it.args
            for sl in [x for st in lp.body for x in ast.walk(st) if isinstance(x, ast.Subscript) and isinstance(x.slice, ast.Slice)]:
                lo, hi = sl.slice.lower, sl.slice.upper
                if not (isinstance(lo, ast.Name) and lo.id == k and isinstance(hi, ast.BinOp) and isinstance(hi.op, ast.Add)
                        and any(isinstance(x, ast.Name) and x.id == k for x in (hi.left, hi.right))):
                    continue
                n += 1
                win = hi.right if (isinstance(hi.left, ast.Name) and hi.left.id == k) else hi.left
                seq = norm(sl.value)
                b = q.expand_locals(f, bound, keep=[seq] if isinstance(sl.value, ast.Name) else [])
                whole = isinstance(b, ast.Call) and dotted(b.func) == "len" and len(b.args) == 1 and norm(b.args[0]) == seq
                from_zero = isinstance(a, ast.Constant) and a.value == 0
                same_stride = norm(q.expand_locals(f, stride)) == norm(q.expand_locals(f, win))
                ctx.check(whole and from_zero and same_stride, rule, f, lp, f"{f.qname}: `{seq}` is traversed completely in windows of {norm(win)}",
                          f"`for {k} in {norm(it)}` works `{seq}` off in windows `{norm(sl)}` but does not run from 0 to `len({seq})` in steps of the window length: the entries "
                          f"past `{norm(bound)}` are never visited (folder tasks beyond the first batch are not started: their members are silently missing from the "
                          "extraction, or the stride skips / repeats entries)", construct=f"windowed traversal of {seq}")
                # a stride computed from a length (`min(len(X), LIMIT)`) is 0 for an empty list and range() refuses a zero step: such a stride needs a
                # dominating `stride > 0` (a constant, a parameter or an attribute is taken as given)
                se = q.expand_locals(f, stride)
                if any(isinstance(x, ast.Call) and dotted(x.func) in ("len", "min") for x in ast.walk(se)):
                    sn = norm(stride)
                    pos = any(pol and isinstance(cd, ast.Compare) and (
                        (norm(cd.left) == sn and isinstance(cd.ops[0], ast.Gt) and isinstance(cd.comparators[0], ast.Constant) and cd.comparators[0].value == 0) or
                        (isinstance(cd.left, ast.Constant) and cd.left.value == 0 and isinstance(cd.ops[0], ast.Lt) and norm(cd.comparators[0]) == sn)) for cd, pol in q.facts_at(f, lp)) \
                        or (isinstance(se, ast.Call) and dotted(se.func) == "max" and any(isinstance(a_, ast.Constant) and isinstance(a_.value, int) and a_.value > 0 for a_ in se.args))
                    ctx.check(pos, rule, f, lp, f"{f.qname}: the stride `{sn}` cannot be zero",
                              f"`for {k} in {norm(it)}`: the stride `{sn}` = `{norm(se)}` is 0 when the list is empty and `range()` raises ValueError('arg 3 must not be zero'): an "
                              "extraction that has nothing to decode in this arm (only members without a stream selected from a multi-folder archive) fails in the threaded arm while "
                              "the sequential arm succeeds", construct=f"zero stride over {seq}")
    ctx.floor(rule, n, 3, "windowed list traversals")


def field_order_agreement(ctx: Ctx, rule: str) -> None:
    """fields that the reader of a header section takes from the stream one straight after the other (two consecutive statements
    `X = read_*(file)` / `d["X"] = read_*(file)` / `self.X = read_*(file)` of one block) are emitted by the section's writer in the same
    order when it emits both in one block.  sa/layout.py compares multisets per record and so cannot see two fields of the same width
    that swap places; this rule decides exactly that."""
    from .. import layout

    def field_of(e: ast.AST) -> Optional[str]:
        if isinstance(e, ast.Subscript) and isinstance(e.slice, ast.Constant) and isinstance(e.slice.value, str):
            return e.slice.value
        if isinstance(e, ast.Attribute):
            return e.attr
        if isinstance(e, ast.Name):
            return e.id
        return None

    def blocks(fn: ast.AST):
        for x in ast.walk(fn):
            for fld in ("body", "orelse", "finalbody"):
                b = getattr(x, fld, None)
                if isinstance(b, list) and b and isinstance(b[0], ast.stmt):
                    yield b

    n = 0
    for cls_name in layout.SECTIONS + ["SignatureHeader"]:
        try:
            c = ctx.prog.cls(cls_name, "archiveinfo")
        except Exception:
            continue
        rd, wr = c.methods.get("_read"), c.methods.get("write")
        if rd is None or wr is None:
            continue
        # writer: per block, the ordered fields written by a primitive
        wblocks = []
        for b in blocks(wr.node):
            seq = []
            for st in b:
                if isinstance(st, ast.Expr) and isinstance(st.value, ast.Call) and (attr_tail(st.value) or dotted(st.value.func)) in layout.WRITE_PRIMS \
                        and len(st.value.args) >= 2:
                    fl = field_of(st.value.args[1])
                    if fl is not None:
                        seq.append((fl, layout.WRITE_PRIMS[attr_tail(st.value) or dotted(st.value.func)], st))
            if len(seq) >= 2:
                wblocks.append(seq)
        for b in blocks(rd.node):
            prev = None
            for st in b:
                cur = None
                if isinstance(st, (ast.Assign, ast.AnnAssign)) and isinstance(st.value, ast.Call) and (attr_tail(st.value) or dotted(st.value.func)) in layout.READ_PRIMS:
                    tgt = st.targets[0] if isinstance(st, ast.Assign) else st.target
                    fl = field_of(tgt)
                    if fl is not None:
                        cur = (fl, layout.READ_PRIMS[attr_tail(st.value) or dotted(st.value.func)], st)
                if prev is not None and cur is not None and prev[1] == cur[1] and prev[0] != cur[0]:
                    for seq in wblocks:
                        names = [x[0] for x in seq]
                        if prev[0] in names and cur[0] in names:
                            n += 1
                            i, j = names.index(prev[0]), names.index(cur[0])
                            ctx.check(i < j, rule, wr, seq[j][2], f"{cls_name}: `{prev[0]}` then `{cur[0]}` on both sides",
                                      f"{cls_name}._read takes `{prev[0]}` and then `{cur[0]}` from the stream (line {prev[2].lineno}), {cls_name}.write emits `{cur[0]}` first: the two "
                                      "fields have the same width, so the record still parses - with the values swapped (a complex coder's stream counts the wrong way round: the "
                                      "header written by an append can no longer be read)", construct=f"{cls_name} field order {prev[0]}/{cur[0]}")
                prev = cur
    ctx.floor(rule, n, 2, "pairs of consecutive same-width fields compared between section readers and writers")


# locals that are MEANT to travel from one member to the next, each with its reason
CARRIED_OK = {
    ("py7zr:Worker._extract_single", "just_check"): "the members without bytes of their own that wait for the next decoded stream to be verified against",
}


def _cfg_parts(n):
    """(expressions evaluated AT this cfg node, names it binds)"""
    a = n.ast

    def stores(x):
        return {y.id for y in ast.walk(x) if isinstance(y, ast.Name) and isinstance(y.ctx, (ast.Store, ast.Del))} if x is not None else set()
    if n.kind == "stmt":
        if isinstance(a, (ast.FunctionDef, ast.ClassDef, ast.AsyncFunctionDef)):
            return [], set()
        return [a], stores(a)
    if n.kind == "test":
        return [a], {x.target.id for x in ast.walk(a) if isinstance(x, ast.NamedExpr)}
    if n.kind == "iter":
        return [a.iter], stores(a.target)
    if n.kind == "with":
        s = set()
        for i in a.items:
            s |= stores(i.optional_vars)
        return [i.context_expr for i in a.items], s
    if n.kind == "handler":
        return ([a.type] if a.type is not None else []), ({a.name} if a.name else set())
    return [], set()


def per_member_values(ctx: Ctx, rule: str) -> None:
    """what is computed for one member is not used for the next: in every loop over the members of the archive (iterating `...files`,
    `target_files`, a folder's file list) a local that the loop body assigns is assigned on EVERY path of the iteration before the body reads
    it.  Locals whose own assignments read them (counters, cursors, `x += ...`) are accumulators and exempt, as are the entries of
    CARRIED_OK.  A read that can be reached from the loop head without passing an assignment sees the value of the PREVIOUS member: an undated
    member gets the time stamp of the one before it."""
    n = 0

    def loads(x):
        return {y.id for y in ast.walk(x) if isinstance(y, ast.Name) and isinstance(y.ctx, ast.Load)}
    for f in ctx.prog.all_funcs:
        if f.module not in ("py7zr", "archiveinfo"):
            continue
        fors = [x for x in walk(f.node) if isinstance(x, ast.For)]
        if not fors:
            continue
        cfg = cfg_of(f.node)
        for lp in fors:
            itx = norm(q.expand_locals(f, lp.iter))
            if not any(isinstance(x, (ast.Attribute, ast.Name)) and (x.attr if isinstance(x, ast.Attribute) else x.id) in ("files", "target_files", "file_list", "empty_files")
                       for x in ast.walk(q.expand_locals(f, lp.iter))):
                continue
            head = cfg.by_ast.get(lp)
            if head is None:
                continue
            n += 1
            inner = {id(x) for st in lp.body for x in ast.walk(st)}
            body_nodes = [m for m in cfg.nodes if m.ast is not None and id(m.ast) in inner and m.kind in ("stmt", "test", "iter", "with", "handler")]
            loopvars = {y.id for y in ast.walk(lp.target) if isinstance(y, ast.Name)}
            assigned = set()
            for m in body_nodes:
                assigned |= _cfg_parts(m)[1]
            bad = False
            for v in sorted(assigned - loopvars):
                if (f.qname, v) in CARRIED_OK:
                    continue
                acc = False
                for m in body_nodes:
                    parts, st = _cfg_parts(m)
                    if v in st and (isinstance(m.ast, ast.AugAssign) or any(v in loads(p) for p in parts)):
                        acc = True
                if acc:
                    continue
                seen, work, hits = set(), [s for s in head.succ if s.kind == "body"], []
                while work:
                    m = work.pop()
                    if m.id in seen or m is head:
                        continue
                    seen.add(m.id)
                    if m.ast is not None and m.kind in ("stmt", "test", "iter", "with", "handler"):
                        if id(m.ast) not in inner:
                            continue
                        parts, st = _cfg_parts(m)
                        if any(v in loads(p) for p in parts):
                            hits.append(m)
                        if v in st:
                            continue
                    elif m.kind in ("exit", "raise"):
                        continue
                    work.extend(m.succ)
                for h in hits[:1]:
                    bad = True
                    ctx.fail(rule, f, h.ast, f"`{v}` is assigned inside the loop over the members (`for {norm(lp.target)} in {norm(lp.iter)}`, line {lp.lineno}) but the read in "
                             f"`{norm(h.ast)[:80]}` can be reached from the head of the loop without passing an assignment of this iteration: it sees the value left by the PREVIOUS member "
                             "(a member without a time stamp is given the time of the member before it; a flag or size of one member decides about the next)",
                             construct=f"{f.name}: {v} carried between members")
            if not bad:
                ctx.ok(rule, f"{f.qname}: loop over `{itx[:60]}` (line {lp.lineno}) carries no per-member local into the next iteration")
    ctx.floor(rule, n, 14, "loops over the members")


# ---------------------------------------------------------------------------------------------------------------- predicate helpers
def pred_helper_expr(ctx: Ctx, f: Func, call: ast.AST) -> Optional[ast.AST]:
    """`call` is a call of a predicate helper that the rules do not know by name - a method of f's class (`self.h(...)`) that is not among the frozen
    known functions, or a function nested in f (`h(...)`): its body, if it consists of `if`/`return` only, as ONE boolean expression over the caller's
    names (if-conversion: `if c: return a` + rest  ==  (c and a) or (not c and rest)), with the arguments substituted for the parameters."""
    if not isinstance(call, ast.Call):
        return None
    g_node, params = None, None
    if isinstance(call.func, ast.Attribute) and norm(call.func.value) == "self" and f.cls:
        from ..inline import known_functions
        try:
            m = ctx.prog.method(ctx.prog.cls(f.cls, f.module), call.func.attr)
        except Exception:
            m = None
        if m is not None and not (known_functions() and m.qname in known_functions()):
            g_node, params = m.node, m.params[1:]
    elif isinstance(call.func, ast.Name):
        for x in ast.walk(f.node):
            if isinstance(x, ast.FunctionDef) and x is not f.node and x.name == call.func.id:
                g_node, params = x, [a.arg for a in x.args.args]
    if g_node is None:
        return None

    def conv(stmts: List[ast.stmt]) -> Optional[ast.AST]:
        if not stmts:
            return None
        st, rest = stmts[0], stmts[1:]
        if isinstance(st, ast.Expr) and isinstance(st.value, ast.Constant):
            return conv(rest)  # docstring
        if isinstance(st, ast.Return):
            return st.value if st.value is not None else ast.Constant(value=None)
        if isinstance(st, ast.If):
            a = conv(st.body + rest)
            b = conv(st.orelse + rest)
            if a is None or b is None:
                return None
            return ast.BoolOp(op=ast.Or(), values=[ast.BoolOp(op=ast.And(), values=[st.test, a]),
                                                   ast.BoolOp(op=ast.And(), values=[ast.UnaryOp(op=ast.Not(), operand=st.test), b])])
        return None
    e = conv(list(g_node.body))
    if e is None:
        return None
    binding = {}
    for i, a in enumerate(call.args):
        if i < len(params):
            binding[params[i]] = a
    for k in call.keywords:
        if k.arg in params:
            binding[k.arg] = k.value

    class Sub(ast.NodeTransformer):
        def visit_Name(self, n):
            return binding.get(n.id, n) if isinstance(n.ctx, ast.Load) else n
    import copy
    return ast.fix_missing_locations(Sub().visit(copy.deepcopy(e)))


class Touched(Exception):
    """the evaluation reached the member list of a folder that has none"""


def folder_pred_eval(e: ast.AST, files_none: bool, skip: bool, selected: bool):
    """value of a folder-selection condition in the model (the folder's member list is None? / skipping allowed? / some member selected?), with Python's
    short-circuit order.  Raises Touched when the member list is iterated although it is None, Unknown for a construct outside the model."""
    if isinstance(e, ast.Constant):
        return e.value
    if isinstance(e, ast.BoolOp):
        if isinstance(e.op, ast.And):
            v = True
            for x in e.values:
                v = folder_pred_eval(x, files_none, skip, selected)
                if not v:
                    return v
            return v
        v = False
        for x in e.values:
            v = folder_pred_eval(x, files_none, skip, selected)
            if v:
                return v
        return v
    if isinstance(e, ast.UnaryOp) and isinstance(e.op, ast.Not):
        return not folder_pred_eval(e.operand, files_none, skip, selected)
    nt = q.is_none_test(e)
    if nt is not None and isinstance(nt[0], ast.Attribute) and nt[0].attr == "files":
        return files_none == nt[1]
    if isinstance(e, ast.Name) and e.id == "skip_notarget":
        return skip
    if isinstance(e, ast.Call) and dotted(e.func) == "any" and e.args and "target_filepath" in norm(e.args[0]) and ".files" in norm(e.args[0]):
        if files_none:
            raise Touched(norm(e))
        return selected
    if isinstance(e, ast.IfExp):
        return folder_pred_eval(e.body if folder_pred_eval(e.test, files_none, skip, selected) else e.orelse, files_none, skip, selected)
    raise Unknown(norm(e))


def body_as_expr(fn_node: ast.AST) -> Optional[ast.AST]:
    """the value a small pure function returns, as ONE expression: straight-line assignments of locals are substituted, `if c: return a` + rest becomes
    `a if c else <rest>`.  None when the body holds anything else (loops, calls for effect, augmented assignments)."""
    import copy

    def subst(e: ast.AST, env: Dict[str, ast.AST]) -> ast.AST:
        class S(ast.NodeTransformer):
            def visit_Name(self, n):
                return copy.deepcopy(env[n.id]) if isinstance(n.ctx, ast.Load) and n.id in env else n
        return S().visit(copy.deepcopy(e))

    def conv(stmts: List[ast.stmt], env: Dict[str, ast.AST]) -> Optional[ast.AST]:
        if not stmts:
            return None
        st, rest = stmts[0], stmts[1:]
        if isinstance(st, ast.Expr) and isinstance(st.value, ast.Constant):
            return conv(rest, env)
        if isinstance(st, (ast.Assign, ast.AnnAssign)):
            tgts = st.targets if isinstance(st, ast.Assign) else [st.target]
            if len(tgts) == 1 and isinstance(tgts[0], ast.Name) and st.value is not None:
                env2 = dict(env)
                env2[tgts[0].id] = subst(st.value, env)
                return conv(rest, env2)
            return None
        if isinstance(st, ast.Return):
            return subst(st.value, env) if st.value is not None else ast.Constant(value=None)
        if isinstance(st, ast.If):
            a = conv(st.body + rest, dict(env))
            b = conv(st.orelse + rest, dict(env))
            if a is None or b is None:
                return None
            return ast.IfExp(test=subst(st.test, env), body=a, orelse=b)
        return None
    e = conv(list(fn_node.body), {})
    return ast.fix_missing_locations(e) if e is not None else None
