"""C20 — streaming in bounded memory."""
from __future__ import annotations

import ast
from typing import Dict, List

from ..cfg import cfg_of
from ..consteval import ClassRef, EnumVal, NotConst
from ..model import AnalysisError, Func, attr_tail, dotted, norm, walk
from ..report import Ctx
from .. import q
from . import shared

EXPLANATION = (
    "Boundedness of each processing step, read from the code's shape: every decoder class of an EXPANDING method forwards its "
    "max_length parameter to the underlying decode call (size-preserving filters BCJ/Delta/Copy/AES are exempt); every read "
    "on the archive or a source handle in the write/extract closures has a size argument bounded by the block size; the "
    "decode loop requests at most min(remaining, memory limit) per step and the limit has a constant cap; decoded data is "
    "accumulated across iterations only into the output sink (the packed header, bounded by its declared size, is the listed "
    "exception); surplus decoded bytes are parked only up to what one step can produce. Not decided: the 700 MiB figure itself."
)
TRUSTED = ["CPython ast parser", "sa.consteval (codec tables)", "lzma/bz2/pyppmd honour max_length (library contract)"]

SIZE_PRESERVING = {"COPY": "output length = input length", "7zAES": "block cipher: output length = input length (+ padding < 16)"}


def r20_1(ctx: Ctx, rule: str = "R20.1") -> None:
    try:
        methods = ctx.ce.class_const("SupportedMethods", "methods")
        amap = ctx.ce.module_const("compressor", "algorithm_class_map")
    except NotConst as e:
        raise AnalysisError(f"codec tables not constant: {e}")
    n = 0
    for m in methods:
        if m["type"] != EnumVal("MethodsType", "compressor") or m["name"] in SIZE_PRESERVING:
            continue
        ent = amap.get(m["filter_id"])
        classes = []
        if ent is not None and isinstance(ent[1], ClassRef) and not ent[1].external:
            classes.append(ent[1].name)
        if m["native"]:
            if m["name"] == "LZMA":
                classes.append("LZMA1Decompressor")
            else:
                continue  # stdlib lzma.LZMADecompressor is used directly and called with max_length by _decompress
        for cn in classes:
            c = ctx.prog.cls(cn, "compressor")
            d = ctx.prog.method(c, "decompress")
            ctx.need(d is not None, f"{cn}.decompress vanished")
            n += 1
            ml = d.params[2] if len(d.params) > 2 else None
            inner = [call for call in q.calls(d) if attr_tail(call) in ("decompress", "decode", "inflate", "process") and isinstance(call.func, ast.Attribute)
                     and "self." in norm(call.func.value)]
            fwd = bool(inner) and ml is not None and all(any(isinstance(a, ast.Name) and a.id == ml for a in list(call.args) + [k.value for k in call.keywords])
                                                         for call in inner)
            # or the class bounds its own output with an internal buffer
            bounded_self = ml is not None and any(isinstance(x, ast.Subscript) and isinstance(x.slice, ast.Slice) and any(isinstance(y, ast.Name) and y.id == ml for y in ast.walk(x.slice)) for x in walk(d.node))
            ctx.check(fwd or bounded_self, rule, d, d.node, f"{cn}.decompress honours max_length",
                      f"{cn}.decompress ignores its max_length parameter: one input block of an expanding codec ({m['name']}) is decoded in full, so a highly compressible member "
                      "makes a single call return (and park) output in proportion to the compression ratio", construct=f"{cn}.decompress ignores max_length")
    ctx.floor(rule, n, 4, "decoder classes of expanding methods")
    # the chain passes max_length on to every stage
    f = ctx.prog.func("compressor", "SevenZipDecompressor._decompress")
    calls = [c for c in q.calls(f) if attr_tail(c) == "decompress"]
    ok = bool(calls) and all(len(c.args) >= 2 and norm(c.args[1]) == f.params[2] for c in calls)
    ctx.check(ok, rule, f, calls[0] if calls else f.node, "the chain passes max_length to every stage", "SevenZipDecompressor._decompress does not pass max_length to the stages")


def r20_2(ctx: Ctx) -> None:
    sites = []
    rd = ctx.prog.func("compressor", "SevenZipDecompressor._read_data")
    for c in [c for c in q.calls(rd) if attr_tail(c) == "read"]:
        srcs = q.sources_of(rd, c.args[0], depth=2) if c.args else []
        ok = bool(c.args) and any(isinstance(s, ast.Call) and dotted(s.func) == "min" and any("block_size" in norm(a) for a in s.args) for s in srcs)
        ctx.check(ok, "R20.2", rd, c, "packed input is read at most one block at a time", "_read_data reads packed input without a min(..., block_size) bound (e.g. the whole remaining stream)")
        sites.append(c)
    cp = ctx.prog.func("compressor", "SevenZipCompressor.compress")
    for c in [c for c in q.calls(cp) if attr_tail(c) == "read"]:
        ok = bool(c.args) and "_block_size" in norm(c.args[0])
        ctx.check(ok, "R20.2", cp, c, "source is read one block at a time", "SevenZipCompressor.compress reads the source without a block-size bound (whole file in memory)")
        sites.append(c)
    dg = shared.szf(ctx, "_read_digest")
    for c in [c for c in q.calls(dg) if attr_tail(c) == "read"]:
        srcs = q.sources_of(dg, c.args[0], depth=2) if c.args else []
        ok = bool(c.args) and any(isinstance(s, ast.Call) and dotted(s.func) == "min" and any("_block_size" in norm(a) for a in s.args) for s in srcs)
        ctx.check(ok, "R20.2", dg, c, "test() hashes packed streams block-wise", "_read_digest reads without a block-size bound")
        sites.append(c)
    ctx.floor("R20.2", len(sites), 4, "bounded reads")
    # any other read on the archive handle in the extract/write closures must carry a size
    roots = [shared.szf(ctx, n) for n in ("extractall", "extract", "testzip", "test", "write", "writef", "writestr", "close")]
    clo = ctx.res.closure(roots)
    for fq, f in sorted(clo.items()):
        if f.module not in ("py7zr", "compressor"):
            continue
        for c in q.calls(f):
            if attr_tail(c) == "read" and isinstance(c.func, ast.Attribute) and norm(c.func.value) in ("fp", "self.fp", "fd", "file") and not c.args:
                ctx.fail("R20.2", f, c, "an unbounded read() on the archive/source handle loads the whole stream into memory", path=ctx.res.call_path(roots, fq))
    # write side of WriterFactory/file outputs: data is written chunk by chunk inside the decode loop
    wd = ctx.prog.func("py7zr", "Worker.decompress")
    wr = [c for c in q.calls(wd) if attr_tail(c) == "write"]
    ok = bool(wr) and all(q.enclosing_loops(wd, c) for c in wr)
    ctx.check(ok, "R20.2", wd, wr[0] if wr else wd.node, "decoded chunks are written inside the decode loop", "decoded data is not written chunk-by-chunk inside the decode loop")


def r20_3(ctx: Ctx) -> None:
    wd = ctx.prog.func("py7zr", "Worker.decompress")
    loops = [n for n in walk(wd.node) if isinstance(n, ast.While)]
    ctx.need(bool(loops), "decode loop not found")
    for lp in loops:
        for n in walk(lp):
            if isinstance(n, ast.AugAssign) and isinstance(n.op, ast.Add) and isinstance(n.value, ast.Name):
                vals = q.assigned_values(wd, n.value.id)
                if any(isinstance(v, ast.Call) and attr_tail(v) == "decompress" for v in vals):
                    ctx.fail("R20.3", wd, n, "decoded chunks are accumulated across iterations of the decode loop (the whole member in memory)")
            if isinstance(n, ast.Call) and attr_tail(n) in ("append", "extend") and n.args and isinstance(n.args[0], ast.Name):
                vals = q.assigned_values(wd, n.args[0].id)
                if any(isinstance(v, ast.Call) and attr_tail(v) == "decompress" for v in vals):
                    ctx.fail("R20.3", wd, n, "decoded chunks are collected in a list across iterations of the decode loop")
    ctx.ok("R20.3", "Worker.decompress: no accumulation of decoded chunks across iterations")
    hr = ctx.prog.func("archiveinfo", "Header._read")
    acc = [n for n in walk(hr.node) if isinstance(n, ast.AugAssign) and isinstance(n.op, ast.Add) and q.enclosing_loops(hr, n)]
    n_acc = 0
    for a in acc:
        from_decoder = q.derives_from(hr, a.value, lambda s_: isinstance(s_, ast.Call) and attr_tail(s_) == "decompress", depth=2)
        if not from_decoder:
            continue
        n_acc += 1
        lp = [l for l in q.enclosing_loops(hr, a) if isinstance(l, ast.While)]
        bounded = bool(lp) and any(isinstance(c, ast.Call) and attr_tail(c) == "decompress" and any(k.arg == "max_length" for k in c.keywords) for c in ast.walk(lp[-1]))
        ctx.check(bounded, "R20.3", hr, a, "listed exception: the packed header buffer grows at most to the declared header size",
                  "the header buffer grows without the per-step max_length bound")


def r20_4(ctx: Ctx) -> None:
    wd = ctx.prog.func("py7zr", "Worker.decompress")
    dec = [c for c in q.calls(wd) if attr_tail(c) == "decompress"]
    ctx.floor("R20.4", len(dec), 1, "decoder call in Worker.decompress")
    for c in dec:
        a = c.args[1] if len(c.args) > 1 else next((k.value for k in c.keywords if k.arg == "max_length"), None)
        ok = isinstance(a, ast.Call) and dotted(a.func) == "min" and len(a.args) == 2
        lim = None
        if ok:
            names = [x for x in a.args if isinstance(x, ast.Name)]
            lim = [n for n in names if any(isinstance(v, ast.Call) and attr_tail(v) == "get_memory_limit" for v in q.assigned_values(wd, n.id))]
            ok = bool(lim)
        ctx.check(bool(ok), "R20.4", wd, c, "each step requests at most min(remaining, memory limit)", "the decode loop requests more than min(remaining, get_memory_limit()) per step (e.g. the whole member)")
    gm = ctx.prog.func("properties", "get_memory_limit")
    rets = [n for n in walk(gm.node) if isinstance(n, ast.Return)]
    cap = [n for n in walk(gm.node) if isinstance(n, ast.Assign) and norm(n.targets[0]) == "default_limit"]
    try:
        capv = ctx.ce.eval(cap[0].value, "properties") if cap else None
    except NotConst:
        capv = None
    ok = capv is not None and capv <= 256 * 1024 * 1024 and all(
        norm(r.value) == "default_limit" or (isinstance(r.value, ast.Call) and dotted(r.value.func) == "min" and any(norm(a) == "default_limit" for a in r.value.args)) for r in rets)
    ctx.check(ok, "R20.4", gm, gm.node, f"memory limit capped by the constant {capv}", "get_memory_limit can return more than its constant cap (or the cap exceeds 256 MiB)", construct="memory limit cap")
    # the surplus parked in SevenZipDecompressor._buf is what exceeded max_length in ONE step
    d = ctx.prog.func("compressor", "SevenZipDecompressor.decompress")
    parks = [n for n in walk(d.node) if isinstance(n, ast.Assign) and norm(n.targets[0]) == "self._buf" and not (isinstance(n.value, ast.Call) and not n.value.args)]
    dec_names = {n.targets[0].id for n in walk(d.node) if isinstance(n, ast.Assign) and isinstance(n.targets[0], ast.Name) and isinstance(n.value, ast.Call)
                 and attr_tail(n.value) == "_decompress"}
    ok = all(isinstance(p.value, ast.Call) and p.value.args and isinstance(p.value.args[0], ast.Subscript) and norm(p.value.args[0].value) in dec_names for p in parks)
    ctx.check(ok and bool(parks), "R20.4", d, parks[0] if parks else d.node, "only the surplus of one decode step is parked", "the decoder parks more than the surplus of a single step")


def run(ctx: Ctx) -> None:
    r20_1(ctx)
    r20_2(ctx)
    r20_3(ctx)
    r20_4(ctx)
