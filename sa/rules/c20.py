"""C20 — streaming in bounded memory."""
from __future__ import annotations

import ast
from typing import Dict, List

from ..cfg import cfg_of
from ..consteval import ClassRef, EnumVal, NotConst
from ..model import AnalysisError, Func, attr_tail, dotted, norm, walk
from ..report import Ctx
from .. import q
from . import shared

EXPLANATION = (
    "Boundedness of each processing step, read from the code's shape: every decoder class of an EXPANDING method forwards its "
    "max_length parameter to the underlying decode call (size-preserving filters BCJ/Delta/Copy/AES are exempt); every read "
    "on the archive or a source handle in the write/extract closures has a size argument bounded by the block size; the "
    "decode loop requests at most min(remaining, memory limit) per step and the limit has a constant cap; decoded data is "
    "accumulated across iterations only into the output sink (the packed header, bounded by its declared size, is the listed "
    "exception); surplus decoded bytes are parked only up to what one step can produce. Not decided: the 700 MiB figure itself."
)
TRUSTED = ["CPython ast parser", "sa.consteval (codec tables)", "lzma/bz2/pyppmd honour max_length (library contract)"]

SIZE_PRESERVING = {"COPY": "output length = input length", "7zAES": "block cipher: output length = input length (+ padding < 16)"}


def r20_1(ctx: Ctx, rule: str = "R20.1") -> None:
    try:
        methods = ctx.ce.class_const("SupportedMethods", "methods")
        amap = ctx.ce.module_const("compressor", "algorithm_class_map")
    except NotConst as e:
        raise AnalysisError(f"codec tables not constant: {e}")
    n = 0
    for m in methods:
        if m["type"] != EnumVal("MethodsType", "compressor") or m["name"] in SIZE_PRESERVING:
            continue
        ent = amap.get(m["filter_id"])
        classes = []
        if ent is not None and isinstance(ent[1], ClassRef) and not ent[1].external:
            classes.append(ent[1].name)
        if m["native"]:
            if m["name"] == "LZMA":
                classes.append("LZMA1Decompressor")
            else:
                continue  # stdlib lzma.LZMADecompressor is used directly and called with max_length by _decompress
        for cn in classes:
            c = ctx.prog.cls(cn, "compressor")
            d = ctx.prog.method(c, "decompress")
            ctx.need(d is not None, f"{cn}.decompress vanished")
            n += 1
            ml = d.params[2] if len(d.params) > 2 else None
            inner = [call for call in q.calls(d) if attr_tail(call) in ("decompress", "decode", "inflate", "process") and isinstance(call.func, ast.Attribute)
                     and "self." in norm(call.func.value)]
            fwd = bool(inner) and ml is not None and all(any(isinstance(a, ast.Name) and a.id == ml for a in list(call.args) + [k.value for k in call.keywords])
                                                         for call in inner)
            # or the class bounds its own output with an internal buffer
            bounded_self = ml is not None and any(isinstance(x, ast.Subscript) and isinstance(x.slice, ast.Slice) and any(isinstance(y, ast.Name) and y.id == ml for y in ast.walk(x.slice)) for x in walk(d.node))
            ctx.check(fwd or bounded_self, rule, d, d.node, f"{cn}.decompress honours max_length",
                      f"{cn}.decompress ignores its max_length parameter: one input block of an expanding codec ({m['name']}) is decoded in full, so a highly compressible member "
                      "makes a single call return (and park) output in proportion to the compression ratio", construct=f"{cn}.decompress ignores max_length")
    ctx.floor(rule, n, 4, "decoder classes of expanding methods")
    # the chain passes max_length on to every stage
    f = ctx.prog.func("compressor", "SevenZipDecompressor._decompress")
    calls = [c for c in q.calls(f) if attr_tail(c) == "decompress"]
    ok = bool(calls) and all(len(c.args) >= 2 and norm(c.args[1]) == f.params[2] for c in calls)
    ctx.check(ok, rule, f, calls[0] if calls else f.node, "the chain passes max_length to every stage", "SevenZipDecompressor._decompress does not pass max_length to the stages")


def r20_2(ctx: Ctx) -> None:
    sites = []
    rd = ctx.prog.func("compressor", "SevenZipDecompressor._read_data")
    rd_reads = [(c, c.args[0] if c.args else None) for c in q.calls(rd) if attr_tail(c) == "read"] + \
               [(c, c.args[1] if len(c.args) > 1 else None) for c in q.calls(rd) if (dotted(c.func) or "").split(".")[-1] == "read_fully"]  # the package's short-read loop
    if len(rd_reads) == 1:
        sites.append(rd_reads[0][0])  # one call that stands for the read and its retries
    for c, size_arg in rd_reads:
        srcs = q.sources_of(rd, size_arg, depth=2) if size_arg is not None else []
        def bounded(e: ast.AST) -> bool:
            if isinstance(e, ast.Call) and dotted(e.func) == "min" and any("block_size" in norm(a) for a in e.args):
                return True
            # `min(rest, block) - unused` is at most the block as well (what is subtracted counts bytes: it is not negative)
            return isinstance(e, ast.BinOp) and isinstance(e.op, ast.Sub) and bounded(e.left)
        ok = size_arg is not None and any(bounded(s) for s in srcs)
        ctx.check(ok, "R20.2", rd, c, "packed input is read at most one block at a time", "_read_data reads packed input without a min(..., block_size) bound (e.g. the whole remaining stream)")
        sites.append(c)
    cp = ctx.prog.func("compressor", "SevenZipCompressor.compress")
    # a read without a size, or the bound method handed to iter() / a helper (`iter(fd.read, b"")` calls it without a size): the whole source at once
    for x in walk(cp.node):
        unsized = isinstance(x, ast.Call) and attr_tail(x) == "read" and not x.args and not x.keywords
        as_value = isinstance(x, ast.Call) and any(isinstance(a_, ast.Attribute) and a_.attr == "read" for a_ in x.args)
        if unsized or as_value:
            ctx.fail("R20.2", cp, x, f"`{norm(x)[:60]}` reads the source without a block size: the whole member is read and compressed in one piece (identical output, peak memory of the "
                     "member's size: 900 MiB for a 900 MiB source)", construct="source read without a block size")
            sites.append(x)
    for c in [c for c in q.calls(cp) if attr_tail(c) == "read"]:
        ok = bool(c.args) and "_block_size" in norm(c.args[0])
        ctx.check(ok, "R20.2", cp, c, "source is read one block at a time", "SevenZipCompressor.compress reads the source without a block-size bound (whole file in memory)")
        sites.append(c)
    dg = shared.szf(ctx, "_read_digest")
    for c in [c for c in q.calls(dg) if attr_tail(c) == "read"]:
        srcs = q.sources_of(dg, c.args[0], depth=2) if c.args else []
        ok = bool(c.args) and any(isinstance(s, ast.Call) and dotted(s.func) == "min" and any("_block_size" in norm(a) for a in s.args) for s in srcs)
        ctx.check(ok, "R20.2", dg, c, "test() hashes packed streams block-wise", "_read_digest reads without a block-size bound")
        sites.append(c)
    ctx.floor("R20.2", len(sites), 4, "bounded reads")
    # any other read on the archive handle in the extract/write closures must carry a size
    roots = [shared.szf(ctx, n) for n in ("extractall", "extract", "testzip", "test", "write", "writef", "writestr", "close")]
    clo = ctx.res.closure(roots)
    for fq, f in sorted(clo.items()):
        if f.module not in ("py7zr", "compressor"):
            continue
        for c in q.calls(f):
            if attr_tail(c) == "read" and isinstance(c.func, ast.Attribute) and norm(c.func.value) in ("fp", "self.fp", "fd", "file") and not c.args:
                ctx.fail("R20.2", f, c, "an unbounded read() on the archive/source handle loads the whole stream into memory", path=ctx.res.call_path(roots, fq))
    # write side of WriterFactory/file outputs: data is written chunk by chunk inside the decode loop
    wd = ctx.prog.func("py7zr", "Worker.decompress")
    wr = [c for c in q.calls(wd) if attr_tail(c) == "write"]
    ok = bool(wr) and all(q.enclosing_loops(wd, c) for c in wr)
    ctx.check(ok, "R20.2", wd, wr[0] if wr else wd.node, "decoded chunks are written inside the decode loop", "decoded data is not written chunk-by-chunk inside the decode loop")


def r20_3(ctx: Ctx) -> None:
    wd = ctx.prog.func("py7zr", "Worker.decompress")
    loops = [n for n in walk(wd.node) if isinstance(n, ast.While)]
    ctx.need(bool(loops), "decode loop not found")
    for lp in loops:
        for n in walk(lp):
            if isinstance(n, ast.AugAssign) and isinstance(n.op, ast.Add) and isinstance(n.value, ast.Name):
                vals = q.assigned_values(wd, n.value.id)
                if any(isinstance(v, ast.Call) and attr_tail(v) == "decompress" for v in vals):
                    ctx.fail("R20.3", wd, n, "decoded chunks are accumulated across iterations of the decode loop (the whole member in memory)")
            if isinstance(n, ast.Call) and attr_tail(n) in ("append", "extend") and n.args and isinstance(n.args[0], ast.Name):
                vals = q.assigned_values(wd, n.args[0].id)
                if any(isinstance(v, ast.Call) and attr_tail(v) == "decompress" for v in vals):
                    ctx.fail("R20.3", wd, n, "decoded chunks are collected in a list across iterations of the decode loop")
    ctx.ok("R20.3", "Worker.decompress: no accumulation of decoded chunks across iterations")
    hr = ctx.prog.func("archiveinfo", "Header._read")
    acc = [n for n in walk(hr.node) if isinstance(n, ast.AugAssign) and isinstance(n.op, ast.Add) and q.enclosing_loops(hr, n)]
    n_acc = 0
    for a in acc:
        from_decoder = q.derives_from(hr, a.value, lambda s_: isinstance(s_, ast.Call) and attr_tail(s_) == "decompress", depth=2)
        if not from_decoder:
            continue
        n_acc += 1
        lp = [l for l in q.enclosing_loops(hr, a) if isinstance(l, ast.While)]
        bounded = bool(lp) and any(isinstance(c, ast.Call) and attr_tail(c) == "decompress" and any(k.arg == "max_length" for k in c.keywords) for c in ast.walk(lp[-1]))
        ctx.check(bounded, "R20.3", hr, a, "listed exception: the packed header buffer grows at most to the declared header size",
                  "the header buffer grows without the per-step max_length bound")


def r20_4(ctx: Ctx) -> None:
    wd = ctx.prog.func("py7zr", "Worker.decompress")
    dec = [c for c in q.calls(wd) if attr_tail(c) == "decompress"]
    ctx.floor("R20.4", len(dec), 1, "decoder call in Worker.decompress")
    for c in dec:
        a = c.args[1] if len(c.args) > 1 else next((k.value for k in c.keywords if k.arg == "max_length"), None)
        ok = isinstance(a, ast.Call) and dotted(a.func) == "min" and len(a.args) == 2
        lim = None
        if ok:
            names = [x for x in a.args if isinstance(x, ast.Name)]
            lim = [n for n in names if any(any(isinstance(w, ast.Call) and attr_tail(w) == "get_memory_limit" for w in ast.walk(v)) for v in q.assigned_values(wd, n.id))]
            ok = bool(lim)
        ctx.check(bool(ok), "R20.4", wd, c, "each step requests at most min(remaining, memory limit)", "the decode loop requests more than min(remaining, get_memory_limit()) per step (e.g. the whole member)")
    gm = ctx.prog.func("properties", "get_memory_limit")
    rets = [n for n in walk(gm.node) if isinstance(n, ast.Return)]
    cap = [n for n in walk(gm.node) if isinstance(n, ast.Assign) and norm(n.targets[0]) == "default_limit"]
    try:
        capv = ctx.ce.eval(cap[0].value, "properties") if cap else None
    except NotConst:
        capv = None
    def capped(e: ast.AST) -> bool:
        if norm(e) == "default_limit":
            return True
        if isinstance(e, ast.Call) and dotted(e.func) == "min":
            return any(capped(a) for a in e.args)
        if isinstance(e, ast.Call) and dotted(e.func) == "max":  # a floor: every operand capped (a constant below the cap counts)
            return all(capped(a) or _const_le(ctx, a, capv) for a in e.args)
        return False
    ok = capv is not None and capv <= 256 * 1024 * 1024 and all(r.value is not None and capped(r.value) for r in rets)
    ctx.check(ok, "R20.4", gm, gm.node, f"memory limit capped by the constant {capv}", "get_memory_limit can return more than its constant cap (or the cap exceeds 256 MiB)", construct="memory limit cap")
    # the surplus parked in SevenZipDecompressor._buf is what exceeded max_length in ONE step
    d = ctx.prog.func("compressor", "SevenZipDecompressor.decompress")
    parks = [n for n in walk(d.node) if isinstance(n, ast.Assign) and norm(n.targets[0]) == "self._buf" and not (isinstance(n.value, ast.Call) and not n.value.args)]
    dec_names = {n.targets[0].id for n in walk(d.node) if isinstance(n, ast.Assign) and isinstance(n.targets[0], ast.Name) and isinstance(n.value, ast.Call)
                 and attr_tail(n.value) == "_decompress"}
    ok = all(isinstance(p.value, ast.Call) and p.value.args and isinstance(p.value.args[0], ast.Subscript) and norm(p.value.args[0].value) in dec_names for p in parks)
    ctx.check(ok and bool(parks), "R20.4", d, parks[0] if parks else d.node, "only the surplus of one decode step is parked", "the decoder parks more than the surplus of a single step")


def _const_le(ctx: Ctx, e: ast.AST, cap) -> bool:
    try:
        v = ctx.ce.eval(e, "properties")
    except NotConst:
        return False
    return isinstance(v, int) and cap is not None and v <= cap


def r20_5(ctx: Ctx) -> None:
    """a member that is decoded INTO MEMORY (the target text of a symbolic link / junction: `with io.BytesIO() as sink:
    self.decompress(fp, folder, sink, size, ...)`) has a declared size the archive chooses; the call stands under a constant bound
    on that size (`if size > LIMIT: raise` before it), otherwise a 78 KB archive with a 0.5 GiB 'link' takes gigabytes."""
    f = ctx.prog.func("py7zr", "Worker._extract_single")
    sinks = {}
    for w in walk(f.node):
        if isinstance(w, ast.With):
            for it in w.items:
                if isinstance(it.context_expr, ast.Call) and dotted(it.context_expr.func) in ("io.BytesIO", "BytesIO") and isinstance(it.optional_vars, ast.Name):
                    sinks[it.optional_vars.id] = w
        if isinstance(w, ast.Assign) and isinstance(w.value, ast.Call) and dotted(w.value.func) in ("io.BytesIO", "BytesIO") and isinstance(w.targets[0], ast.Name):
            sinks[w.targets[0].id] = w
    n = 0
    for c in q.calls(f):
        if attr_tail(c) != "decompress" or len(c.args) < 4 or not (isinstance(c.args[2], ast.Name) and c.args[2].id in sinks):
            continue
        n += 1
        size = norm(c.args[3])
        bounded = False
        for cd, pol in q.facts_at(f, c):
            if not (isinstance(cd, ast.Compare) and len(cd.ops) == 1):
                continue
            l, op, r = cd.left, cd.ops[0], cd.comparators[0]
            if norm(l) == size and _is_const(ctx, r):
                bounded |= (isinstance(op, (ast.Gt, ast.GtE)) and not pol) or (isinstance(op, (ast.Lt, ast.LtE)) and pol)
            if norm(r) == size and _is_const(ctx, l):
                bounded |= (isinstance(op, (ast.Lt, ast.LtE)) and not pol) or (isinstance(op, (ast.Gt, ast.GtE)) and pol)
        ctx.check(bounded, "R20.5", f, c, f"in-memory sink `{c.args[2].id}`: the declared size is under a constant bound",
                  f"a member is decoded into an in-memory buffer (`{c.args[2].id}` = io.BytesIO()) whatever size the archive declares for it (`{size}` is not compared with any constant "
                  "before the call): a tiny archive whose 'symbolic link' is 0.5 GiB of zeros makes extractall(path) allocate several times that", construct=f"unbounded in-memory sink {c.args[2].id}")
    ctx.floor("R20.5", n, 1, "members decoded into memory (link texts)")


def _is_const(ctx: Ctx, e: ast.AST) -> bool:
    try:
        v = ctx.ce.eval(e, "py7zr")
    except NotConst:
        return False
    return isinstance(v, int)


def r20_6(ctx: Ctx) -> None:
    """folders decoded at the same time: (a) the loop that starts the per-folder threads/processes also waits for them (a `join` inside
    the outermost loop around `start`) or runs over a slice of constant width - starting one task per folder before joining any makes
    peak memory N times a single decoder's; (b) while several run, the step size of each is a share: Worker.decompress takes its block
    size from a field that the parallel branch sets to a quotient (`limit // ...`)."""
    f = ctx.prog.func("py7zr", "Worker.extract")
    starts = [c for c in q.calls(f) if attr_tail(c) == "start" and not c.args]
    ctx.floor("R20.6", len(starts), 1, "task starts in Worker.extract")
    for c in starts:
        loops = q.enclosing_loops(f, c)
        ok = False
        if not loops:
            ok = True
        else:
            outer = loops[0] if loops[0].lineno <= loops[-1].lineno else loops[-1]
            ok = any(isinstance(x, ast.Call) and attr_tail(x) == "join" for x in ast.walk(outer))
        ctx.check(ok, "R20.6", f, c, "the loop that starts folder tasks also joins them (bounded number alive)",
                  "Worker.extract starts one thread/process per folder in a loop that joins none of them: all folders are decoded at the same time, each with its own chunk buffers "
                  "(4 folders of 0.5 GiB zeros in a 300 KB archive: 1.5 GiB; N folders: N x 380 MiB)", construct="unbounded concurrent folder tasks")
    wd = ctx.prog.func("py7zr", "Worker.decompress")
    fields = {norm(x) for v in q.assigned_values(wd, "max_block_size") for x in ast.walk(v) if isinstance(x, ast.Attribute) and norm(x).startswith("self.")}
    shares = [n for n in walk(f.node) if isinstance(n, ast.Assign) and norm(n.targets[0]) in fields and any(isinstance(x, ast.BinOp) and isinstance(x.op, (ast.FloorDiv, ast.Div, ast.RShift)) for x in ast.walk(n.value))]
    # ... a quotient BY the number of concurrent folders: the divisor of the outermost division mentions the batch width (`limit // (2 * width)`; in
    # `limit // 2 * width` the width multiplies)
    for sh in shares:
        v = sh.value
        divs = [x for x in ast.walk(v) if isinstance(x, ast.BinOp) and isinstance(x.op, (ast.FloorDiv, ast.Div, ast.RShift))]
        by_width = any(any(isinstance(y, ast.Name) and any(isinstance(z, ast.Call) and dotted(z.func) in ("min", "len") for z in ast.walk(q.expand_locals(f, y))) for y in ast.walk(d.right)) for d in divs)
        grows = any(isinstance(x, ast.BinOp) and isinstance(x.op, ast.Mult) and any(isinstance(y, ast.BinOp) and isinstance(y.op, (ast.FloorDiv, ast.Div)) for y in (x.left, x.right)) for x in ast.walk(v))
        ctx.check(by_width and not grows, "R20.6", f, sh, "the step budget is divided by the number of concurrent folders",
                  f"`{norm(sh)[:90]}`: the share of a folder is not the budget divided by the batch width (a precedence slip such as `limit // 2 * width` multiplies by it): four folders "
                  "decoded at once take 256 MB per step each instead of 16 MB", construct="step budget not divided by the width")
    ctx.check(bool(shares), "R20.6", f, starts[0], "concurrent folders share one step budget (block size field set to a quotient)",
              "while several folders are decoded at the same time each of them still takes the full get_memory_limit() per step: nothing divides the budget among the concurrent "
              "workers (Worker.decompress reads no field that Worker.extract sets to a share)", construct="concurrent folders: undivided chunk budget")
    # (c) the share is in force as long as tasks are being started: the field is set back (to None: full step size) only where no start() can follow
    cfg = cfg_of(f.node)
    backs = [n for n in walk(f.node) if isinstance(n, ast.Assign) and norm(n.targets[0]) in fields and isinstance(n.value, ast.Constant) and n.value.value is None]
    for b in backs:
        again = [c for c in starts if cfg.reaches(q.node_for(f, b), q.node_for(f, c))]
        ctx.check(not again, "R20.6", f, b, "the step budget is given back only after the last batch",
                  f"`{norm(b)}` can be followed by `{norm(again[0]) if again else ''}`: the share is withdrawn inside the batching loop, so every batch after the first decodes with the full "
                  "get_memory_limit() per folder (8 folders of 200 MB zeros: 1.2 GiB instead of 280 MiB)", construct="step budget reset before the last batch")
    # (d) arithmetic of the batch width: W decoders live at once, each with the dictionary of its folder - 64 MiB for the strongest standard
    # presets (7-Zip -mx=9, xz -9; larger ones are the subject of the known finding on dictionary sizes) - next to one step budget in and out
    try:
        w = ctx.ce.eval(ast.parse("MAX_CONCURRENT_FOLDERS", mode="eval").body, "py7zr")
    except NotConst:
        w = None
    if w is None:
        ctx.note("R20.6: no constant MAX_CONCURRENT_FOLDERS (the width of a batch is judged by (a))")
    else:
        gm = ctx.prog.func("properties", "get_memory_limit")
        cap = [n for n in walk(gm.node) if isinstance(n, ast.Assign) and norm(n.targets[0]) == "default_limit"]
        try:
            capv = ctx.ce.eval(cap[0].value, "properties") if cap else None
        except NotConst:
            capv = None
        budget, dic = 700 * 2 ** 20, 64 * 2 ** 20
        ok = isinstance(w, int) and capv is not None and w * dic + 2 * capv <= budget
        ctx.check(ok, "R20.6", f, f.node, f"batch width {w}: {w} x 64 MiB of dictionaries + 2 x {capv} step budget <= 700 MiB",
                  f"MAX_CONCURRENT_FOLDERS = {w}: the step budget is divided among the folders of a batch, their dictionaries are not - {w} decoders with the 64 MiB dictionary of the "
                  f"strongest standard presets hold {w * 64} MiB, which with one step budget in and out ({capv} bytes each) exceeds the 700 MiB the property allows",
                  construct="batch width times dictionary size")


def r20_7(ctx: Ctx) -> None:
    """the step size is positive: a zero or negative max_length means 'no limit' to SevenZipDecompressor.decompress, so every return of
    get_memory_limit is the constant cap or has a positive constant floor (max(FLOOR, ...)); `(available - 256e6) >> 2` alone is
    negative exactly when memory is scarce."""
    gm = ctx.prog.func("properties", "get_memory_limit")
    rets = [n for n in walk(gm.node) if isinstance(n, ast.Return)]
    ctx.floor("R20.7", len(rets), 1, "returns of get_memory_limit")

    def positive(e) -> bool:
        if e is None:
            return False
        if isinstance(e, ast.Name):
            vals = q.assigned_values(gm, e.id)
            if vals:
                return all(positive(v) for v in vals)
        try:
            v = ctx.ce.eval(e, "properties")
            return isinstance(v, int) and v > 0
        except NotConst:
            pass
        if isinstance(e, ast.Call) and dotted(e.func) == "max":
            return any(positive(a) for a in e.args)
        if isinstance(e, ast.Call) and dotted(e.func) == "min":
            return all(positive(a) for a in e.args)
        if isinstance(e, ast.Call) and dotted(e.func) == "int" and e.args:
            return positive(e.args[0])
        return False
    for r in rets:
        ctx.check(positive(r.value), "R20.7", gm, r, "the memory limit returned is positive",
                  f"get_memory_limit can return `{norm(r.value)}`, which is zero or negative when less than 256 MB are available (or RLIMIT_DATA is below that): Worker.decompress passes "
                  "it on as max_length, and a negative max_length means 'no limit' to the decoders - chunking is switched off exactly when memory is scarce (0: endless loop)", construct="memory limit not positive")
    d = ctx.prog.func("compressor", "SevenZipDecompressor.decompress")
    ctx.ok("R20.7", f"{d.qname}: negative max_length = unlimited (the reason for the floor)")


def r20_8(ctx: Ctx) -> None:
    """memory does not add up over the folders of an archive: a folder's decoder (for LZMA2: its dictionary, up to gigabytes as the archive
    declares it) is cached on the folder object; the task that has worked a folder through lets it go (`<folder>.decompressor = None` in a
    `finally` of Worker.extract_single), not only reset()/close().  And (b) packed input is read for a decode step only when ... see R20.9."""
    f = ctx.prog.func("py7zr", "Worker.extract_single")
    def releases(fn_node):
        return [n for t in ast.walk(fn_node) if isinstance(t, ast.Try) for st in t.finalbody for n in ast.walk(st)
                if isinstance(n, ast.Assign) and isinstance(n.targets[0], ast.Attribute) and n.targets[0].attr == "decompressor" and isinstance(n.value, ast.Constant) and n.value.value is None]
    rel = releases(f.node)
    if not rel:
        # the same thing written as a context manager of the class: `with self._x(files): <the task>` where _x is a generator decorated with
        # contextlib.contextmanager whose `yield` stands in a try with the release in its finally, and the task's work lies inside the with block
        cls = ctx.prog.cls("Worker", "py7zr")
        for w in [w for w in walk(f.node) if isinstance(w, ast.With)]:
            for it in w.items:
                c = it.context_expr
                if isinstance(c, ast.Call) and isinstance(c.func, ast.Attribute) and norm(c.func.value) == "self":
                    m = ctx.prog.method(cls, c.func.attr)
                    if m is not None and any("contextmanager" in norm(d) for d in m.node.decorator_list) and any(
                            isinstance(t, ast.Try) and any(isinstance(y, (ast.Yield, ast.YieldFrom)) for st in t.body for y in ast.walk(st)) for t in ast.walk(m.node)) and any(
                            isinstance(x, ast.Call) and attr_tail(x) == "_extract_single" for st in w.body for x in ast.walk(st)):
                        rel = releases(m.node)
    ctx.check(bool(rel), "R20.8", f, rel[0] if rel else f.node, "a folder's decoder is released when the folder has been worked through",
              "Worker.extract_single leaves the decoder of every folder it has decoded cached on the folder until reset()/close(): with five folders of LZMA2 data and a 192 MiB "
              "dictionary each (a 381 KiB archive) extraction and testzip() peak at 1.3 GiB - one such folder needs 570 MiB", construct="decoders kept per folder")


def r20_9(ctx: Ctx) -> None:
    """every decode step of SevenZipDecompressor.decompress fetches another block of packed input (up to 1 MiB) before it asks the chain for
    output, whether or not the first stage still holds input it has not consumed.  In a solid folder each small member in front of a large,
    hardly compressible one leaves a block inside the decoder: 1100 one-byte members cost 1.1 GiB.  Necessary condition: the `_read_data`
    call stands under a test of the first stage's appetite (`needs_input`)."""
    f = ctx.prog.func("compressor", "SevenZipDecompressor.decompress")
    reads = [c for c in q.calls(f) if attr_tail(c) == "_read_data"]
    ctx.floor("R20.9", len(reads), 1, "packed-input fetches in SevenZipDecompressor.decompress")
    for c in reads:
        ok = any("needs_input" in norm(cd) or "need_input" in norm(cd) for cd, pol in q.facts_at(f, c))
        ctx.check(ok, "R20.9", f, c, "packed input is fetched only when the first stage wants input",
                  "SevenZipDecompressor.decompress reads another block of packed input for every call, without asking whether the decoder still holds unconsumed input: in a solid "
                  "folder every small member ahead of a large one parks up to 1 MiB inside the decoder (1100 one-byte members: 1.5 GiB peak)", construct="input fetched regardless of appetite")


def run(ctx: Ctx) -> None:
    r20_9(ctx)
    r20_8(ctx)
    r20_5(ctx)
    r20_6(ctx)
    r20_7(ctx)
    r20_1(ctx)
    r20_2(ctx)
    r20_3(ctx)
    r20_4(ctx)
