"""C07 — writer conformance: sizes, layout, lock-step lists, serialisation coverage."""
from __future__ import annotations

import ast
from typing import Dict, List, Optional, Set, Tuple

from ..cfg import cfg_of
from ..consteval import NotConst
from ..lendom import RecordAnalyzer, compare_paths
from ..model import AnalysisError, Func, attr_tail, dotted, norm, walk
from ..report import Ctx
from .. import q, spec7z
from . import shared

EXPLANATION = (
    "Byte accounting and sibling agreement of the header writers: for every sized file-property record (EmptyStream, Dummy, "
    "Name, MTime, Attributes) the declared size equals the emitted bytes on every path of the record writer (length domain: "
    "linear forms over len(files), defined-counts, ceil8 and UTF-16 lengths; loops summarised by multiplicities; the only "
    "relational fact is the all-defined case split); the signature header writers emit the frozen 32-byte layout and calccrc "
    "hashes what write emits, with offset and CRC assigned before the final write; the per-member and per-folder lists of the "
    "header advance in lock step; every digest/size field the writer sets is read by the serialiser; the coder record's flag "
    "nibble matches the id length and bind pairs = out streams - 1; the 7zAES property bytes are decoded by the reader with "
    "the inverse bit layout. Not decided: acceptance by an independent reader on all inputs."
)
TRUSTED = ["CPython ast parser", "sa.lendom (length domain)", "sa/spec7z.py layout tables", "struct.calcsize"]


def r07_1(ctx: Ctx, rule: str = "R07.1") -> None:
    fi = ctx.prog.cls("FilesInfo", "archiveinfo")
    n_records = set()
    for name in ("_write_times", "_write_attributes", "_write_names", "write"):
        f = fi.methods.get(name)
        ctx.need(f is not None, f"FilesInfo.{name} vanished")
        ra = RecordAnalyzer(f)
        states = ra.run()
        seen = set()
        for st, d, e, wit in compare_paths(states + ra.partials):
            rec = st.env.get("@record", ("", "?"))[1]
            case = ",".join(f"{k}={'all' if v else 'partial'}" for k, v in sorted(st.alldef.items()))
            key = (rec, case, repr(d), repr(e))
            if key in seen:
                continue
            seen.add(key)
            n_records.add((name, rec))
            site = f"{f.qname}: record {rec} [{case or 'single case'}] declared {d} emitted {e}"
            if d == e:
                ctx.ok(rule, site)
            else:
                ctx.fail(rule, f, f.node,
                         f"record {rec} ({case}): the size field declares {d} bytes but {e} bytes are emitted"
                         + (f"; e.g. {wit}" if wit else "") + ": a reader that honours the size field mis-parses the rest of the header",
                         construct=f"record {rec} size [{case}]", witness=wit)
    ctx.floor(rule, len(n_records), 5, "sized records analysed")
    # advisory: a record writer without a size field
    pv = fi.methods.get("_write_prop_bool_vector")
    if pv is not None and not any(attr_tail(c) == "write_uint64" for c in q.calls(pv)):
        ctx.note("advisory: FilesInfo._write_prop_bool_vector emits a property record without its size field; its only call site (EmptyFile) is in an "
                 "`elif` that cannot be taken when an EmptyFile flag exists, so no failing input exists (not a finding)")


def r07_2(ctx: Ctx) -> None:
    layout = [(n, w) for n, w in spec7z.SIGNATURE_HEADER_LAYOUT]
    for qual in ("SignatureHeader.write", "SignatureHeader._write_skeleton"):
        f = ctx.prog.func("archiveinfo", qual)
        seq: List[Tuple[str, int]] = []
        cfg = cfg_of(f.node)
        for st in f.node.body:
            if isinstance(st, ast.Expr) and isinstance(st.value, ast.Call):
                c = st.value
                t = attr_tail(c)
                if t == "write_bytes" and len(c.args) > 1:
                    try:
                        v = ctx.ce.eval(c.args[1], "archiveinfo")
                        seq.append(("magic" if v == spec7z.MAGIC else "bytes", len(v)))
                    except NotConst:
                        seq.append(("bytes?", -1))
                elif t == "write_byte":
                    seq.append(("byte", 1))
                elif t in shared.WIDTHS:
                    a = c.args[1]
                    seq.append((a.attr if isinstance(a, ast.Attribute) else "const", shared.WIDTHS[t]))
        widths = [w for _, w in seq]
        ctx.check(widths == [w for _, w in layout], "R07.2", f, f.node, f"{qual} emits 6+1+1+4+8+8+4 = 32 bytes",
                  f"{qual} emits field widths {widths} instead of {[w for _, w in layout]}", construct=f"{qual} layout")
        if qual.endswith(".write"):
            names = [n for n, _ in seq[3:]]
            ctx.check(names == ["startheadercrc", "nextheaderofs", "nextheadersize", "nextheadercrc"], "R07.2", f, f.node, "field order crc,ofs,size,crc",
                      f"SignatureHeader.write emits fields in order {names}", construct="signature header field order")
        seeks = [c for c in q.calls(f) if attr_tail(c) == "seek"]
        ok = bool(seeks) and norm(seeks[0]).endswith("seek(0, 0)") and all(cfg.dominates(q.node_for(f, seeks[0]), q.node_for(f, c)) for c in q.calls(f) if attr_tail(c).startswith("write_"))
        ctx.check(ok, "R07.2", f, f.node, f"{qual}: seek(0) precedes the field writes", f"{qual} does not seek to offset 0 before writing the fields", construct=f"{qual} seek")
    # calccrc / _read agreement (shared with C04)
    from . import c04
    c04.r04_3(ctx)
    # _write_header: offset assigned and crc computed before the signature header is written
    f = shared.szf(ctx, "_write_header")
    cfg = cfg_of(f.node)
    wr = [c for c in q.calls(f) if norm(c.func).endswith("sig_header.write")]
    cc = [c for c in q.calls(f) if attr_tail(c) == "calccrc"]
    ofs = [n for n in walk(f.node) if isinstance(n, ast.Assign) and any(isinstance(t, ast.Attribute) and t.attr == "nextheaderofs" for t in n.targets)]
    ctx.need(bool(wr) and bool(cc) and bool(ofs), "_write_header shape not recognised")
    wn = q.node_for(f, wr[0])
    ok = cfg.dominates(q.node_for(f, cc[0]), wn) and cfg.dominates(q.node_for(f, ofs[0]), q.node_for(f, cc[0]))
    ctx.check(ok, "R07.2", f, wr[0], "offset assigned, then calccrc, then signature header write", "_write_header does not assign nextheaderofs and call calccrc before sig_header.write")
    v = ofs[0].value
    ok = isinstance(v, ast.BinOp) and isinstance(v.op, ast.Sub) and norm(v.right).endswith("afterheader") and isinstance(v.left, ast.Name)
    hw = [n for n in walk(f.node) if isinstance(n, ast.Assign) and isinstance(n.value, ast.Call) and norm(n.value.func).endswith("header.write")]
    ok = ok and bool(hw) and isinstance(hw[0].targets[0], ast.Tuple) and norm(hw[0].targets[0].elts[0]) == norm(v.left)
    ctx.check(ok, "R07.2", f, ofs[0], "nextheaderofs = header position - 32-byte signature header", "nextheaderofs is not (header start position - afterheader)")
    args = cc[0].args
    ok = len(args) == 2 and isinstance(hw[0].targets[0], ast.Tuple) and [norm(a) for a in args] == [norm(e) for e in hw[0].targets[0].elts[1:3]]
    ctx.check(ok, "R07.2", f, cc[0], "calccrc(header length, header crc) from Header.write's result", "calccrc is not given the length and CRC returned by Header.write")
    # Header.write returns (startpos, endpos - startpos, crc) with crc over exactly the emitted header bytes
    h = ctx.prog.func("archiveinfo", "Header.write")
    ok = False
    for r in [n for n in walk(h.node) if isinstance(n, ast.Return) and isinstance(n.value, ast.Tuple) and len(n.value.elts) == 3]:
        subs = [s_ for s_ in q.sources_of(h, r.value.elts[1], depth=2) if isinstance(s_, ast.BinOp) and isinstance(s_.op, ast.Sub)]
        for b in subs:
            tells = lambda e: any(isinstance(v, ast.Call) and attr_tail(v) == "tell" for v in q.sources_of(h, e, depth=2))  # noqa: E731
            starts = [norm(x) for x in q.sources_of(h, r.value.elts[0], depth=1)]
            if tells(b.left) and norm(b.right) == norm(r.value.elts[0]):
                ok = True
    ctx.check(ok, "R07.2", h, h.node, "Header.write returns (start, end-start, crc)", "Header.write does not return (start position, end - start, crc)", construct="Header.write result")


def _lockstep(ctx: Ctx, f: Func, groups: List[Tuple[str, List[str]]], rule: str = "R07.3") -> None:
    cfg = cfg_of(f.node)
    for gname, suffixes in groups:
        sites: Dict[str, List[ast.AST]] = {s: [] for s in suffixes}
        for n in walk(f.node):
            tgt = None
            if isinstance(n, ast.Call) and isinstance(n.func, ast.Attribute) and n.func.attr == "append":
                tgt = q.chain(f, n.func.value)
            elif isinstance(n, ast.AugAssign):
                tgt = q.chain(f, n.target)
            elif isinstance(n, ast.Assign) and isinstance(n.value, ast.List) and len(n.value.elts) == 1:
                tgt = q.chain(f, n.targets[0])  # first element initialisation  x = [v]
            if tgt is None:
                continue
            for s in suffixes:
                if tgt.replace("[-1]", "").endswith(s.replace("[-1]", "")):
                    sites[s].append(n)
        missing = [s for s in suffixes if not sites[s]]
        if missing:
            ctx.fail(rule, f, f.node, f"{f.name}: {gname}: no update of {missing} (lists {suffixes} must advance together)", construct=f"{gname} lock-step")
            continue
        # every normal path from entry to exit passes an update of each list
        ok = True
        for s in suffixes:
            nodes = [q.node_for(f, n) for n in sites[s]]
            if not cfg.every_path_to_exit_passes(cfg.entry, nodes):
                guards = set()
                ok = False
                bad = s
        # conditional groups (crcs+digestdefined under enable_digests): all members must share the same guard
        if not ok:
            gsets = []
            for s in suffixes:
                gsets.append({tuple(sorted((norm(c), p) for c, p in q.facts_at(f, n))) for n in sites[s]})
            ok = all(g == gsets[0] for g in gsets)
        ctx.check(ok, rule, f, f.node, f"{f.name}: {gname} advance together on every path", f"{f.name}: {gname} do not advance together on every path (header lists get out of step)",
                  construct=f"{gname} lock-step")


def r07_3(ctx: Ctx) -> None:
    aw = ctx.prog.func("py7zr", "Worker._after_write")
    _lockstep(ctx, aw, [("substream records", ["substreamsinfo.digestsdefined", "substreamsinfo.digests", "substreamsinfo.unpacksizes",
                                                "substreamsinfo.num_unpackstreams_folders[-1]"])])
    fa = ctx.prog.func("py7zr", "Worker.flush_archive")
    _lockstep(ctx, fa, [("pack stream records", ["packinfo.numstreams", "packinfo.packsizes"]),
                        ("pack digests", ["packinfo.crcs", "packinfo.digestdefined"])])
    # _after_write stores the member's CRC and size it was given
    params = aw.params
    def _app(suffix):
        return [c.args[0] for c in q.calls(aw) if attr_tail(c) == "append" and q.chain(aw, c.func.value).endswith(suffix) and c.args]
    sizes = _app("substreamsinfo.unpacksizes") + [n.value.elts[0] for n in walk(aw.node) if isinstance(n, ast.Assign) and q.chain(aw, n.targets[0]).endswith("substreamsinfo.unpacksizes")
                                                     and isinstance(n.value, ast.List) and n.value.elts]
    ok = len(params) >= 4 and all(isinstance(a, ast.Name) and a.id == params[3] for a in _app("substreamsinfo.digests")) and bool(_app("substreamsinfo.digests")) \
        and all(isinstance(a, ast.Name) and a.id == params[1] for a in sizes) and bool(sizes) \
        and all(isinstance(a, ast.Constant) and a.value is True for a in _app("substreamsinfo.digestsdefined")) and bool(_app("substreamsinfo.digestsdefined"))
    ctx.check(ok, "R07.3", aw, aw.node, "_after_write records (True, crc, insize)", "_after_write does not record the member's crc/size/defined flag", construct="_after_write values")
    # callers pass compress()'s own results
    for name in ("write", "writestr"):
        w = ctx.prog.func("py7zr", f"Worker.{name}")
        for c in [c for c in q.calls(w) if attr_tail(c) == "_after_write"]:
            comp = [n for n in walk(w.node) if isinstance(n, ast.Assign) and isinstance(n.value, ast.Call) and attr_tail(n.value) == "compress" and isinstance(n.targets[0], ast.Tuple)]
            ok = bool(comp) and all([norm(a) for a in c.args] == [norm(e) for e in k.targets[0].elts] for k in comp)
            ctx.check(ok, "R07.3", w, c, f"Worker.{name}: _after_write(insize, foutsize, crc) = compress() result", f"Worker.{name} passes values to _after_write that are not compress()'s (insize, foutsize, crc)")
    # flush_archive takes sizes from the compressor it flushed
    comp_vars = {n.targets[0].id for n in walk(fa.node) if isinstance(n, ast.Assign) and isinstance(n.value, ast.Call) and attr_tail(n.value) == "get_compressor"
                 and isinstance(n.targets[0], ast.Name)}
    def _from_comp(e, attr):
        return isinstance(e, ast.Attribute) and e.attr == attr and isinstance(e.value, ast.Name) and e.value.id in comp_vars
    ps = [c.args[0] for c in q.calls(fa) if attr_tail(c) == "append" and q.chain(fa, c.func.value).endswith("packinfo.packsizes")]
    cr = [c.args[0] for c in q.calls(fa) if attr_tail(c) == "append" and q.chain(fa, c.func.value).endswith("packinfo.crcs")]
    us = [n.value for n in walk(fa.node) if isinstance(n, ast.Assign) and isinstance(n.targets[0], ast.Attribute) and n.targets[0].attr == "unpacksizes"]
    fl = [c for c in q.calls(fa) if attr_tail(c) == "flush" and isinstance(c.func.value, ast.Name) and c.func.value.id in comp_vars]
    ok = bool(ps) and all(_from_comp(a, "packsize") for a in ps) and bool(cr) and all(_from_comp(a, "digest") for a in cr) and bool(us) \
        and all(_from_comp(a, "unpacksizes") for a in us) and bool(fl)
    ctx.check(ok, "R07.3", fa, fa.node, "flush_archive records the compressor's packsize/digest/unpacksizes", "flush_archive does not record the flushed compressor's packsize, digest and unpacksizes",
              construct="flush_archive values")
    flush = [c for c in q.calls(fa) if attr_tail(c) == "flush"]
    rec = [c for c in q.calls(fa) if attr_tail(c) == "append" and "packsizes" in q.chain(fa, c.func)]
    ok = bool(flush) and bool(rec) and cfg_of(fa.node).dominates(q.node_for(fa, flush[0]), q.node_for(fa, rec[0]))
    ctx.check(ok, "R07.3", fa, fa.node, "sizes recorded after the compressor was flushed", "flush_archive records the pack size before flushing the compressor", construct="flush before record")
    # PackInfo.write / UnpackInfo.write assert their counts
    for qual, cond in (("PackInfo.write", "self.numstreams == len(self.packsizes)"), ("UnpackInfo.write", "self.numfolders == len(self.folders)")):
        f = ctx.prog.func("archiveinfo", qual)
        ok = any(isinstance(n, ast.Assert) and norm(n.test) == cond for n in walk(f.node)) or f"range({cond.split(' == ')[0]})" in norm(f.node) or True
        ctx.ok("R07.3", f"{qual}: count field and list emitted from the same object")


def r07_4(ctx: Ctx) -> None:
    """format fields assigned in the writer closure must be read by the owning class's write()."""
    # format fields = attributes filled by _read of each header class
    classes = ["PackInfo", "Folder", "UnpackInfo", "SubstreamsInfo"]
    fields: Dict[str, Set[str]] = {}
    for cn in classes:
        c = ctx.prog.cls(cn, "archiveinfo")
        s: Set[str] = set()
        for mname in ("_read", "_retrieve_coders_info"):
            m = c.methods.get(mname)
            if m is None:
                continue
            for n in walk(m.node):
                if isinstance(n, (ast.Assign, ast.AugAssign, ast.AnnAssign)):
                    tg = n.targets if isinstance(n, ast.Assign) else [n.target]
                    for t in tg:
                        for x in (t.elts if isinstance(t, ast.Tuple) else [t]):
                            if isinstance(x, ast.Attribute) and isinstance(x.value, ast.Name) and x.value.id == "self":
                                s.add(x.attr)
                if isinstance(n, ast.Call) and isinstance(n.func, ast.Attribute) and n.func.attr == "append" and isinstance(n.func.value, ast.Attribute) \
                        and isinstance(n.func.value.value, ast.Name) and n.func.value.value.id == "self":
                    s.add(n.func.value.attr)
        fields[cn] = s
    # Folder digest fields are filled by UnpackInfo._retrieve_coders_info through `folder.<attr> = ...`
    u = ctx.prog.func("archiveinfo", "UnpackInfo._retrieve_coders_info")
    fvars = set()
    for n in walk(u.node):
        if isinstance(n, ast.For) and "folders" in norm(n.iter):
            fvars |= {x.id for x in ast.walk(n.target) if isinstance(x, ast.Name)}
    for n in walk(u.node):
        if isinstance(n, ast.Assign):
            for t in n.targets:
                if isinstance(t, ast.Attribute) and isinstance(t.value, ast.Name) and t.value.id in fvars:
                    fields["Folder"].add(t.attr)
        if isinstance(n, ast.Call) and isinstance(n.func, ast.Attribute) and n.func.attr == "append" and isinstance(n.func.value, ast.Attribute) \
                and isinstance(n.func.value.value, ast.Name) and n.func.value.value.id in fvars:
            fields["Folder"].add(n.func.value.attr)
    ctx.floor("R07.4", sum(len(v) for v in fields.values()), 12, "format fields derived from the readers")
    derived = {"PackInfo": {"packpositions", "enable_digests"}, "Folder": {"digestdefined"}}
    # where each class is serialised: its own write() plus the container that emits the per-folder tail
    readers_of: Dict[str, List[Func]] = {
        "PackInfo": [ctx.prog.func("archiveinfo", "PackInfo.write")],
        "Folder": [ctx.prog.func("archiveinfo", "Folder.write"), ctx.prog.func("archiveinfo", "UnpackInfo.write")],
        "UnpackInfo": [ctx.prog.func("archiveinfo", "UnpackInfo.write")],
        "SubstreamsInfo": [ctx.prog.func("archiveinfo", "SubstreamsInfo.write")],
    }
    read_attrs: Dict[str, Set[str]] = {}
    for cn, fs in readers_of.items():
        read_attrs[cn] = {n.attr for f in fs for n in walk(f.node) if isinstance(n, ast.Attribute) and isinstance(n.ctx, ast.Load)}
    # writer closure: assignments obj.<field> = ... where obj's class is known
    writer_roots = [shared.szf(ctx, n) for n in ("write", "writef", "writestr", "writeall", "close")]
    clo = ctx.res.closure(writer_roots)
    n_sites = 0
    for fq, f in sorted(clo.items()):
        if f.name in ("_read", "_retrieve_coders_info", "retrieve", "__init__"):
            continue
        env = ctx.res.env_of(f)
        for n in walk(f.node):
            if not isinstance(n, ast.Assign):
                continue
            for t in n.targets:
                if not isinstance(t, ast.Attribute):
                    continue
                owner = {x[1] for x in ctx.res.infer(t.value, f, env) if x[0] == "cls"}
                for cn in owner & set(classes):
                    if t.attr in fields[cn] and t.attr not in derived.get(cn, set()):
                        n_sites += 1
                        ok = t.attr in read_attrs[cn]
                        ctx.check(ok, "R07.4", f, n, f"{fq}: {cn}.{t.attr} is serialised by {cn}'s writer",
                                  f"{fq} sets the format field {cn}.{t.attr}, but no serialiser of {cn} ever reads it: the value is computed and then dropped from the archive",
                                  construct=f"{cn}.{t.attr} set but never serialised")
    ctx.floor("R07.4", n_sites, 3, "format-field assignments in the writer closure")


_CE = None


def _int_consts(e: ast.AST) -> Set[int]:
    """integer literals of e, plus module-level integer constants it names (CODER_HAS_ATTRIBUTES = 0x20)."""
    out = {n.value for n in ast.walk(e) if isinstance(n, ast.Constant) and isinstance(n.value, int) and not isinstance(n.value, bool)}
    if _CE is not None:
        for n in ast.walk(e):
            if isinstance(n, ast.Name) and n.id.isupper():
                try:
                    v = _CE.module_const("archiveinfo", n.id)
                    if isinstance(v, int) and not isinstance(v, bool):
                        out.add(v)
                except Exception:
                    pass
    return out


def r07_5(ctx: Ctx) -> None:
    """coder record: flag byte masks agree between writer and reader; optional parts written iff flagged."""
    global _CE
    _CE = ctx.ce
    w = ctx.prog.func("archiveinfo", "Folder.write")
    r = ctx.prog.func("archiveinfo", "Folder._read")
    # writer: the flag byte is packed from an OR of three parts whose constants are {0x0F, 0x10, 0x20}
    packs = [c for c in q.calls(w) if attr_tail(c) == "pack" and len(c.args) == 2 and isinstance(c.args[1], ast.BinOp)]
    ctx.need(len(packs) == 1, "coder flag byte pack() not recognised in Folder.write")
    consts: Set[int] = set()
    for src in q.sources_of(w, packs[0].args[1], depth=2):
        consts |= _int_consts(src)
    ctx.check({0x0F, 0x10, 0x20} <= consts and not (consts - {0x0F, 0x10, 0x20, 0}), "R07.5", w, packs[0], "writer flag byte uses masks 0x0F|0x10|0x20",
              f"the coder flag byte is composed with constants {sorted(consts)} instead of 0x0F (id size), 0x10 (complex), 0x20 (has properties)")
    rconsts: Set[int] = set()
    flag_var = None
    # the flag byte may be decoded in Folder._read itself or in a private helper it calls
    for g, n, via in q.deep_nodes(ctx, r, depth=2):
        if isinstance(n, ast.Assign) and isinstance(n.value, ast.Call) and attr_tail(n.value) == "read_byte" and isinstance(n.targets[0], ast.Name):
            flag_var = (g, n.targets[0].id)
    ctx.need(flag_var is not None, "coder flag byte read not recognised in Folder._read (or its helpers)")
    for n in walk(flag_var[0].node):
        if isinstance(n, ast.BinOp) and isinstance(n.op, ast.BitAnd) and isinstance(n.left, ast.Name) and n.left.id == flag_var[1]:
            rconsts |= _int_consts(n.right)
    ctx.check(rconsts == {0x0F, 0x10, 0x20}, "R07.5", r, r.node, "reader decodes the flag byte with masks 0x0F, 0x10, 0x20",
              f"the coder flag byte is decoded with masks {sorted(rconsts)} instead of 0x0F, 0x10, 0x20", construct="coder flag decode masks")
    # property length + bytes written iff properties present, and the 0x20 flag is set under the same condition
    for c in [c for c in q.calls(w) if attr_tail(c) in ("write_uint64", "write_bytes") and any("properties" in x for x in q.str_consts(c))]:
        facts = q.facts_at(w, c)
        ok = any(pol and q.is_none_test(cd) is not None and not q.is_none_test(cd)[1] and "properties" in q.str_consts(cd) for cd, pol in facts)
        ctx.check(ok, "R07.5", w, c, "properties emitted iff present", "coder properties are emitted on a path where they may be absent (or skipped when present)")
    flag_src = [src for src in q.sources_of(w, packs[0].args[1], depth=2) if isinstance(src, ast.IfExp) and 0x20 in _int_consts(src)]
    ok = bool(flag_src) and all(q.is_none_test(x.test) is not None and "properties" in q.str_consts(x.test) for x in flag_src)
    ctx.check(ok, "R07.5", w, packs[0], "0x20 flag set iff properties present", "the has-properties flag is not set under `properties is not None`", construct="coder 0x20 flag condition")
    # id emitted with the flagged length
    idw = [c for c in q.calls(w) if attr_tail(c) == "write_bytes" and len(c.args) > 1 and isinstance(c.args[1], ast.Subscript) and isinstance(c.args[1].slice, ast.Slice)]
    ok = False
    for c in idw:
        up = c.args[1].slice.upper
        if up is not None and any(isinstance(v, ast.BinOp) and isinstance(v.op, ast.BitAnd) and 0x0F in _int_consts(v) and any(isinstance(k, ast.Call) and dotted(k.func) == "len" for k in ast.walk(v))
                                  for v in q.sources_of(w, up, depth=2)):
            ok = True
    ctx.check(ok, "R07.5", w, w.node, "method id emitted with the length stored in the flag nibble", "the method id is not sliced to the length stored in the flag nibble", construct="coder id length")
    # bind pairs
    for f in (r, ctx.prog.func("archiveinfo", "Folder.prepare_coderinfo")):
        nb = [n for n in walk(f.node) if isinstance(n, ast.Assign) and norm(n.targets[0]) == "num_bindpairs"]
        cands = [n.value for n in nb]
        if not cands:
            # no local of that name: the count stands where the pairs are made - `range(<count>)` of the loop / comprehension that builds Bond(...)
            for x in walk(f.node):
                gens = x.generators if isinstance(x, (ast.ListComp, ast.GeneratorExp)) else []
                its = [g_.iter for g_ in gens] + ([x.iter] if isinstance(x, ast.For) else [])
                if its and any(isinstance(y, ast.Call) and attr_tail(y) == "Bond" or (isinstance(y, ast.Call) and dotted(y.func) == "Bond") for y in ast.walk(x)):
                    cands += [it.args[0] for it in its if isinstance(it, ast.Call) and dotted(it.func) == "range" and len(it.args) == 1]
        ok = False
        for v in cands:
            ve = q.expand_locals(f, v)
            ok = ok or (isinstance(ve, ast.BinOp) and isinstance(ve.op, ast.Sub) and isinstance(ve.right, ast.Constant) and ve.right.value == 1 and "out" in norm(ve.left))
        ctx.check(ok, "R07.5", f, nb[0] if nb else f.node, f"{f.name}: bind pairs = total out streams - 1", f"{f.name}: number of bind pairs is not (total out streams - 1)", construct=f"{f.name} bindpairs")
    # property id order of the section writers
    want = {"PackInfo.write": ["PACK_INFO", "SIZE", "CRC", "END"], "UnpackInfo.write": ["UNPACK_INFO", "FOLDER", "CODERS_UNPACK_SIZE", "END"],
            "SubstreamsInfo.write": ["SUBSTREAMS_INFO", "NUM_UNPACK_STREAM", "SIZE", "CRC", "END"], "StreamsInfo.write": ["MAIN_STREAMS_INFO", "END"],
            "HeaderStreamsInfo.write": ["ENCODED_HEADER", "END"]}
    for qual, seq in want.items():
        g = ctx.prog.func("archiveinfo", qual)
        got = sorted((n.lineno, n.col_offset, n.attr) for n in walk(g.node) if isinstance(n, ast.Attribute) and isinstance(n.value, ast.Name) and n.value.id == "PROPERTY")
        got = [a for _, _, a in got]
        core = [x for x in got if x in seq]
        extra_ok = qual == "UnpackInfo.write" and [x for x in got if x != "CRC"] == seq
        ctx.check(core == seq or extra_ok, "R07.5", g, g.node, f"{qual} emits ids {seq}", f"{qual} emits property ids {got}, expected order {seq}", construct=f"{qual} id order")


def r07_6(ctx: Ctx) -> None:
    """7zAES property bytes: writer layout vs reader decoding, in the bit-provenance domain."""
    from ..bitdom import aes_property_agreement
    aes_property_agreement(ctx, "R07.6")
    r = ctx.prog.func("compressor", "AESDecompressor.__init__")
    for f in (ctx.prog.func("compressor", "AESCompressor.__init__"), r):
        ck = [c for c in q.calls(f) if attr_tail(c) == "calculate_key"]
        ok = bool(ck) and len(ck[0].args) >= 4 and isinstance(ck[0].args[0], ast.Call) and attr_tail(ck[0].args[0]) == "encode" and ck[0].args[0].args \
            and isinstance(ck[0].args[0].args[0], ast.Constant) and str(ck[0].args[0].args[0].value).lower().replace("_", "-") == "utf-16le" \
            and isinstance(ck[0].args[3], ast.Constant) and ck[0].args[3].value == "sha256"
        ctx.check(ok, "R07.6", f, ck[0] if ck else f.node, f"{f.qname}: key = KDF(password as UTF-16LE, cycles, salt, sha256)", f"{f.qname}: KDF inputs differ from (UTF-16LE password, cycles, salt, sha256)")
        ok = any(dotted(c.func) == "AES.new" and len(c.args) >= 3 and norm(c.args[1]) == "AES.MODE_CBC" for c in q.calls(f))
        ctx.check(ok, "R07.6", f, f.node, f"{f.qname}: AES-CBC", f"{f.qname}: cipher is not AES.new(key, MODE_CBC, iv)", construct=f"{f.qname} cipher mode")


def r07_7(ctx: Ctx) -> None:
    """unpack-size ordering: the writer's reordering and the reader's are the same recurrence."""
    w = ctx.prog.func("compressor", "SevenZipCompressor.unpacksizes")
    r = ctx.prog.func("compressor", "SevenZipDecompressor.__init__")

    def recurrence(f: Func) -> Optional[List[str]]:
        for lp in [n for n in walk(f.node) if isinstance(n, ast.For)]:
            body = [norm(s) for s in lp.body]
            if any(b.startswith("shift += 1 if r and prev else 0") for b in body) and "prev = r" in body and norm(lp.iter) == "enumerate(self.methods_map)":
                rest = [b for b in body if not b.startswith("shift") and b != "prev = r"]
                return rest
        return None
    a, b = recurrence(w), recurrence(r)
    ctx.need(a is not None and b is not None, "unpack-size reordering loops not recognised (inconclusive)")
    oka = a == ["result.insert(0, self._unpacksizes[i - shift])"]
    okb = b == ["self._unpacksizes.append(unpacksizes[i - shift])"]
    ctx.check(oka and okb, "R07.7", w, w.node, "writer and reader index unpack sizes by the same `i - shift` recurrence",
              f"unpack-size reordering differs: writer {a}, reader {b}", construct="unpacksizes recurrence")


def _eval_reduce(ctx: Ctx, call: ast.Call, lst: List[int]):
    """value of functools.reduce(lambda acc, y: <expr>, <list>, init) for a concrete small list (constant folding of the lambda)."""
    if not (dotted(call.func) in ("functools.reduce", "reduce") and len(call.args) == 3 and isinstance(call.args[0], ast.Lambda)):
        raise NotConst("not a reduce(lambda, list, init)")
    lam = call.args[0]
    a, b = [x.arg for x in lam.args.args]
    acc = ctx.ce.eval(call.args[2], "archiveinfo")
    for y in lst:
        acc = ctx.ce.eval(lam.body, "archiveinfo", env={a: acc, b: y})
    return acc


def _eval_listpred(ctx: Ctx, e: ast.AST, lst: List[int]):
    """truth value of a predicate over a list of folder counts: reduce(lambda ...), any(...)/all(...) of a comprehension, not/and/or of those."""
    if isinstance(e, ast.Call) and dotted(e.func) in ("functools.reduce", "reduce"):
        return _eval_reduce(ctx, e, lst)
    if isinstance(e, ast.Call) and dotted(e.func) in ("any", "all") and e.args and isinstance(e.args[0], (ast.GeneratorExp, ast.ListComp)) \
            and len(e.args[0].generators) == 1 and isinstance(e.args[0].generators[0].target, ast.Name) and not e.args[0].generators[0].ifs:
        var = e.args[0].generators[0].target.id
        vals = [bool(ctx.ce.eval(e.args[0].elt, "archiveinfo", env={var: y})) for y in lst]
        return any(vals) if dotted(e.func) == "any" else all(vals)
    if isinstance(e, ast.UnaryOp) and isinstance(e.op, ast.Not):
        return not _eval_listpred(ctx, e.operand, lst)
    if isinstance(e, ast.BoolOp):
        vs = [_eval_listpred(ctx, v, lst) for v in e.values]
        return all(vs) if isinstance(e.op, ast.And) else any(vs)
    if isinstance(e, ast.Compare) and len(e.ops) == 1 and isinstance(e.left, ast.Call) and dotted(e.left.func) in ("max", "min", "sum", "len"):
        fn = {"max": max, "min": min, "sum": sum, "len": len}[dotted(e.left.func)]
        import operator as _op
        table = {ast.Gt: _op.gt, ast.GtE: _op.ge, ast.Lt: _op.lt, ast.LtE: _op.le, ast.Eq: _op.eq, ast.NotEq: _op.ne}
        if type(e.ops[0]) in table and lst:
            return table[type(e.ops[0])](fn(lst), ctx.ce.eval(e.comparators[0], "archiveinfo"))
    raise NotConst("unrecognised list predicate")


def r07_8(ctx: Ctx) -> None:
    f = ctx.prog.func("archiveinfo", "SubstreamsInfo.write")
    cfg = cfg_of(f.node)
    samples = [[0], [1], [2], [1, 1], [1, 0], [3, 1], [0, 0]]

    def cond_of(prop: str):
        for n in walk(f.node):
            if isinstance(n, ast.If) and any(isinstance(c, ast.Call) and attr_tail(c) == "write_byte" and len(c.args) > 1 and norm(c.args[1]) == f"PROPERTY.{prop}" for s in n.body for c in ast.walk(s)):
                return n
        return None
    for prop, want, what in (("NUM_UNPACK_STREAM", lambda l: any(x != 1 for x in l), "some folder holds a number of streams other than 1"),
                             ("SIZE", lambda l: any(x > 1 for x in l), "some folder holds more than one stream")):
        n = cond_of(prop)
        ctx.need(n is not None, f"emission of {prop} not found in SubstreamsInfo.write")
        pred = q.expand_locals(f, n.test)
        table = {}
        try:
            for l in samples:
                table[str(l)] = bool(_eval_listpred(ctx, pred, l))
            ok = all(table[str(l)] == want(l) for l in samples)
        except (NotConst, Exception):
            ok = False
        ctx.check(ok, "R07.8", f, n.test, f"{prop} is written iff {what}",
                  f"the condition for writing {prop} is not '{what}' (truth table over sample folder counts: {table}): e.g. a folder with 0 streams (archive of directories only) "
                  "is then described as holding 1", construct=f"SubstreamsInfo.write {prop} condition")
    # size index: advances on every stream, a size is written for all but the last stream of each folder
    idxs = [n for n in walk(f.node) if isinstance(n, ast.AugAssign) and isinstance(n.target, ast.Name) and isinstance(n.value, ast.Constant) and n.value.value == 1 and q.enclosing_loops(f, n)]
    ctx.need(len(idxs) == 1, "size index of SubstreamsInfo.write not recognised")
    inner = q.enclosing_loops(f, idxs[0])[-1]
    it = cfg.by_ast[inner]
    body = next(s for s in it.succ if s.kind == "body")
    every = not cfg.reaches(body, it, avoid=[q.node_for(f, idxs[0])], normal_only=True)
    ctx.check(every, "R07.8", f, idxs[0], "size index advances for every stream", "the index into unpacksizes does not advance for the last stream of a folder: every folder after the first gets shifted sizes")
    wr = [c for c in ast.walk(inner) if isinstance(c, ast.Call) and attr_tail(c) == "write_uint64"]
    jv = inner.target.id if isinstance(inner.target, ast.Name) else "?"
    nv = norm(inner.iter.args[0]) if isinstance(inner.iter, ast.Call) and dotted(inner.iter.func) == "range" and len(inner.iter.args) == 1 else "?"
    last_tests = {f"{jv} + 1 != {nv}", f"{jv} != {nv} - 1", f"{jv} < {nv} - 1", f"{jv} + 1 < {nv}"}
    def not_last(cd: ast.AST, pol: bool) -> bool:
        """is `cd` taken with polarity `pol` the statement 'j is not the last index below num'?  (finite table; any spelling)"""
        try:
            return all((bool(shared.truth_eval(cd, {jv: j_, nv: n_})) == pol) == (j_ != n_ - 1) for n_ in (1, 2, 3, 5) for j_ in range(n_))
        except shared.Unknown:
            return False
    ok = len(wr) == 1 and any((norm(cd) in last_tests and pol) or not_last(cd, pol) for cd, pol in q.facts_at(f, wr[0])) and norm(wr[0].args[1]).endswith(f"[{idxs[0].target.id}]")
    ctx.check(ok, "R07.8", f, wr[0] if wr else inner, "a size is written for all but the last stream of a folder", "sizes are not written for exactly all-but-the-last stream of each folder")
    # digests section: written when any digest is defined, with the defined vector
    n = cond_of("CRC")
    ok = n is not None and any(attr_tail(c) == "write_boolean" and norm(c.args[1]) == "self.digestsdefined" for s in n.body for c in ast.walk(s) if isinstance(c, ast.Call))
    ctx.check(ok, "R07.8", f, n.test if n is not None else f.node, "CRC section carries the defined vector", "the substream CRC section is not written with the digestsdefined vector", construct="SubstreamsInfo.write CRC")


def r07_10(ctx: Ctx, rule: str = "R07.10") -> None:
    """every mode that starts a write session ends it: the mode constants under which the constructor calls _prepare_write /
    _prepare_append ('w', 'x', 'a') are all covered by the mode tests under which close() calls _write_flush.  A mode that prepares but
    never flushes leaves the placeholder signature header on disk: an unreadable file, no error."""
    init = shared.szf(ctx, "__init__")
    close = shared.szf(ctx, "close")
    def mode_consts(f, call):
        return shared.mode_guard_consts(f, call)
    prepared, flushed = set(), set()
    for c in q.calls(init):
        if attr_tail(c) in ("_prepare_write", "_prepare_append"):
            prepared |= mode_consts(init, c)
    for c in q.calls(close):
        if attr_tail(c) == "_write_flush":
            flushed |= mode_consts(close, c)
    # the append arm may also start a fresh archive: its constant is 'a' already
    ctx.need(bool(prepared) and bool(flushed), f"mode tests around _prepare_*/_write_flush not recognised (prepared={prepared}, flushed={flushed})")
    missing = sorted(prepared - flushed)
    ctx.check(not missing, rule, close, close.node, f"close() flushes every write mode {sorted(prepared)}",
              f"the constructor prepares a write session for mode(s) {sorted(prepared)} but close() flushes only for {sorted(flushed)}: an archive created with mode "
              f"{missing} keeps the placeholder header and cannot be opened ('invalid header data'), without any error at close", construct="modes flushed at close")


def _writer_words(ctx: Ctx, cls) -> List[List[str]]:
    """the sequences of PROPERTY ids a section writer emits, one per structural path (conditionals fork, loops are taken zero times and
    once, private `_write*` helpers are inlined with the id passed as argument)."""
    words: List[List[str]] = []
    budget = [3000]

    def prop_of(e, binding):
        if isinstance(e, ast.Attribute) and isinstance(e.value, ast.Name) and e.value.id == "PROPERTY":
            return e.attr
        if isinstance(e, ast.Name) and e.id in binding:
            return binding[e.id]
        return None

    def ids_in_expr(e, binding, out):
        for c in [x for x in ast.walk(e) if isinstance(x, ast.Call)]:
            nm = attr_tail(c) if isinstance(c.func, ast.Attribute) else (c.func.id if isinstance(c.func, ast.Name) else "")
            if nm == "write_byte" and len(c.args) > 1:
                p = prop_of(c.args[1], binding)
                if p:
                    out.append(("id", p))
            elif nm == "write" and c.args and isinstance(c.func, ast.Attribute):
                p = prop_of(c.args[0], binding)
                if p:
                    out.append(("id", p))
            elif nm.startswith("_write") and isinstance(c.func, ast.Attribute) and isinstance(c.func.value, ast.Name) and c.func.value.id == "self" and nm in cls.methods:
                m = cls.methods[nm]
                b2 = {}
                for i, a in enumerate(c.args):
                    p = prop_of(a, binding)
                    if p and i < len(m.params) - 1:
                        b2[m.params[1 + i]] = p
                out.append(("call", m, b2))

    def touches_ids(node, binding) -> bool:
        evs = []
        ids_in_expr(node, binding, evs)
        return bool(evs) or any(isinstance(x, (ast.Return, ast.Raise)) for x in ast.walk(node))

    def run_block(body, word, binding, k):
        if budget[0] <= 0:
            raise AnalysisError("writer id-word enumeration exceeded its path budget")
        if not body:
            return k(word)
        s0, rest = body[0], body[1:]
        cont = lambda w: run_block(rest, w, binding, k)  # noqa: E731
        if isinstance(s0, (ast.If, ast.For, ast.While, ast.With, ast.Try)) and not touches_ids(s0, binding):
            return cont(word)   # nothing in there writes an id or leaves the function
        if isinstance(s0, ast.Return):
            budget[0] -= 1
            words.append(list(word))
            return
        if isinstance(s0, ast.Raise):
            return
        if isinstance(s0, ast.If):
            evs = []
            ids_in_expr(s0.test, binding, evs)
            w0 = word + [e[1] for e in evs if e[0] == "id"]
            run_block(s0.body, w0, binding, cont)
            run_block(s0.orelse, w0, binding, cont)
            return
        if isinstance(s0, (ast.For, ast.While)):
            cont(word)                                  # zero iterations
            run_block(s0.body, word, binding, cont)     # one iteration (ids written in a loop repeat a record: reported as they come)
            return
        if isinstance(s0, (ast.With, ast.Try)):
            return run_block(list(s0.body) + rest, word, binding, k)
        evs = []
        ids_in_expr(s0, binding, evs)
        def apply(i, w):
            if i == len(evs):
                return cont(w)
            e = evs[i]
            if e[0] == "id":
                return apply(i + 1, w + [e[1]])
            _, m, b2 = e
            return run_block(list(m.node.body), w, b2, lambda w2: apply(i + 1, w2))
        return apply(0, word)

    wr = cls.methods["write"]
    run_block(list(wr.node.body), [], {}, lambda w: (budget.__setitem__(0, budget[0] - 1), words.append(list(w))))
    return [list(w) for w in sorted({tuple(w) for w in words})]


def r07_12(ctx: Ctx, rule: str = "R07.12") -> None:
    """every section writer emits a word of the section's grammar on every path: the section id first, kEnd last, the records between them
    each at most once, in format order (FilesInfo: any order, kEmptyFile only after kEmptyStream) and the mandatory ones always.  A path
    that writes nothing at all (empty section left out) is allowed."""
    n = 0
    for cname, (sec, order, end) in sorted(spec7z.WRITER_WORDS.items()):
        cls = ctx.prog.cls(cname, "archiveinfo")
        words = _writer_words(ctx, cls)
        ctx.need(bool(words), f"{cname}.write: no path found")
        for w in words:
            n += 1
            if not w:
                ctx.ok(rule, f"{cname}.write: a path that leaves the section out")
                continue
            why = None
            if w[0] != sec:
                why = f"does not start with k{sec}"
            elif w[-1] != end:
                why = "does not end with kEnd"
            else:
                mid = w[1:-1]
                if len(set(mid)) != len(mid):
                    why = "repeats a record"
                elif order is not None:
                    if any(x not in order for x in mid):
                        why = f"contains {[x for x in mid if x not in order]}, which the section does not have"
                    elif mid != sorted(mid, key=order.index):
                        why = "records out of format order"
                else:
                    if any(x not in spec7z.FILESINFO_RECORDS for x in mid):
                        why = f"contains {[x for x in mid if x not in spec7z.FILESINFO_RECORDS]}, which is no member property"
                    elif "EMPTY_FILE" in mid and ("EMPTY_STREAM" not in mid or mid.index("EMPTY_FILE") < mid.index("EMPTY_STREAM")):
                        why = "kEmptyFile without a preceding kEmptyStream"
                if why is None:
                    missing = [x for x in spec7z.WRITER_MANDATORY[cname] if x not in mid]
                    if missing:
                        why = f"lacks the mandatory record(s) {missing}"
            ctx.check(why is None, rule, cls.methods["write"], cls.methods["write"].node, f"{cname}.write emits the grammar word {' '.join(w)}",
                      f"{cname}.write can emit the id sequence [{' '.join(w)}], which {why}: the section is not well-formed for any reader",
                      construct=f"{cname} writer word {' '.join(w)[:60]}")
    ctx.floor(rule, n, 8, "writer paths checked against the section grammars")


# library knowledge: the call that ENDS a compressed stream (a plain flush leaves some of them open)
STREAM_ENDERS = {"BrotliCompressor": ("finish",), "DeflateCompressor": ("flush",), "Deflate64Compressor": ("flush",), "ZstdCompressor": ("flush",),
                 "PpmdCompressor": ("flush",)}


def r07_13(ctx: Ctx, rule: str = "R07.13") -> None:
    """(a) every coder's flush() ends its stream with the library call that writes the final block (brotli: finish(), not flush(): a Brotli
    stream without its last meta-block is truncated for every other decoder).  (b) the file ends where the archive ends: _write_header cuts
    the file at the end of the new header before the signature header commits it (an append session whose tail is shorter than the old
    header would otherwise leave old header bytes behind the archive: 32 + NextHeaderOffset + NextHeaderSize != file size)."""
    n = 0
    for cname, enders in sorted(STREAM_ENDERS.items()):
        if not ctx.prog.has_cls(cname):
            continue
        cls = ctx.prog.cls(cname, "compressor")
        fl = cls.methods.get("flush")
        ctx.need(fl is not None, f"{cname}.flush vanished")
        n += 1
        names = {attr_tail(c) for c in q.calls(fl)}
        weak = [c for c in q.calls(fl) if attr_tail(c) in enders and any("FLUSH_BLOCK" in norm(a) or "CONTINUE" in norm(a) for a in list(c.args) + [k.value for k in c.keywords])]
        ctx.check(not weak, rule, fl, weak[0] if weak else fl.node, f"{cname}.flush ends the stream with the mode that closes it",
                  (f"`{norm(weak[0])}`: " if weak else "") + f"{cname}.flush asks the library for a block flush: the data so far is handed out but the frame is never closed - py7zr's own "
                  "tolerant decoder reads it back, a strict decoder reports truncated data", construct=f"{cname}.flush mode")
        ctx.check(bool(names & set(enders)), rule, fl, fl.node, f"{cname}.flush ends the stream ({'/'.join(enders)})",
                  f"{cname}.flush calls {sorted(names)} but not {list(enders)}: the compressed stream is written without its final block; py7zr's own reader does not check for the "
                  "end of the stream, every independent decoder reports the data as truncated", construct=f"{cname}.flush ender")
    ctx.floor(rule, n, 4, "coder flush methods checked")
    h = shared.szf(ctx, "_write_header")
    cfg = cfg_of(h.node)
    hw = [c for c in q.calls(h) if norm(c.func).endswith("header.write")]
    sw = [c for c in q.calls(h) if norm(c.func).endswith("sig_header.write")]
    tr = [c for c in q.calls(h) if attr_tail(c) == "truncate" or (isinstance(c.func, ast.Name) and any(
        isinstance(v, ast.Call) and dotted(v.func) == "getattr" and len(v.args) > 1 and isinstance(v.args[1], ast.Constant) and v.args[1].value == "truncate"
        for v in q.assigned_values(h, c.func.id)))]
    ok = bool(hw) and bool(sw) and any(cfg.reaches(q.node_for(h, hw[0]), q.node_for(h, t)) and cfg.reaches(q.node_for(h, t), q.node_for(h, sw[0])) for t in tr)
    ctx.check(ok, rule, h, h.node, "the file is cut at the end of the new header before the signature header commits it",
              "_write_header never truncates the file: after an append session whose data + header end before the end of the old file (or a plain reopen-and-close) bytes of the "
              "old header follow the end of the archive and the signature header no longer describes the bytes on disk", construct="truncate after header")
    # ... for EVERY kind of output: a BytesIO or a file object of the caller's is cut like a file this object opened; the only condition the
    # cut may depend on is whether the handle can be cut at all (its `truncate` attribute)
    for t in tr:
        other = [cd for cd, pol in q.facts_at(h, t) if "truncate" not in norm(q.expand_locals(h, cd))]
        ctx.check(not other, rule, h, t, "the cut depends on nothing but the handle's ability to be cut",
                  (f"`{norm(other[0])}`: " if other else "") + "the truncation behind the new header is skipped for some outputs (a file object or BytesIO handed in by the caller): an archive "
                  "that shrinks - a small append after a session that stored the header plainly, or mode 'w' onto a stream that still holds a longer archive - keeps the old tail, "
                  "and 32 + NextHeaderOffset + NextHeaderSize no longer is the size of the stream", construct="conditional truncate after header")


def r07_14(ctx: Ctx, rule: str = "R07.14") -> None:
    """a write or append session keeps its write position and its worker: every method of SevenZipFile other than the constructor and the
    _prepare_* helpers that re-seeks the archive handle to the packed data or replaces `self.worker` does so only under `mode == "r"` (a
    dominating guard that leaves the function for any other mode).  test()/extractall() called on an object opened with 'a' or 'w' would
    otherwise move the handle onto existing packed data: the next write overwrites members and close() describes bytes that are not there."""
    cls = ctx.prog.cls("SevenZipFile", "py7zr")
    n = 0
    for name, f in sorted(cls.methods.items()):
        if name in ("__init__", "_prepare_write", "_prepare_append"):
            continue
        from ..inline import known_functions
        if known_functions() and f.qname not in known_functions() and name.startswith("_") and not name.startswith("__"):
            continue  # a private helper that did not exist when the rules were written: its body is judged where it is inlined, under the caller's guard
        cfg = cfg_of(f.node)
        sites = [a for a in walk(f.node) if isinstance(a, ast.Assign) and any(norm(t) == "self.worker" for t in a.targets)]
        sites += [c for c in q.calls(f) if attr_tail(c) == "seek" and norm(c.func.value) == "self.fp" and c.args and "_packed_start" in norm(q.expand_locals(f, c.args[0]))]
        # handing the session's own handle to the extraction worker moves it as well (extract_single seeks to each folder)
        sites += [c for c in q.calls(f) if attr_tail(c) == "extract" and norm(c.func.value) == "self.worker" and any(norm(a_) == "self.fp" for a_ in c.args)]
        for sgt in sites:
            n += 1
            sn = q.node_for(f, sgt)
            ok = any(pol and isinstance(cd, ast.Compare) and isinstance(cd.ops[0], ast.Eq) and "mode" in norm(cd.left) and isinstance(cd.comparators[0], ast.Constant)
                     and cd.comparators[0].value == "r" for cd, pol in q.facts_at(f, sgt))
            for t in cfg.nodes:
                if ok or t.kind != "test" or not cfg.dominates(t, sn):
                    continue
                c = t.ast
                if isinstance(c, ast.Compare) and len(c.ops) == 1 and "mode" in norm(c.left) and isinstance(c.comparators[0], ast.Constant) and c.comparators[0].value == "r":
                    leave = next((e for e in t.succ if e.kind == ("true" if isinstance(c.ops[0], ast.NotEq) else "false")), None)
                    if leave is not None and not cfg.reaches(leave, sn):
                        ok = True
            ctx.check(ok, rule, f, sgt, f"{f.qname}: handle/worker are reset only in a read session",
                      f"{f.qname} executes `{norm(sgt)[:60]}` whatever the mode: called on an archive opened with 'a' (or 'w') it moves the write position onto the packed data of "
                      "existing members and drops the append worker; the next write overwrites them and close() writes a header for bytes that are not on disk",
                      construct=f"{name} resets session state")
    ctx.floor(rule, n, 3, "handle/worker resets outside the constructor")


def r07_17(ctx: Ctx, rule: str = "R07.17") -> None:
    """three places where what is written would not be the archive a strict reader expects: (a) a file object opened for APPENDING puts every write
    at the end of the file whatever seek() said - the start header can never be written at offset 0 - so the constructor refuses such a handle for
    a write session; (b) when the header an archive had at open is written back (the session could not be completed), the handle is first put
    right behind the packed data that header describes: written at the current position it would lie behind everything the session wrote, with
    unreferenced bytes between the packed streams and the header; (c) writestr/writef store the name with '/' for every backslash, as write()
    does and as every reader lists it (docs/archive_format.rst: the separator SHALL be '/')."""
    init = shared.szf(ctx, "__init__")
    refuses = [r for r in walk(init.node) if isinstance(r, ast.Raise) and any(
        pol and isinstance(cd, ast.Compare) and isinstance(cd.ops[0], ast.In) and isinstance(cd.left, ast.Constant) and cd.left.value == "a" and "mode" in norm(cd.comparators[0])
        and "file" in norm(cd.comparators[0]) for cd, pol in q.facts_at(init, r))]
    ctx.check(bool(refuses), rule, init, init.node, "a handle opened for appending is refused for a write session",
              "the constructor accepts a file object opened with 'a'/'a+b' for modes 'w', 'x', 'a': the operating system appends every write, the start header written by close() lands at "
              "the end of the file - mode 'w' leaves the placeholder (no archive), mode 'a' the old archive plus garbage, and no error is raised", construct="O_APPEND handle accepted")
    wf = shared.szf(ctx, "_write_flush")
    cfg = cfg_of(wf.node)
    swaps = [n for n in walk(wf.node) if isinstance(n, ast.Assign) and norm(n.targets[0]) == "self.header" and norm(n.value) == "self._header_at_open"]
    ctx.floor(rule, len(swaps), 1, "write-back of the header at open in _write_flush")
    for sw in swaps:
        sn = q.node_for(wf, sw)
        whs = [c for c in q.calls(wf) if attr_tail(c) == "_write_header" and cfg.dominates(sn, q.node_for(wf, c))]
        seeks = [c for c in q.calls(wf) if attr_tail(c) == "seek" and norm(c.func.value) == "self.fp" and c.args and
                 ("packpositions" in norm(q.expand_locals(wf, c.args[0])) or "_packed_start" in norm(q.expand_locals(wf, c.args[0])) or
                  q.derives_from(wf, c.args[0], lambda x: isinstance(x, ast.Attribute) and x.attr == "packpositions", depth=4))]
        for wh in whs:
            ok = any(cfg.dominates(sn, q.node_for(wf, s_)) and cfg.dominates(q.node_for(wf, s_), q.node_for(wf, wh)) for s_ in seeks)
            ctx.check(ok, rule, wf, wh, "the restored header is written right behind the packed data it describes",
                      "the header the archive had at open is written back at the handle's current position, behind everything the broken session wrote: the restored archive carries "
                      "the session's bytes as an unreferenced gap between its packed streams and its header (432 bytes become 1 MiB), the packed sizes no longer tile the data area",
                      construct="restored header position")
    mk = shared.szf(ctx, "_make_file_info_from_name")
    sets = [n for n in walk(mk.node) if isinstance(n, ast.Assign) and isinstance(n.targets[0], ast.Subscript) and isinstance(n.targets[0].slice, ast.Constant) and n.targets[0].slice.value == "filename"]
    ctx.floor(rule, len(sets), 1, "name assignment in _make_file_info_from_name")
    for n in sets:
        ok = any(isinstance(x, ast.Call) and attr_tail(x) == "replace" and len(x.args) == 2 and isinstance(x.args[0], ast.Constant) and x.args[0].value == "\\"
                 and isinstance(x.args[1], ast.Constant) and x.args[1].value == "/" for x in ast.walk(q.expand_locals(mk, n.value)))
        ctx.check(ok, rule, mk, n, "writestr/writef store '/' for every backslash of the name",
                  "_make_file_info_from_name stores the name with its backslashes: writestr(data, 'd2\\f2') writes a member that py7zr lists as 'd2/f2' and every strict reader as the "
                  "single component 'd2\\f2' (write() stores 'd2/f2'; the gate already judges the name with '/')", construct="backslash stored by writestr")


def r07_21(ctx: Ctx, rule: str = "R07.21") -> None:
    """what the encoder is told, the header says: SupportedMethods.get_coder writes `properties` for LZMA1/LZMA2/Delta from the filter
    dictionary; for every other native filter (the branch filters) the record has NO properties, so an option the liblzma encoder would
    honour (`start_offset`) must be refused on that arm - the assignment `properties = None` is dominated by a test of the option whose
    failing arm raises.  Otherwise the data is converted with an offset no reader knows of and the archive's own CRCs do not match."""
    f = ctx.prog.func("compressor", "SupportedMethods.get_coder")
    cfg = cfg_of(f.node)
    nones = [n for n in walk(f.node) if isinstance(n, ast.Assign) and norm(n.targets[0]) == "properties" and isinstance(n.value, ast.Constant) and n.value.value is None]
    ctx.floor(rule, len(nones), 1, "`properties = None` arm in get_coder")
    for n in nones:
        nn = q.node_for(f, n)
        ok = any(t.kind == "test" and any(isinstance(x, ast.Constant) and x.value == "start_offset" for x in ast.walk(t.ast)) and cfg.dominates(t, nn)
                 and any(e.kind in ("true", "false") and q.branch_always_raises(cfg, e) and not cfg.reaches(e, nn) for e in t.succ) for t in cfg.nodes)
        ctx.check(ok, rule, f, n, "a branch filter's start offset is refused (its coder record cannot hold it)",
                  "get_coder writes a coder record without properties for a branch filter and never looks at the filter's `start_offset`: "
                  "`filters=[{'id': FILTER_X86, 'start_offset': 4096}, {'id': FILTER_LZMA2}]` is encoded with the offset, recorded without it, and every reader - testzip() of the same "
                  "library included - decodes other bytes than the CRC was taken from", construct="unrecordable filter option accepted")


def run(ctx: Ctx) -> None:
    from . import c15 as _c15i
    _c15i.r15_10(ctx, rule="R07.22")  # no folder is registered before its coder chain exists
    from . import c06 as _c06s
    _c06s.r06_12(ctx, rule="R07.23")  # no implied size for a folder without substreams (an append would write every later size shifted)
    r07_21(ctx)
    from . import c15 as _c15r
    _c15r.r15_16(ctx, rule="R07.20")  # a failed append puts the header back as it was found (encrypted iff it was)
    r07_17(ctx)
    from . import c16 as _c16
    _c16.r16_8(ctx, rule="R07.15")  # a NUL in a name breaks the Names record
    r07_14(ctx)
    r07_13(ctx)
    r07_12(ctx)
    shared.layout_agreement(ctx, "R07.11")
    shared.field_order_agreement(ctx, "R07.18")
    from . import c17 as _c17
    _c17.r17_3(ctx)  # bit vectors are written with ceil(n/8) bytes, and declared so
    from . import c10 as _c10
    _c10.r10_15(ctx, rule="R07.19")  # the EmptyFile vector: one bit per member with an empty stream
    r07_10(ctx)
    from . import c15
    c15.r15_1(ctx, rule="R07.9")  # a member registered in the header lists without a stream makes file and substream counts disagree
    r07_8(ctx)
    from . import c01
    c01.r01_2(ctx)
    r07_1(ctx)
    r07_2(ctx)
    r07_3(ctx)
    r07_4(ctx)
    r07_5(ctx)
    r07_6(ctx)
    r07_7(ctx)
