"""C16 — member names are kept relative on write."""
from __future__ import annotations

import ast
from typing import List

from ..cfg import cfg_of
from ..model import Func, attr_tail, dotted, norm, walk
from ..report import Ctx
from .. import q
from . import shared

EXPLANATION = (
    "Gate analysis: writestr/writef reject (raise ValueError) under a false check_archive_path before the delegate call and "
    "before any state change (CFG dominance + guard polarity); _writestr/_writef have no callers outside the gated pair "
    "(who-may-call over the resolved call graph); in write() every definition of the stored name that reaches "
    "_make_file_info is a _sanitize_archive_arcname call; the sanitiser returns only where `isabs or drive` is known false; "
    "check_archive_path rejects absolute names first, delegates to the shared is_path_valid, and rejects a name whose own "
    "components climb above its root independently of the probe directory. Not decided: exactness of the lexical verdict "
    "for every string (value-level arithmetic of a pure function)."
)
TRUSTED = ["CPython ast parser", "sa.cfg dominators/guards", "sa.resolve who-may-call"]


def r16_1(ctx: Ctx) -> None:
    for pub, priv in (("writestr", "_writestr"), ("writef", "_writef")):
        f = shared.szf(ctx, pub)
        cfg = cfg_of(f.node)
        dele = [c for c in q.calls(f) if attr_tail(c) == priv]
        ctx.floor("R16.1", len(dele), 1, f"{priv} call in {pub}")
        for d in dele:
            facts = q.facts_at(f, d)
            gate = [c for c, pol in facts if pol and isinstance(c, ast.Call) and attr_tail(c) == "check_archive_path"]
            same_arg = False
            for g in gate:
                # gate argument is the name argument passed on
                if g.args and any(q.same(g.args[0], a) for a in list(d.args) + [k.value for k in d.keywords]):
                    same_arg = True
            raises = False
            for tn in cfg.nodes:
                if tn.kind == "test" and any(isinstance(x, ast.Call) and attr_tail(x) == "check_archive_path" for x in ast.walk(tn.ast)):
                    for pol in (True, False):
                        for atom, ap in q.atoms(tn.ast, pol):
                            if isinstance(atom, ast.Call) and attr_tail(atom) == "check_archive_path" and not ap:
                                edge = next((s for s in tn.succ if s.kind == ("true" if pol else "false")), None)
                                reach = cfg.reachable_from(edge) if edge else set()
                                if edge and cfg.exit not in reach and any(
                                        n.kind == "stmt" and isinstance(n.ast, ast.Raise) and isinstance(n.ast.exc, ast.Call)
                                        and dotted(n.ast.exc.func) == "ValueError" for n in reach):
                                    raises = True
            if not raises:
                # the gate may refuse for more reasons than one (`not check(name) or <other refusal>`): whenever the check fails the test holds, and its
                # true edge raises ValueError
                for tn in cfg.nodes:
                    if tn.kind == "test" and shared.on_when(f, tn.ast, lambda x: isinstance(x, ast.UnaryOp) and isinstance(x.op, ast.Not) and isinstance(x.operand, ast.Call)
                                                             and attr_tail(x.operand) == "check_archive_path"):
                        edge = next((s_ for s_ in tn.succ if s_.kind == "true"), None)
                        reach = cfg.reachable_from(edge) if edge else set()
                        if edge and cfg.exit not in reach and any(n.kind == "stmt" and isinstance(n.ast, ast.Raise) and isinstance(n.ast.exc, ast.Call)
                                                                  and dotted(n.ast.exc.func) == "ValueError" for n in reach):
                            raises = True
            ctx.check(bool(gate) and same_arg and raises, "R16.1", f, d, f"{pub}: check_archive_path gate dominates {priv}; rejection raises ValueError",
                      f"{pub} reaches {priv} without a true check_archive_path(<same name>) guard, or the rejecting branch does not raise ValueError")
            # nothing state-changing before the gate: no attribute stores / appends before the delegate
            pre = []
            for n in cfg.nodes:
                if n.kind == "stmt" and n.ast is not None and cfg.reaches(n, q.node_for(f, d)) and n is not q.node_for(f, d):
                    for x in ast.walk(n.ast):
                        if isinstance(x, ast.Call) and isinstance(x.func, ast.Attribute) and x.func.attr in ("append", "initialize", "archive", "write", "add"):
                            pre.append(x)
                        if isinstance(x, (ast.Assign, ast.AugAssign)):
                            tg = x.targets if isinstance(x, ast.Assign) else [x.target]
                            if any(isinstance(t, (ast.Attribute, ast.Subscript)) for t in tg):
                                pre.append(x)
            ctx.check(not pre, "R16.1", f, f.node, f"{pub}: no state change before the gate", f"{pub} changes archive state before the name is validated",
                      construct=f"{pub} pre-gate effects")


def r16_2(ctx: Ctx) -> None:
    allowed = {"_writestr": {"py7zr:SevenZipFile.writestr"}, "_writef": {"py7zr:SevenZipFile.writef", "py7zr:SevenZipFile._writestr"}}
    for priv, ok_callers in allowed.items():
        tq = shared.szf(ctx, priv).qname
        callers = shared.calls_to(ctx, tq)
        ctx.floor("R16.2", len(callers), 1, f"callers of {priv}")
        for f, c in callers:
            ctx.check(f.qname in ok_callers, "R16.2", f, c, f"{priv} called from gated {f.qname}",
                      f"{priv} (the ungated variant) is called from {f.qname}, which does not pass the check_archive_path gate")
        # also textual calls by name anywhere in the package (covers unresolved receivers, e.g. cli)
        for g in ctx.prog.all_funcs:
            for c in q.calls(g):
                if attr_tail(c) == priv and g.qname not in ok_callers and (g, c) not in callers:
                    ctx.fail("R16.2", g, c, f"{priv} (the ungated variant) is called from {g.qname}")


def r16_3(ctx: Ctx) -> None:
    f = shared.szf(ctx, "write")
    cfg = cfg_of(f.node)
    mk = [c for c in q.calls(f) if attr_tail(c) == "_make_file_info"]
    ctx.floor("R16.3", len(mk), 1, "_make_file_info call in write")
    for c in mk:
        name_arg = c.args[1] if len(c.args) > 1 else next((k.value for k in c.keywords if k.arg == "arcname"), None)
        if not isinstance(name_arg, ast.Name):
            ok = isinstance(name_arg, ast.Call) and attr_tail(name_arg) == "_sanitize_archive_arcname"
            ctx.check(ok, "R16.3", f, c, "name passed to _make_file_info is sanitised", "write() stores a name that did not pass _sanitize_archive_arcname")
            continue
        defs = [n for n in walk(f.node) if isinstance(n, ast.Assign) and any(isinstance(t, ast.Name) and t.id == name_arg.id for t in n.targets)]
        clean_defs = [d for d in defs if isinstance(d.value, ast.Call) and attr_tail(d.value) == "_sanitize_archive_arcname"]
        dirty_defs = [d for d in defs if d not in clean_defs]
        cn = q.node_for(f, c)
        bypass = cfg.reaches(cfg.entry, cn, avoid=[q.node_for(f, d) for d in clean_defs])
        dirty_reach = any(cfg.reaches(q.node_for(f, d), cn, avoid=[q.node_for(f, k) for k in clean_defs]) for d in dirty_defs)
        ctx.check(not bypass and not dirty_reach, "R16.3", f, c, "every definition of the stored name reaching _make_file_info is sanitised",
                  "write() can reach _make_file_info with a name that did not pass _sanitize_archive_arcname (absolute source paths would be stored as absolute member names)")
    w = shared.szf(ctx, "_writeall")
    bad = [c for c in q.calls(w) if attr_tail(c) in ("_writef", "_writestr", "archive", "_make_file_info")]
    ctx.check(not bad and any(attr_tail(c) == "write" for c in q.calls(w)), "R16.3", w, w.node, "_writeall archives through write() only",
              "_writeall bypasses write() (and its name sanitiser)", construct="_writeall delegates")


def r16_4(ctx: Ctx) -> None:
    f = shared.szf(ctx, "_sanitize_archive_arcname")
    rets = [n for n in walk(f.node) if isinstance(n, ast.Return)]
    ctx.floor("R16.4", len(rets), 1, "returns in _sanitize_archive_arcname")
    for r in rets:
        facts = q.facts_at(f, r)
        rv = norm(r.value) if r.value is not None else ""
        not_abs = any((not pol) and isinstance(c, ast.Call) and dotted(c.func).endswith("isabs") and c.args and norm(c.args[0]) == rv for c, pol in facts)
        def _drive_test(c: ast.AST) -> bool:
            if not isinstance(c, ast.Call):
                return False
            if dotted(c.func) == "re.match" and len(c.args) > 1 and norm(c.args[1]) == rv and isinstance(c.args[0], ast.Constant) and ":" in str(c.args[0].value):
                return True
            # a precompiled module-level pattern:  _DRIVE.match(path)
            if isinstance(c.func, ast.Attribute) and c.func.attr == "match" and isinstance(c.func.value, ast.Name) and c.args and norm(c.args[0]) == rv:
                for st in ctx.prog.module("py7zr").tree.body:
                    if isinstance(st, ast.Assign) and norm(st.targets[0]) == c.func.value.id and isinstance(st.value, ast.Call) and dotted(st.value.func) == "re.compile" \
                            and st.value.args and isinstance(st.value.args[0], ast.Constant) and ":" in str(st.value.args[0].value):
                        return True
            return False
        no_drive = any((not pol) and _drive_test(c) for c, pol in facts)
        ctx.check(not_abs and no_drive, "R16.4", f, r, "sanitiser returns only a path known non-absolute and drive-free",
                  "the arcname sanitiser returns on a path where `isabs(path) or drive-prefix` has not been established false for the returned value")


def r16_5(ctx: Ctx) -> None:
    f = ctx.prog.func("helpers", "check_archive_path")
    cfg = cfg_of(f.node)
    rets = [n for n in walk(f.node) if isinstance(n, ast.Return)]
    # absolute -> False
    abs_ok = False
    for r in rets:
        if isinstance(r.value, ast.Constant) and r.value.value is False:
            if any(pol and isinstance(c, ast.Call) and attr_tail(c) in ("is_absolute", "isabs") for c, pol in q.facts_at(f, r)):
                abs_ok = True
    ctx.check(abs_ok, "R16.5", f, f.node, "absolute names rejected first", "check_archive_path does not reject absolute names before the relative probe",
              construct="check_archive_path absolute test")
    # every accepting return delegates to is_path_valid(probe.joinpath(name), probe)
    acc = [r for r in rets if not (isinstance(r.value, ast.Constant) and r.value.value is False)]
    for r in acc:
        v = r.value
        calls_valid = [c for c in ast.walk(v) if isinstance(c, ast.Call) and attr_tail(c) == "is_path_valid"] if v is not None else []
        good = False
        for c in calls_valid:
            if len(c.args) >= 2 and isinstance(c.args[0], ast.Call) and attr_tail(c.args[0]) == "joinpath" and q.same(c.args[0].func.value, c.args[1]):
                good = True
        if isinstance(v, ast.Constant) and v.value is True:
            good = any(pol and isinstance(c, ast.Call) and attr_tail(c) == "is_path_valid" for c, pol in q.facts_at(f, r))
        ctx.check(good, "R16.5", f, r, "acceptance is the shared is_path_valid verdict on probe/name", "check_archive_path accepts a name without the is_path_valid(probe.joinpath(name), probe) verdict")
    # independent climb check: a rejecting exit control-dependent on the name's own components
    climb = False
    for g, lp, via in q.deep_nodes(ctx, f, depth=2):
        if not (isinstance(lp, ast.For) and any(isinstance(x, ast.Attribute) and x.attr == "parts" for x in ast.walk(lp.iter))):
            continue
        has_dotdot = any(isinstance(x, ast.Constant) and x.value == ".." for x in ast.walk(lp))
        rej = [x for x in walk(lp) if isinstance(x, ast.Return) and isinstance(x.value, ast.Constant) and isinstance(x.value.value, bool)]
        # a counter of the loop (stepped by +=/-= in it) is compared with 0/-1 - `depth < 0` after the step, or `depth == 0` / `not depth` before it
        counters = {norm(x.target) for x in ast.walk(lp) if isinstance(x, ast.AugAssign) and isinstance(x.op, (ast.Add, ast.Sub))}
        neg = any(isinstance(x, ast.Compare) and len(x.ops) == 1 and isinstance(x.ops[0], (ast.Lt, ast.LtE, ast.Eq)) and isinstance(x.comparators[0], ast.Constant)
                  and x.comparators[0].value in (0, -1) and norm(x.left) in counters for x in ast.walk(lp)) or \
            any(isinstance(x, ast.UnaryOp) and isinstance(x.op, ast.Not) and norm(x.operand) in counters for x in ast.walk(lp))
        if not (has_dotdot and rej and neg):
            continue
        if g is f:
            climb = all(x.value.value is False for x in rej)
        else:
            # the helper's verdict must lead to rejection in check_archive_path: `if helper(name): return False` / `if not helper(name): return False`
            rejecting_value = rej[0].value.value
            for tn in cfg.nodes:
                if tn.kind == "test" and via is not None and any(x is via for x in ast.walk(tn.ast)):
                    for pol in (True, False):
                        for atom, ap in q.atoms(tn.ast, pol):
                            if atom is via and ap == rejecting_value:
                                edge = next((s_ for s_ in tn.succ if s_.kind == ("true" if pol else "false")), None)
                                if edge is not None and all(isinstance(s_.ast, ast.Return) and isinstance(s_.ast.value, ast.Constant) and s_.ast.value.value is False for s_ in edge.succ):
                                    climb = True
    # alternative form: the lexically resolved name (normpath) is looked at for a leading '..' and refused (a normpath call for another purpose - the
    # drive test on the resolved name - says nothing about climbing)
    normp = False
    for tn in cfg.nodes:
        if tn.kind != "test":
            continue
        for x in ast.walk(tn.ast):
            dd = (isinstance(x, ast.Call) and attr_tail(x) == "startswith" and x.args and any(isinstance(k, ast.Constant) and isinstance(k.value, str) and k.value.startswith("..") for k in ast.walk(x.args[0]))
                  and q.derives_from(f, x.func.value, lambda v: isinstance(v, ast.Call) and (dotted(v.func) or "").endswith("normpath"), depth=3)) or \
                 (isinstance(x, ast.Compare) and any(isinstance(k, ast.Constant) and k.value == ".." for k in x.comparators)
                  and q.derives_from(f, x.left, lambda v: isinstance(v, ast.Call) and (dotted(v.func) or "").endswith("normpath"), depth=3))
            if dd and any(e.kind == "true" and all(isinstance(s_.ast, ast.Return) and isinstance(s_.ast.value, ast.Constant) and s_.ast.value.value is False for s_ in e.succ) for e in tn.succ):
                normp = True
    ctx.check(climb or normp, "R16.5", f, f.node, "names climbing above their own root are rejected independently of the probe directory",
              "check_archive_path decides only on the path joined to a fixed probe directory: a name that climbs out with '..' and re-enters by "
              "spelling the probe's own components (../dafj08sajfa/x) is accepted although it climbs above the archive root",
              construct="check_archive_path climb check")


def r16_6(ctx: Ctx) -> None:
    """the shared containment verdict (is_path_valid -> is_relative_to) is sound and complete for the root itself."""
    h = ctx.prog.func("helpers", "is_relative_to")
    hc = cfg_of(h.node)
    trues = [n for n in walk(h.node) if isinstance(n, ast.Return) and isinstance(n.value, ast.Constant) and n.value.value is True]
    rel = [c for c in q.calls(h) if attr_tail(c) == "relative_to"]
    ok = bool(trues) and bool(rel)
    for t in trues:
        tn = q.node_for(h, t)
        for hn in [n for n in hc.nodes if n.kind == "handler"]:
            if hc.reaches(hn, tn):
                ok = False
        if rel and not hc.dominates(q.node_for(h, rel[0]), tn):
            ok = False
    for r in [n for n in walk(h.node) if isinstance(n, ast.Return) and n not in trues]:
        if not (isinstance(r.value, ast.Constant) and r.value.value is False):
            ok = False
    ctx.check(ok, "R16.6", h, h.node, "is_relative_to: True iff PurePath.relative_to succeeds (the root itself counts as inside)",
              "is_relative_to is no longer 'relative_to() succeeded': e.g. a membership test in .parents rejects a name that resolves exactly to the root ('a/..'), "
              "so writestr/writef refuse names that stay inside", construct="is_relative_to verdict")
    base_canon = any(isinstance(a, ast.Call) and attr_tail(a) == "canonical_path" for c in rel for a in c.args)
    ctx.check(base_canon, "R16.6", h, rel[0] if rel else h.node, "base canonicalised", "is_relative_to compares against a non-canonical base")
    g = ctx.prog.func("helpers", "is_path_valid")
    for r in [n for n in walk(g.node) if isinstance(n, ast.Return)]:
        v = q.expand_locals(g, r.value) if r.value is not None else None
        good = isinstance(v, ast.Call) and attr_tail(v) == "is_relative_to" and v.args and isinstance(v.args[0], ast.Call) and attr_tail(v.args[0]) == "canonical_path"
        ctx.check(bool(good), "R16.6", g, r, "is_path_valid canonicalises before comparing", "is_path_valid compares without canonicalising the target")
    cp = ctx.prog.func("helpers", "canonical_path")
    pops = [c for c in q.calls(cp) if attr_tail(c) == "pop"]
    dd = [n for n in walk(cp.node) if isinstance(n, ast.Compare) and any(isinstance(x, ast.Constant) and x.value == ".." for x in ast.walk(n))]
    ctx.check(bool(pops) and bool(dd), "R16.6", cp, cp.node, "canonical_path resolves '..' by popping", "canonical_path no longer resolves '..' components", construct="canonical_path pops")


def r16_7(ctx: Ctx) -> None:
    """(a) the sanitiser removes ALL leading separators (lstrip / a quantified regex), not a fixed number of characters: '//tmp/x' and
    '///tmp/x' are absolute source spellings too and must be stored as 'tmp/x', not refused;
    (b) _make_file_info falls back to the raw source path only when NO arcname was given (`is None`), not when the sanitised name is
    empty ('' for the source '/'), which would store the unsanitised absolute path."""
    f = shared.szf(ctx, "_sanitize_archive_arcname")
    strips = []
    for n in walk(f.node):
        if not isinstance(n, ast.Assign) or not isinstance(n.targets[0], ast.Name):
            continue
        facts = q.facts_at(f, n)
        if not any(pol and isinstance(cd, ast.Call) and attr_tail(cd) == "startswith" and any(isinstance(x, ast.Constant) and x.value == "/" for x in ast.walk(cd)) for cd, pol in facts):
            continue
        strips.append(n)
        v = n.value
        all_of_them = (isinstance(v, ast.Call) and attr_tail(v) == "lstrip" and v.args and any(isinstance(x, ast.Constant) and isinstance(x.value, str) and "/" in x.value for x in ast.walk(v.args[0]))) \
            or (isinstance(v, ast.Call) and dotted(v.func) in ("re.sub",) and v.args and isinstance(v.args[0], ast.Constant) and any(ch in str(v.args[0].value) for ch in "+*"))
        ctx.check(bool(all_of_them), "R16.7", f, n, "leading separators are stripped completely",
                  f"`{norm(n)}` removes a fixed number of leading characters where all leading separators must go: an absolute source spelled with two or more "
                  "slashes ('//tmp/x') stays absolute and write()/writeall() refuse it instead of storing 'tmp/x'", construct=f"strip {norm(n.value)[:40]}")
    ctx.floor("R16.7", len(strips), 1, "separator-stripping assignments in the arcname sanitiser")
    g = shared.szf(ctx, "_make_file_info")
    fallbacks = [n for n in walk(g.node) if isinstance(n, ast.Assign) and isinstance(n.targets[0], ast.Subscript) and isinstance(n.targets[0].slice, ast.Constant)
                 and n.targets[0].slice.value == "filename" and not any(isinstance(x, ast.Name) and x.id == "arcname" for x in ast.walk(n.value))]
    ctx.floor("R16.7", len(fallbacks), 1, "fallback to the source path in _make_file_info")
    for n in fallbacks:
        facts = q.facts_at(g, n)
        by_none = any((t := q.is_none_test(cd)) is not None and isinstance(t[0], ast.Name) and t[0].id == "arcname" and t[1] == pol for cd, pol in facts)
        ctx.check(by_none, "R16.7", g, n, "the raw source path is used only when arcname is None",
                  "_make_file_info falls back to the unsanitised source path on a test other than `arcname is None` (e.g. truthiness): a sanitised name that came out "
                  "empty (source '/' or 'c:') is replaced by the absolute source path and stored as such", construct="filename fallback guard")


def r16_8(ctx: Ctx, rule: str = "R16.8") -> None:
    """a member name cannot contain U+0000: the Names record stores NUL-terminated UTF-16 strings, an embedded NUL splits the name in two
    and shifts every later name.  Both gates refuse it: check_archive_path (writestr/writef) returns False, the arcname sanitiser
    (write/writeall) raises."""
    def nul_test(f):
        for n in walk(f.node):
            if isinstance(n, ast.Compare) and len(n.ops) == 1 and isinstance(n.ops[0], ast.In) and isinstance(n.left, ast.Constant) and n.left.value == "\x00":
                return n
        return None
    c = ctx.prog.func("helpers", "check_archive_path")
    t = nul_test(c)
    ok = False
    if t is not None:
        cfg = cfg_of(c.node)
        tn = next((x for x in cfg.nodes if x.kind == "test" and any(y is t for y in ast.walk(x.ast))), None)
        if tn is not None:
            te = next(e for e in tn.succ if e.kind == "true")
            # EVERY way on from the edge 'the name holds a NUL' ends in `return False` (a later refusal for another reason does not count)
            falses = [n for n in cfg.nodes if n.kind == "stmt" and isinstance(n.ast, ast.Return) and isinstance(n.ast.value, ast.Constant) and n.ast.value.value is False]
            ok = bool(falses) and cfg.every_path_to_exit_passes(te, falses)
    ctx.check(ok, rule, c, c.node, "check_archive_path refuses names with an embedded NUL",
              "check_archive_path accepts a name that contains U+0000: writestr(data, 'a\\0b') stores a Names record with more strings than members, every later member gets "
              "the wrong name and py7zr's own reader loses the last one", construct="NUL in writestr name")
    s_ = shared.szf(ctx, "_sanitize_archive_arcname")
    t = nul_test(s_)
    ok = False
    if t is not None:
        cfg = cfg_of(s_.node)
        tn = next((x for x in cfg.nodes if x.kind == "test" and any(y is t for y in ast.walk(x.ast))), None)
        if tn is not None:
            te = next(e for e in tn.succ if e.kind == "true")
            ok = q.branch_always_raises(cfg, te)
    ctx.check(ok, rule, s_, s_.node, "the arcname sanitiser refuses names with an embedded NUL",
              "_sanitize_archive_arcname lets an arcname with U+0000 through to the member table (write/writeall with arcname)", construct="NUL in arcname")


def r16_9(ctx: Ctx, rule: str = "R16.9") -> None:
    """both name gates judge the name AS IT WILL BE LISTED: py7zr's reader turns every backslash into '/', and Windows readers do the
    same, so '\\abs.txt' and '..\\..\\x' are an absolute and a climbing name.  check_archive_path and the arcname sanitiser therefore
    (a) replace backslashes by '/' before any other test, (b) drop leading './' before the drive-prefix test ('./c:/x' is 'c:/x' once
    pathlib has normalised it), (c) refuse names that cannot be encoded as UTF-16 (a lone surrogate - what os.listdir returns for a file
    name that is not valid UTF-8 - otherwise makes close() fail with UnicodeEncodeError and the whole archive is lost), and
    (d) check_archive_path refuses a drive prefix like the sanitiser does."""
    for mod, qual in (("helpers", "check_archive_path"), ("py7zr", "SevenZipFile._sanitize_archive_arcname")):
        f = ctx.prog.func(mod, qual)
        cfg = cfg_of(f.node)
        repl = [c for c in q.calls(f) if attr_tail(c) == "replace" and len(c.args) == 2 and isinstance(c.args[0], ast.Constant) and c.args[0].value == "\\"
                and isinstance(c.args[1], ast.Constant) and c.args[1].value == "/"]
        # every later test on the name comes after the replacement: the replacement dominates all returns that accept
        accepts = [r for r in walk(f.node) if isinstance(r, ast.Return) and r.value is not None and not (isinstance(r.value, ast.Constant) and r.value.value is False)]
        ok = bool(repl) and all(cfg.dominates(q.node_for(f, repl[0]), q.node_for(f, r)) for r in accepts)
        ctx.check(ok, rule, f, repl[0] if repl else f.node, f"{f.name}: backslashes are taken for separators before the name is judged",
                  f"{f.qname} judges the name with backslashes as ordinary characters although every reader (py7zr's own included) lists them as '/': on POSIX "
                  "'\\abs.txt', '\\\\server\\share\\f' and '..\\..\\evil' pass and the closed archive lists '/abs.txt', '//server/share/f', '../../evil'",
                  construct=f"{f.name} backslash")
        enc = [c for c in q.calls(f) if attr_tail(c) == "encode" and c.args and isinstance(c.args[0], ast.Constant) and str(c.args[0].value).lower().replace("_", "-") == "utf-16le"]
        guarded = any(isinstance(t, ast.Try) and any(e in list(ast.walk(st)) for st in t.body for e in enc) and
                      any(h.type is not None and "Unicode" in norm(h.type) for h in t.handlers) for t in walk(f.node) if isinstance(t, ast.Try))
        # ... and the handler REFUSES (raises, or returns False): a handler that passes on lets the name through
        guarded = guarded and any(isinstance(t, ast.Try) and any(e in list(ast.walk(st)) for st in t.body for e in enc) and
                                  any(h.type is not None and "Unicode" in norm(h.type) and h.body and (isinstance(h.body[-1], ast.Raise) or (
                                      isinstance(h.body[-1], ast.Return) and isinstance(h.body[-1].value, ast.Constant) and h.body[-1].value.value is False)) for h in t.handlers)
                                  for t in walk(f.node) if isinstance(t, ast.Try))
        ctx.check(bool(enc) and guarded, rule, f, enc[0] if enc else f.node, f"{f.name}: names that cannot be stored as UTF-16 are refused at once",
                  f"{f.qname} accepts a name with a lone surrogate (os.listdir gives one for a file name that is not valid UTF-8): the write call succeeds, close() raises "
                  "UnicodeEncodeError while writing the Names record, the file keeps its placeholder header and every member of the session is lost",
                  construct=f"{f.name} unencodable name")
        dots = [lp for lp in walk(f.node) if isinstance(lp, ast.While) and any(isinstance(x, ast.Constant) and x.value == "./" for x in ast.walk(lp.test))]
        # every prefix-stripping loop removes exactly the prefix it tests for (`while p.startswith(X): p = p[len(X):]`): a shorter cut never ends,
        # a longer one eats the first characters of the name
        for lp in [lp for lp in walk(f.node) if isinstance(lp, ast.While) and isinstance(lp.test, ast.Call) and attr_tail(lp.test) == "startswith" and lp.test.args
                   and isinstance(lp.test.args[0], ast.Constant) and isinstance(lp.test.args[0].value, str)]:
            pre = lp.test.args[0].value
            var = norm(lp.test.func.value)
            cuts = [n for n in ast.walk(lp) if isinstance(n, ast.Assign) and norm(n.targets[0]) == var]
            ok = bool(cuts) and all(any(isinstance(x, ast.Subscript) and norm(x.value) == var and isinstance(x.slice, ast.Slice) and isinstance(x.slice.lower, ast.Constant)
                                        and x.slice.lower.value == len(pre) and x.slice.upper is None for x in ast.walk(n.value)) for n in cuts)
            ctx.check(ok, rule, f, lp, f"{f.name}: the loop that strips {pre!r} cuts exactly {len(pre)} characters",
                      f"{f.qname}: `while {var}.startswith({pre!r})` does not remove exactly that prefix ({len(pre)} characters) in its body: a name that starts with {pre!r} makes the "
                      "call hang, or loses the first characters of its first component", construct=f"{f.name} strip loop {pre}")
        ctx.check(bool(dots), rule, f, f.node, f"{f.name}: leading './' is dropped before the drive-prefix test",
                  f"{f.qname} tests the drive prefix on the raw text: './c:/x.txt' passes and is stored as 'c:/x.txt' once pathlib has dropped the './'",
                  construct=f"{f.name} dot-slash before drive test")
    c = ctx.prog.func("helpers", "check_archive_path")
    drive = any(isinstance(t, ast.If) and any(isinstance(x, ast.Constant) and x.value == ":" for x in ast.walk(t.test)) and
                any(isinstance(r, ast.Return) and isinstance(r.value, ast.Constant) and r.value.value is False for st in t.body for r in ast.walk(st)) for t in walk(c.node)) or \
        any(isinstance(x, ast.Call) and dotted(x.func) in ("re.match", "re.search") and x.args and isinstance(x.args[0], ast.Constant) and ":" in str(x.args[0].value) for x in walk(c.node))
    ctx.check(drive, rule, c, c.node, "check_archive_path refuses a drive prefix",
              "check_archive_path accepts 'c:/windows/x.txt' (relative for pathlib on POSIX) while the sanitiser of write()/writeall() treats a drive prefix as absolute: "
              "writestr/writef store a name that is absolute where drives exist", construct="check_archive_path drive prefix")


def r16_10(ctx: Ctx) -> None:
    """sibling gates agree on climbing names: what write()/writeall() store (the value _sanitize_archive_arcname returns) has passed the
    gate writestr()/writef() use - every accepting return of the sanitiser stands under a true outcome of check_archive_path (or the false
    outcome raises).  Otherwise `write('../data/tree')` stores '../data/tree', which writestr refuses and no reader extracts."""
    f = shared.szf(ctx, "_sanitize_archive_arcname")
    rets = [r for r in walk(f.node) if isinstance(r, ast.Return) and r.value is not None]
    ctx.floor("R16.10", len(rets), 1, "accepting returns of the arcname sanitiser")
    for r in rets:
        ok = False
        for cd, pol in q.facts_at(f, r):
            if isinstance(cd, ast.Call) and attr_tail(cd) == "check_archive_path" and pol and cd.args:
                # ... asked about THIS name: the argument is the returned variable, or `<it> or "."` (the empty name stands for the root)
                a0 = cd.args[0]
                same = norm(a0) == norm(r.value) or (isinstance(a0, ast.BoolOp) and isinstance(a0.op, ast.Or) and len(a0.values) == 2 and norm(a0.values[0]) == norm(r.value)
                                                     and isinstance(a0.values[1], ast.Constant))
                ok = ok or same
        ctx.check(ok, "R16.10", f, r, "a name write() stores has passed check_archive_path (the gate of writestr/writef)",
                  "_sanitize_archive_arcname returns a name that check_archive_path was never asked about: '..' components survive (`write('../data/tree')`, CLI `c arc ../data/tree`), "
                  "the archive lists '../data/tree/...', writestr() refuses the same name and extraction of the whole archive fails with 'Specified path is bad'",
                  construct="sanitiser returns unchecked name")


def r16_11(ctx: Ctx) -> None:
    """'... and accept every name that stays inside': (a) a leading './' swallows the separators behind it in BOTH gates ('.//a' names 'a':
    cutting two characters leaves '/a', which then counts as absolute and is refused); (b) the sanitiser of write()/writeall() resolves '.',
    '..' and repeated separators of what is left TEXTUALLY (posixpath.normpath) before it drops a leading climb - 'a/../../s/f' and
    '/tmp/../../tmp/x/f' name sources inside the tree and must not be refused because their '..' is not at the very front."""
    for mod, qual in (("helpers", "check_archive_path"), ("py7zr", "SevenZipFile._sanitize_archive_arcname")):
        f = ctx.prog.func(mod, qual)
        loops = [lp for lp in walk(f.node) if isinstance(lp, ast.While) and isinstance(lp.test, ast.Call) and attr_tail(lp.test) == "startswith" and lp.test.args
                 and isinstance(lp.test.args[0], ast.Constant) and lp.test.args[0].value == "./"]
        norms = [c for c in q.calls(f) if (dotted(c.func) or "").endswith("normpath")]
        ok = bool(norms) or (bool(loops) and all(any(isinstance(x, ast.Call) and attr_tail(x) == "lstrip" and x.args and isinstance(x.args[0], ast.Constant) and "/" in str(x.args[0].value)
                                                     for n in ast.walk(lp) if isinstance(n, ast.Assign) for x in ast.walk(n.value)) for lp in loops))
        if qual == "check_archive_path" and not loops and not norms:
            ok = True  # no stripping at all: pathlib judges the name as it is
        ctx.check(ok, "R16.11", f, loops[0] if loops else f.node, f"{f.name}: './' is dropped together with the separators behind it",
                  f"{f.qname} cuts a leading './' off and keeps the separators that follow: './/a' (the name 'a') becomes '/a', an absolute name, and is refused - writestr/writef/write "
                  "raise ValueError for names that stay inside the archive root", construct=f"{f.name} dot-slash-slash")
    f = shared.szf(ctx, "_sanitize_archive_arcname")
    cfg = cfg_of(f.node)
    norms = [c for c in q.calls(f) if (dotted(c.func) or "").endswith("normpath")]
    climbs = [lp for lp in walk(f.node) if isinstance(lp, ast.While) and isinstance(lp.test, ast.Call) and attr_tail(lp.test) == "startswith" and lp.test.args
              and isinstance(lp.test.args[0], ast.Constant) and lp.test.args[0].value == "../"]
    ok = not climbs or (bool(norms) and all(cfg.reaches(q.node_for(f, n), cfg.by_ast[lp]) for n in norms for lp in climbs))
    ctx.check(ok, "R16.11", f, climbs[0] if climbs else f.node, "the name is resolved textually before a leading climb is dropped",
              "_sanitize_archive_arcname drops a leading '../' but does not resolve '..' components further inside the text first: `write('a/../../s/f')` and absolute sources spelled "
              "with '..' ('/tmp/../../tmp/x/f') are refused with ValueError although they name files inside the tree (and '../s/f' is accepted)", construct="inner dot-dot not resolved")


def r16_12(ctx: Ctx, rule: str = "R16.12") -> None:
    """the name writestr/writef store is the name the gate judged: check_archive_path reads every backslash as '/', so
    _make_file_info_from_name replaces them in the RAW name, before pathlib normalises it.  Normalising first treats './\\a' as the two
    components '.' and '\\a' - the './' is dropped, and the later replacement turns what is left into '/a': an accepted name is listed as
    an absolute path."""
    mk = shared.szf(ctx, "_make_file_info_from_name")
    sets = [n for n in walk(mk.node) if isinstance(n, ast.Assign) and isinstance(n.targets[0], ast.Subscript) and isinstance(n.targets[0].slice, ast.Constant) and n.targets[0].slice.value == "filename"]
    ctx.floor(rule, len(sets), 1, "name assignment in _make_file_info_from_name")
    for n in sets:
        v = q.expand_locals(mk, n.value)
        repl = [x for x in ast.walk(v) if isinstance(x, ast.Call) and attr_tail(x) == "replace" and len(x.args) == 2 and isinstance(x.args[0], ast.Constant) and x.args[0].value == "\\"]
        late = [x for x in repl if any(isinstance(y, ast.Call) and (attr_tail(y) in ("as_posix", "normpath", "Path", "PurePosixPath", "PurePath") or (dotted(y.func) or "").endswith(("Path", "normpath")))
                                       for y in ast.walk(x.func.value))]
        ctx.check(bool(repl) and not late, rule, mk, n, "backslashes become '/' in the raw name, before it is normalised",
                  f"`{norm(n)[:110]}`: the backslashes are replaced AFTER pathlib has normalised the name (or not at all): the name the gate accepted with '\\' read as '/' ('./\\a' = './/a' = 'a') "
                  "is normalised with the backslash as an ordinary character ('\\a' after the dropped './') and only then rewritten - the member is stored and listed as '/a', an absolute path",
                  construct="backslash replaced after normalisation")


def r16_14(ctx: Ctx, rule: str = "R16.14") -> None:
    """what is left of a name after separators and a drive prefix were removed may be NOTHING ('/', 'c:'): only a directory can be stored under
    the empty name (the root); a file or link stored as '.' gives an archive that lists a file called '.' and cannot be extracted.  write()
    refuses: some `raise` stands under 'the sanitised name is empty' and 'not a directory' (in one condition or in nested ones), and the
    outermost of those tests dominates the construction of the member's record.  A link counts as 'not a directory' only without dereference."""
    f = shared.szf(ctx, "write")
    cfg = cfg_of(f.node)
    mk = [c for c in q.calls(f) if attr_tail(c) == "_make_file_info"]
    ctx.floor(rule, len(mk), 1, "_make_file_info call in write")

    def empties(a: ast.AST) -> bool:
        return isinstance(a, ast.Compare) and isinstance(a.left, ast.Name) and a.left.id == "arcname" and any(
            isinstance(k, ast.Constant) and k.value == "" for cmp_ in a.comparators for k in ast.walk(cmp_))
    raises = [r for r in walk(f.node) if isinstance(r, ast.Raise)]
    for c in mk:
        cn = q.node_for(f, c)
        ok = False
        for r in raises:
            rn = q.node_for(f, r)
            guards_ = cfg.guards(rn)
            conds = [g for g, _ in guards_]
            whole = " and ".join(norm(g) for g, p_ in guards_ if p_)
            has_empty = any(empties(a) and pol for a, pol in q.facts_at(f, r)) or any(empties(x) for g, p_ in guards_ if p_ for x in ast.walk(g))
            has_kind = any(isinstance(x, ast.Call) and attr_tail(x) == "is_dir" for g in conds for x in ast.walk(g))
            if not (has_empty and has_kind):
                continue
            outer = [t for t in cfg.nodes if t.kind == "test" and any(t.ast is g for g in conds)]
            if not any(cfg.dominates(t, cn) for t in outer):
                continue
            # a link that is archived BY ITS TARGET (dereference) is the directory it leads to: the link test counts only without dereference
            bare_link = any(isinstance(x, ast.Call) and attr_tail(x) == "is_symlink" for g in conds for x in ast.walk(g)) and "dereference" not in whole
            if bare_link:
                ctx.fail(rule, f, r, f"`{whole[:110]}` refuses every symbolic link under the empty name, also with dereference=True, where the link IS the directory it "
                         "leads to: `SevenZipFile(..., dereference=True).writeall(<link to a directory>, arcname='')`, which stored the tree at the root of the archive, raises ValueError",
                         construct="empty name refused for a dereferenced link")
            else:
                ok = True
        ctx.check(ok, rule, f, c, "an empty sanitised name is accepted for a directory only",
                  "write() builds the member's record without refusing an EMPTY sanitised name for a file or link: a file called 'C:' (or a link at '/') in a tree archived with "
                  "writeall('.') is stored as the file member '.', and extractall() of that archive dies with IsADirectoryError", construct="file stored under the empty name")


def r16_15(ctx: Ctx, rule: str = "R16.15") -> None:
    """(a) a drive prefix is looked for in what the name RESOLVES to as well: 'a/../c:/x' is 'c:/x'.  check_archive_path has a drive test
    (`X[1] == ":"`) on a value that went through normpath, and its true arm refuses.  (b) a name of which nothing is left ('', '.', 'a/..')
    denotes the root of the archive: writestr/writef refuse it (a test that compares the normalised name with '.' in the raising gate,
    directly or through a helper of the package) - stored as the file member '.', it makes an archive that cannot be extracted."""
    f = ctx.prog.func("helpers", "check_archive_path")
    cfg = cfg_of(f.node)
    ok = False
    for t in cfg.nodes:
        if t.kind != "test":
            continue
        for x in ast.walk(t.ast):
            if isinstance(x, ast.Compare) and isinstance(x.left, ast.Subscript) and isinstance(x.left.slice, ast.Constant) and x.left.slice.value == 1 \
                    and any(isinstance(k, ast.Constant) and k.value == ":" for k in x.comparators) and isinstance(x.left.value, ast.Name):
                if q.derives_from(f, x.left.value, lambda v: isinstance(v, ast.Call) and (dotted(v.func) or "").endswith("normpath"), depth=3) and any(
                        e.kind == "true" and any(isinstance(n_.ast, ast.Return) and isinstance(n_.ast.value, ast.Constant) and n_.ast.value.value is False for n_ in e.succ) for e in t.succ):
                    ok = True
    raw_ok = False
    for t in cfg.nodes:
        if t.kind != "test":
            continue
        for x in ast.walk(t.ast):
            if isinstance(x, ast.Compare) and isinstance(x.left, ast.Subscript) and isinstance(x.left.slice, ast.Constant) and x.left.slice.value == 1 \
                    and any(isinstance(k, ast.Constant) and k.value == ":" for k in x.comparators) and isinstance(x.left.value, ast.Name):
                if not q.derives_from(f, x.left.value, lambda v: isinstance(v, ast.Call) and (dotted(v.func) or "").endswith("normpath"), depth=3) and any(
                        e.kind == "true" and any(isinstance(n_.ast, ast.Return) and isinstance(n_.ast.value, ast.Constant) and n_.ast.value.value is False for n_ in e.succ) for e in t.succ):
                    raw_ok = True
    ctx.check(raw_ok, rule, f, f.node, "the drive test is applied to the name as written, too",
              "check_archive_path looks for a drive prefix in the resolved name only: normpath('c:/../x') is 'x', so 'c:/../x', './c:/../x' and 'c:\\..\\x' are accepted and stored - "
              "drive-prefixed names that are absolute (or drive relative) where drives exist", construct="drive prefix of the written name")
    ctx.check(ok, rule, f, f.node, "the drive test is applied to what the name resolves to",
              "check_archive_path looks for a drive prefix at the front of the raw text only: 'a/../c:/x', 'a/b/../../c:/x' (accepted, stored verbatim) resolve to 'c:/x', "
              "an absolute name where drives exist, while 'c:/x' itself is refused", construct="drive prefix after resolution")
    cls = ctx.prog.cls("SevenZipFile", "py7zr")
    for name in ("writef", "writestr"):
        g = shared.szf(ctx, name)
        gcfg = cfg_of(g.node)
        good = False
        for t in gcfg.nodes:
            if t.kind != "test" or not any(e.kind == "true" and q.branch_always_raises(gcfg, e) for e in t.succ):
                continue
            def roots(e: ast.AST) -> bool:
                if any(isinstance(x, ast.Compare) and any(isinstance(k, ast.Constant) and k.value == "." for k in x.comparators) for x in ast.walk(e)) and any(
                        isinstance(x, ast.Call) and (dotted(x.func) or "").endswith("normpath") for x in ast.walk(e)):
                    return True
                for c in [x for x in ast.walk(e) if isinstance(x, ast.Call) and isinstance(x.func, ast.Name)]:
                    try:
                        h = ctx.prog.func("helpers", c.func.id)
                    except Exception:
                        continue
                    if any(isinstance(x, ast.Compare) and any(isinstance(k, ast.Constant) and k.value == "." for k in x.comparators) for x in walk(h.node)) and any(
                            isinstance(x, ast.Call) and (dotted(x.func) or "").endswith("normpath") for x in walk(h.node)):
                        return True
                return False
            good = good or any(pol and roots(a) for a, pol in q.atoms(t.ast, True))
        ctx.check(good, rule, g, g.node, f"{name} refuses a name that denotes the root of the archive",
                  f"{name}() accepts '', '.', './', 'a/..': the data is stored as the file member '.' (or 'a/..'), and extractall() of the archive dies with IsADirectoryError - "
                  "the members written before and after the call are lost to the reader (write() refuses the same names)", construct=f"{name} root name")


def run(ctx: Ctx) -> None:
    r16_15(ctx)
    r16_14(ctx)
    r16_12(ctx)
    from . import c02 as _c02
    _c02.r02_15(ctx, rule="R16.13")  # '' is a name, None is 'no name'
    r16_11(ctx)
    r16_10(ctx)
    r16_9(ctx)
    r16_8(ctx)
    r16_7(ctx)
    r16_6(ctx)
    r16_1(ctx)
    r16_2(ctx)
    r16_3(ctx)
    r16_4(ctx)
    r16_5(ctx)
