"""C03 — extraction never writes outside the destination: taint from archive-controlled names to filesystem sinks."""
from __future__ import annotations

import ast
from typing import Dict, List, Optional, Set, Tuple

from ..cfg import cfg_of
from ..model import AnalysisError, Func, attr_tail, dotted, norm, walk
from ..report import Ctx
from .. import q
from . import shared

EXPLANATION = (
    "Taint analysis over the resolved call-graph closure of extract/extractall/unpack_7zarchive: every filesystem "
    "sink (mkdir, open for writing, touch, symlink_to, unlink, CreateJunction, utime, chmod, ...) must take a path that "
    "derives only from get_sanitized_output_path (through the channels target_filepath / target_files / target_dirs, "
    "with a who-may-put check) or from the caller's destination; link creation must be guarded by is_path_valid on the "
    "joined link target; the sanitiser returns only under a true containment test; and, because links can be created "
    "during extraction, every per-member sink must be dominated by a containment check that RESOLVES links "
    "(realpath/resolve) and the parallel branch must be off when the archive has link members. "
    "Not decided: what the operating system does with a path that passed the checks."
)
TRUSTED = ["CPython ast parser", "sa.resolve call graph (over-approximate)", "sa.cfg dominators",
           "os.path.realpath / pathlib.Path.resolve resolve symbolic links (stdlib semantics)"]

SINK_METHODS = {"mkdir", "touch", "symlink_to", "unlink", "chmod", "rmdir", "rename", "replace", "write_bytes", "write_text",
                "hardlink_to", "link_to", "lchmod", "makedirs"}
LINK_SINKS = {"symlink_to", "CreateJunction", "symlink", "hardlink_to", "link_to", "link"}
OS_SINKS = {"os.utime", "os.chmod", "os.mkdir", "os.makedirs", "os.symlink", "os.link", "os.remove", "os.unlink", "os.rename",
            "os.replace", "os.truncate", "os.rmdir", "os.chown", "os.lchown", "shutil.copy", "shutil.move", "shutil.rmtree",
            "_winapi.CreateJunction"}
WRAPPERS = {"str", "pathlib.Path", "Path", "pathlib.PurePath", "os.fspath", "os.path.abspath", "os.path.normpath", "os.path.join", "sorted", "list", "reversed", "tuple", "MemIO"}
PATH_ATTRS = {"parent", "as_posix", "joinpath", "absolute"}
SANITISER = "get_sanitized_output_path"


def extraction_roots(ctx: Ctx) -> List[Func]:
    return [shared.szf(ctx, "extract"), shared.szf(ctx, "extractall"), ctx.prog.func("py7zr", "unpack_7zarchive")]


def is_write_open(c: ast.Call) -> bool:
    mode = None
    if attr_tail(c) != "open":
        return False
    if isinstance(c.func, ast.Name):  # builtin open(path, mode)
        mode = c.args[1] if len(c.args) > 1 else next((k.value for k in c.keywords if k.arg == "mode"), None)
    else:
        mode = c.args[0] if c.args else next((k.value for k in c.keywords if k.arg == "mode"), None)
    if mode is None:
        # MemIO.open() / Path.open() default: MemIO default is "w" but writes to memory; Path default is "r"
        return False
    if isinstance(mode, ast.Constant) and isinstance(mode.value, str):
        return any(ch in mode.value for ch in "wax+")
    return True  # non-constant mode: assume it may write


def find_sinks(ctx: Ctx, f: Func) -> List[Tuple[ast.Call, ast.AST, str]]:
    """(call, path operand, kind) for every filesystem-mutating call in f."""
    out = []
    for c in q.calls(f):
        name = dotted(c.func)
        tail = attr_tail(c)
        if name in OS_SINKS or (name.split(".")[0] in ("os", "shutil", "_winapi") and tail in {n.split(".")[-1] for n in OS_SINKS}):
            if c.args:
                out.append((c, c.args[0], tail))
        elif isinstance(c.func, ast.Attribute) and tail in SINK_METHODS:
            cs = ctx.res.site_of(f, c)
            if cs is not None and cs.recv and not any(t[0] == "ext" and t[1].startswith("pathlib.") for t in cs.recv) \
                    and all(t[0] in ("ext", "none", "list", "dict") for t in cs.recv):
                continue  # receiver is known not to be a path object (e.g. str.replace)
            out.append((c, c.func.value, tail))
        elif tail == "open" and is_write_open(c):
            if isinstance(c.func, ast.Attribute):
                cs = ctx.res.site_of(f, c)
                # receiver known to be an in-memory/package IO object only -> not a filesystem sink
                if cs is not None and cs.recv and all(t[0] == "cls" for t in cs.recv):
                    continue
                out.append((c, c.func.value, "open(w)"))
            elif c.args:
                out.append((c, c.args[0], "open(w)"))
    return out


class Taint:
    """flow-insensitive 'derives only from clean sources' analysis, per function, with destination parameters."""

    def __init__(self, ctx: Ctx, closure: Dict[str, Func]):
        self.ctx = ctx
        self.closure = closure
        self.dest: Dict[str, Set[str]] = {}  # function qname -> parameter names that carry the caller's destination
        self._propagate_dest()

    def _propagate_dest(self) -> None:
        ctx = self.ctx
        for r in extraction_roots(ctx):
            if "path" in r.params:
                self.dest.setdefault(r.qname, set()).add("path")
        # the archive's own file name is supplied by the caller, not by the archive
        ctor = shared.szf(ctx, "__init__")
        self.dest.setdefault(ctor.qname, set()).add("file")
        changed = True
        while changed:
            changed = False
            for fq, f in self.closure.items():
                dests = self.dest.get(fq, set())
                if not dests:
                    continue
                for cs in ctx.res.sites_in(f):
                    for g in cs.targets:
                        if g.qname not in self.closure:
                            continue
                        a = g.node.args
                        params = [x.arg for x in a.posonlyargs + a.args]
                        if g.cls and not g.is_static:
                            params = params[1:]
                        binds = list(zip(params, cs.node.args)) + [(k.arg, k.value) for k in cs.node.keywords if k.arg]
                        for p, arg in binds:
                            if self._is_dest_expr(f, arg, dests):
                                s = self.dest.setdefault(g.qname, set())
                                if p not in s:
                                    s.add(p)
                                    changed = True
                # thread targets: args tuple
                for c in q.calls(f):
                    tgt = next((k.value for k in c.keywords if k.arg == "target"), None)
                    args = next((k.value for k in c.keywords if k.arg == "args"), None)
                    if tgt is None or not isinstance(args, ast.Tuple):
                        continue
                    for t in ctx.res.infer(tgt, f):
                        if t[0] != "func":
                            continue
                        g = ctx.res._func_by_q(t[1])
                        if g is None:
                            continue
                        params = g.params[1:] if g.cls and not g.is_static else g.params
                        for p, arg in zip(params, args.elts):
                            if self._is_dest_expr(f, arg, dests):
                                s = self.dest.setdefault(g.qname, set())
                                if p not in s:
                                    s.add(p)
                                    changed = True

    def _is_dest_expr(self, f: Func, e: ast.AST, dests: Set[str]) -> bool:
        """expression built only from destination parameters, cwd, and path wrappers."""
        if isinstance(e, ast.Name):
            if e.id in dests:
                return True
            if e.id in f.params:
                return False
            vals = q.assigned_values(f, e.id)
            return bool(vals) and all(self._is_dest_expr(f, v, dests - {"__none__"}) for v in vals if not (isinstance(v, ast.Name) and v.id == e.id))
        if isinstance(e, ast.Call):
            nm = dotted(e.func)
            if nm in ("os.getcwd", "pathlib.Path.cwd", "Path.cwd"):
                return True
            if nm in WRAPPERS:
                return all(self._is_dest_expr(f, a, dests) for a in e.args)
            if isinstance(e.func, ast.Attribute) and e.func.attr in ("joinpath", "absolute", "resolve"):
                return self._is_dest_expr(f, e.func.value, dests) and all(self._is_dest_expr(f, a, dests) for a in e.args)
        return False

    def clean(self, f: Func, e: ast.AST, seen: Optional[Set[str]] = None) -> Tuple[bool, str]:
        """(is clean, reason-if-not)."""
        seen = seen if seen is not None else set()
        dests = self.dest.get(f.qname, set())
        if isinstance(e, ast.Constant):
            return True, ""
        if isinstance(e, ast.Name):
            if e.id in dests:
                return True, ""
            if e.id in f.params:
                return False, f"parameter '{e.id}' of {f.qname} is not a sanitised path nor the destination"
            if e.id in seen:
                return True, ""
            seen.add(e.id)
            # a name bound as a non-first element of a tuple loop target is the payload that travels with the path (archive data)
            for n in walk(f.node):
                if isinstance(n, (ast.For, ast.comprehension)) and isinstance(n.target, ast.Tuple):
                    for i, t in enumerate(n.target.elts):
                        if i > 0 and isinstance(t, ast.Name) and t.id == e.id and not (isinstance(n.iter, ast.Call) and dotted(n.iter.func) == "enumerate"):
                            return False, f"'{e.id}' is the payload component of a channel tuple (archive-controlled member properties), not the sanitised path"
            vals = q.assigned_values(f, e.id)
            if not vals:
                return False, f"name '{e.id}' has no local definition"
            appended = self._appends(f, e.id)
            for v in vals:
                if isinstance(v, (ast.List, ast.Dict)) and not getattr(v, "elts", getattr(v, "keys", [])):
                    continue  # empty container literal
                ok, why = self.clean(f, v, seen)
                if not ok:
                    return False, why
            for v in appended:
                first = v.elts[0] if isinstance(v, ast.Tuple) and v.elts else v
                ok, why = self.clean(f, first, seen)
                if not ok:
                    return False, f"container '{e.id}' receives {norm(v)}: {why}"
            return True, ""
        if isinstance(e, ast.Attribute):
            if e.attr in PATH_ATTRS:
                return self.clean(f, e.value, seen)
            if e.attr == "target_filepath":
                return True, ""
            return False, f"attribute {norm(e)} is not a sanitised path"
        if isinstance(e, ast.Subscript):
            return self.clean(f, e.value, seen)
        if isinstance(e, ast.Tuple):
            return self.clean(f, e.elts[0], seen) if e.elts else (True, "")
        if isinstance(e, ast.Call):
            nm = dotted(e.func)
            tail = attr_tail(e)
            if tail == SANITISER:
                return True, ""
            if nm in ("os.getcwd", "pathlib.Path.cwd", "Path.cwd"):
                return True, ""
            if nm in WRAPPERS or tail in ("MemIO",):
                if not e.args:
                    return True, ""
                return self.clean(f, e.args[0], seen)
            if isinstance(e.func, ast.Attribute) and tail in ("get", "pop") and isinstance(e.func.value, ast.Attribute) \
                    and e.func.value.attr == "target_filepath":
                return True, ""
            if isinstance(e.func, ast.Attribute) and tail in PATH_ATTRS:
                ok, why = self.clean(f, e.func.value, seen)
                if not ok:
                    return ok, why
                for a in e.args:
                    ok, why = self.clean(f, a, seen)
                    if not ok:
                        return ok, f"joined component {norm(a)}: {why}"
                return True, ""
            if tail in ("enumerate", "zip"):
                for a in e.args:
                    ok, why = self.clean(f, a, seen)
                    if not ok:
                        return ok, why
                return True, ""
            return False, f"value {norm(e)} is not produced by {SANITISER}"
        if isinstance(e, ast.IfExp):
            for x in (e.body, e.orelse):
                ok, why = self.clean(f, x, seen)
                if not ok:
                    return ok, why
            return True, ""
        if isinstance(e, (ast.BinOp, ast.JoinedStr)):
            return False, f"path computed by {norm(e)}"
        return False, f"unrecognised path expression {norm(e)}"

    def _appends(self, f: Func, name: str) -> List[ast.AST]:
        out = []
        for c in q.calls(f):
            if isinstance(c.func, ast.Attribute) and c.func.attr in ("append", "add", "insert", "extend") \
                    and isinstance(c.func.value, ast.Name) and c.func.value.id == name and c.args:
                out.append(c.args[-1])
        return out


def run(ctx: Ctx) -> None:
    roots = extraction_roots(ctx)
    closure = ctx.res.closure(roots)
    taint = Taint(ctx, closure)
    sinks: List[Tuple[Func, ast.Call, ast.AST, str]] = []
    for fq, f in closure.items():
        if f.module in ("win32compat",):
            continue
        for c, operand, kind in find_sinks(ctx, f):
            sinks.append((f, c, operand, kind))
    ctx.floor("R03.1", len(sinks), 8, "filesystem sinks in closure(extract)")
    link_sinks = [(f, c, o, k) for f, c, o, k in sinks if k in LINK_SINKS]
    ctx.floor("R03.2", len(link_sinks), 1, "link-creating sinks")
    ctx.extra["sinks"] = [f"{f.qname}:{c.lineno} {k} {norm(o)}" for f, c, o, k in sinks]

    # R03.1 ------------------------------------------------------------------------------------
    for f, c, operand, kind in sinks:
        ok, why = taint.clean(f, operand)
        path = ctx.res.call_path(roots, f.qname)
        ctx.check(ok, "R03.1", f, c, f"{f.qname}: {kind} on {norm(operand)} derives from the sanitiser/destination",
                  f"filesystem sink {kind} takes a path that is not derived from {SANITISER}: {why}", path=path)
    # who may put into the channel
    puts = shared.calls_to(ctx, "py7zr:Worker.register_filelike")
    ctx.floor("R03.1", len(puts), 3, "register_filelike call sites")
    for f, c in puts:
        val = c.args[1] if len(c.args) > 1 else next((k.value for k in c.keywords if k.arg == "fileish"), None)
        if val is None:
            ctx.fail("R03.1", f, c, "register_filelike call without an output argument")
            continue
        if isinstance(val, ast.Constant) and val.value is None:
            ctx.ok("R03.1", f"{f.qname}: register None")
            continue
        ok, why = taint.clean(f, val)
        ctx.check(ok, "R03.1", f, c, f"{f.qname}: registers sanitised output {norm(val)}",
                  f"an output path that did not pass {SANITISER} is registered for extraction: {why}")
    # direct writes to the channel outside register_filelike
    for f in ctx.prog.all_funcs:
        for n in walk(f.node):
            if isinstance(n, (ast.Assign, ast.AugAssign)):
                tgts = n.targets if isinstance(n, ast.Assign) else [n.target]
                for t in tgts:
                    if isinstance(t, ast.Subscript) and isinstance(t.value, ast.Attribute) and t.value.attr == "target_filepath":
                        ctx.check(f.name == "register_filelike", "R03.1", f, n, f"{f.qname} writes the channel",
                                  "target_filepath is written outside register_filelike (unchecked producer on the output channel)")

    # R03.2 link guard -------------------------------------------------------------------------
    for f, c, operand, kind in link_sinks:
        link_target = c.args[-1] if c.args else None
        facts = list(q.facts_at(f, c))
        # the guard may be written as an early exit (`if not contained(...): raise` in front of the creation): a dominating test one of whose edges
        # cannot reach the creation says, by its other outcome, what holds there
        cfg_g = cfg_of(f.node)
        cn_g = q.node_for(f, c)
        for tn in cfg_g.nodes:
            if tn.kind == "test" and cfg_g.dominates(tn, cn_g) and not any(tn.ast is cd for cd, _ in facts):
                for pol_ in (True, False):
                    e_ = next((s_ for s_ in tn.succ if s_.kind == ("true" if pol_ else "false")), None)
                    if e_ is not None and not cfg_g.reaches(e_, cn_g):
                        facts += q.atoms(tn.ast, not pol_)
        good = False
        resolving = False
        for cond, pol in facts:
            # the textual check, or the link-resolving one (R03.6 decides that it resolves the whole path and fails closed; it is the stronger of
            # the two: a text that passes through a link, 's/../t', is judged as the system will follow it)
            if not pol or not (isinstance(cond, ast.Call) and attr_tail(cond) in ("is_path_valid", "is_path_contained") and len(cond.args) >= 2):
                continue
            a0, a1 = cond.args[0], cond.args[1]
            # a0 = <sink path>.parent.joinpath(<link text>)
            shape = isinstance(a0, ast.Call) and attr_tail(a0) == "joinpath" and isinstance(a0.func.value, ast.Attribute) \
                and a0.func.value.attr == "parent" and q.same(a0.func.value.value, operand if kind != "CreateJunction" else a0.func.value.value)
            if kind == "CreateJunction":
                # operand is str(fileish): compare the wrapped name
                inner = operand.args[0] if isinstance(operand, ast.Call) and operand.args else operand
                shape = isinstance(a0, ast.Call) and attr_tail(a0) == "joinpath" and isinstance(a0.func.value, ast.Attribute) \
                    and a0.func.value.attr == "parent" and q.same(a0.func.value.value, inner)
            text_ok = False
            if shape and a0.args and link_target is not None:
                jt = a0.args[0]
                srcs = [ast.dump(s) for s in q.sources_of(f, link_target, depth=2)]
                roots_ = {n.id for n in ast.walk(link_target) if isinstance(n, ast.Name)}
                text_ok = isinstance(jt, ast.Name) and (jt.id in roots_ or any(jt.id in {n.id for n in ast.walk(s) if isinstance(n, ast.Name)}
                                                                                 for s in q.sources_of(f, link_target, depth=2)))
            dest_ok = taint._is_dest_expr(f, a1, taint.dest.get(f.qname, set()))
            if shape and text_ok and dest_ok:
                # other polarity raises
                for tn in cfg_of(f.node).nodes:
                    if tn.kind == "test" and any(x is cond for x in ast.walk(tn.ast)):
                        # the edge on which the check has FAILED (false edge of `if check:`, true edge of `if not check:`)
                        failed_pol = next((p_ for p_ in (False, True) if any(a_ is cond and not ap_ for a_, ap_ in q.atoms(tn.ast, p_))), False)
                        fe = next((s for s in tn.succ if s.kind == ("true" if failed_pol else "false")), None)
                        if fe is not None and q.branch_always_raises(cfg_of(f.node), fe):
                            good = True
                            resolving = resolving or attr_tail(cond) == "is_path_contained"
        if good and not resolving:
            # the textual check alone takes 'a/b/L/../x' for 'a/b/x'; when L is an (individually harmless) link to the destination itself the system
            # follows it to the PARENT of the destination: links that escape when followed one through another
            ctx.fail("R03.2", f, c, f"link creation ({kind}) is guarded by the textual check only: a target text that passes through an earlier link ('a/b/L/../x' with L -> '../..') is "
                     "judged as 'a/b/x' but leads outside the destination; the link-resolving check (is_path_contained) must decide", construct=f"{kind} textual guard only")
        ctx.check(good, "R03.2", f, c, f"{f.qname}: {kind} guarded by a containment check of parent.joinpath(target) against the destination",
                  f"link creation ({kind}) is not guarded by is_path_valid / is_path_contained on the joined link target against the destination, "
                  "or the failing branch does not raise")

    r03_3(ctx)
    r03_4(ctx, taint, closure, sinks, link_sinks, roots)
    r03_5(ctx, closure)
    r03_6(ctx, roots)
    r03_7(ctx, closure)
    from . import c12 as _c12p
    _c12p.r12_11(ctx, rule="R03.8")  # the post-pass does not follow a link that took a file's place


def _expand_at(f: Func, e: ast.AST, at: ast.AST, depth: int = 5) -> ast.AST:
    """e with every local replaced by the value of its definition that DOMINATES `at` (the closest one); flow-sensitive where
    q.expand_locals gives up on a name assigned in several branches."""
    cfg = cfg_of(f.node)
    an = q.node_for(f, at)

    class T(ast.NodeTransformer):
        def __init__(self, d):
            self.d = d

        def visit_Name(self, n: ast.Name):
            if not isinstance(n.ctx, ast.Load) or self.d <= 0:
                return n
            defs = [a for a in walk(f.node) if isinstance(a, (ast.Assign, ast.AnnAssign)) and a.value is not None
                    and any(isinstance(t, ast.Name) and t.id == n.id for t in (a.targets if isinstance(a, ast.Assign) else [a.target]))]
            dom = [a for a in defs if cfg.dominates(q.node_for(f, a), an) and q.node_for(f, a) is not an]
            if not dom:
                return n
            # closest dominating definition: the one dominated by all the others
            best = dom[0]
            for a in dom[1:]:
                if cfg.dominates(q.node_for(f, best), q.node_for(f, a)):
                    best = a
            # a later non-dominating redefinition that can still reach `at` makes the value ambiguous
            others = [a for a in defs if a is not best and a not in dom and cfg.reaches(q.node_for(f, best), q.node_for(f, a)) and cfg.reaches(q.node_for(f, a), an)]
            if others:
                return n
            if any(isinstance(x, ast.Name) and x.id == n.id for x in ast.walk(best.value)):
                return n
            import copy
            return T(self.d - 1).visit(copy.deepcopy(best.value))

    import copy
    return T(depth).visit(copy.deepcopy(e))


def r03_3(ctx: Ctx) -> None:
    f = ctx.prog.func("helpers", SANITISER)
    cfg = cfg_of(f.node)
    rets = [n for n in walk(f.node) if isinstance(n, ast.Return)]
    ctx.floor("R03.3", len(rets), 1, "returns in the sanitiser")
    for r in rets:
        facts = q.facts_at(f, r)
        good = False
        for cond, pol in facts:
            if pol and isinstance(cond, ast.Call) and attr_tail(cond) == "is_relative_to" and len(cond.args) >= 2:
                if q.derives_from(f, cond.args[0], lambda s: isinstance(s, ast.Call) and attr_tail(s) == "canonical_path"):
                    good = True
        ctx.check(good, "R03.3", f, r, "sanitiser returns only under is_relative_to(canonical_path(join), base)",
                  "the sanitiser returns a path on a branch where containment was not established (no true is_relative_to(canonical_path(...), base) guard)")
        if not good or r.value is None:
            continue
        # ... and what is returned is what was validated: the validated value itself, that value made relative, or a path built from
        # exactly the expression that was joined to the base (same text => same location; "./" + "/abs" stripped on one side only is not)
        same = False
        for cond, pol in facts:
            if not (pol and isinstance(cond, ast.Call) and attr_tail(cond) == "is_relative_to" and len(cond.args) >= 2):
                continue
            v = cond.args[0]
            vnames = {n.id for n in ast.walk(v) if isinstance(n, ast.Name)} - set(f.params)
            rnames = {n.id for n in ast.walk(r.value) if isinstance(n, ast.Name)}
            if vnames and vnames <= rnames:
                same = True
            vexp = _expand_at(f, v, r)
            rexp = _expand_at(f, r.value, r)
            if norm(vexp) in norm(rexp):
                same = True
            # NOT accepted: a path built from the same text that was joined to the base.  The validated value is the CANONICAL form; the raw
            # spelling '../evil/sub/../../<cwd name>/f' canonicalises into the base but mkdir(parents=True) on it creates ../evil and ../evil/sub
        ctx.check(same, "R03.3", f, r, "sanitiser returns the canonical path it validated (itself, or made relative to the base)",
                  "the sanitiser validates the canonical form of the member path but returns another spelling of it (the raw name, or a differently stripped one): "
                  "'.//abs/path' is handed back as /abs/path, and '../evil/sub/../../<cwd name>/f' - whose canonical form lies inside - makes mkdir(parents=True) create ../evil/sub outside",
                  construct=f"returned-vs-validated {norm(r.value)[:60]}")
    # fall-off-the-end would return None: every non-return exit must raise
    last_nodes = [p for p in cfg.exit.pred if not (p.kind == "stmt" and isinstance(p.ast, ast.Return))]
    ctx.check(not last_nodes, "R03.3", f, f.node, "every other exit of the sanitiser raises",
              "the sanitiser can fall off its end without raising", construct="sanitiser exits")
    # the returned value is the canonicalised join or the name relative to cwd
    g = ctx.prog.func("helpers", "is_path_valid")
    for r in [n for n in walk(g.node) if isinstance(n, ast.Return)]:
        v = q.expand_locals(g, r.value) if r.value is not None else None
        good = isinstance(v, ast.Call) and attr_tail(v) == "is_relative_to" and v.args and \
            isinstance(v.args[0], ast.Call) and attr_tail(v.args[0]) == "canonical_path"
        ctx.check(bool(good), "R03.3", g, r, "is_path_valid canonicalises before comparing",
                  "is_path_valid compares without canonicalising the target ('..' components are not resolved lexically)")
    h = ctx.prog.func("helpers", "is_relative_to")
    hc = cfg_of(h.node)
    trues = [n for n in walk(h.node) if isinstance(n, ast.Return) and isinstance(n.value, ast.Constant) and n.value.value is True]
    rel = [c for c in q.calls(h) if attr_tail(c) == "relative_to"]
    ok = bool(trues) and bool(rel)
    for t in trues:
        tn = q.node_for(h, t)
        for hn in [n for n in hc.nodes if n.kind == "handler"]:
            if hc.reaches(hn, tn):
                ok = False
        if rel and not hc.dominates(q.node_for(h, rel[0]), tn):
            ok = False
    other_rets = [n for n in walk(h.node) if isinstance(n, ast.Return) and n not in trues]
    for r in other_rets:
        if not (isinstance(r.value, ast.Constant) and r.value.value is False):
            ok = False
    ctx.check(ok, "R03.3", h, h.node, "is_relative_to is True only when relative_to succeeded",
              "is_relative_to can return True without a successful relative_to() against the canonical base", construct="is_relative_to verdict")
    # canonical_path must be applied to the base as well
    base_canon = any(isinstance(a, ast.Call) and attr_tail(a) == "canonical_path" for c in rel for a in c.args)
    ctx.check(base_canon, "R03.3", h, rel[0] if rel else h.node, "base canonicalised", "is_relative_to compares against a non-canonical base")


def _is_resolving(ctx: Ctx, g: Func, memo: Dict[str, bool]) -> bool:
    if g.qname in memo:
        return memo[g.qname]
    memo[g.qname] = False
    clo = ctx.res.closure([g])
    for h in clo.values():
        for c in q.calls(h):
            nm = dotted(c.func)
            if nm in ("os.path.realpath", "os.path.samefile") or (isinstance(c.func, ast.Attribute) and c.func.attr in ("resolve", "realpath", "samefile")):
                memo[g.qname] = True
    return memo[g.qname]


def r03_4(ctx: Ctx, taint: Taint, closure, sinks, link_sinks, roots) -> None:
    """because links can be created during extraction, sinks in the per-member writer need a resolving check."""
    memo: Dict[str, bool] = {}
    writer_funcs = {f.qname: f for f, _, _, _ in link_sinks}
    # sinks that run AFTER the per-member writer (post-pass utime/chmod): a registered path may meanwhile have been replaced by a link
    ex0 = shared.szf(ctx, "_extract")
    ecfg = cfg_of(ex0.node)
    wnodes = [q.node_for(ex0, c) for c in q.calls(ex0) if "py7zr:Worker.extract" in shared.targets_of(ctx, ex0, c)]
    post_sinks = [s for s in sinks if s[0] is ex0 and any(ecfg.reaches(w, q.node_for(ex0, s[1])) for w in wnodes)]
    # sinks of the pre-pass (directories of the members are created before the worker runs): links left behind by an EARLIER extraction into the
    # same destination may lead a member path outside
    pre_sinks = [s for s in sinks if s[0] is ex0 and s not in post_sinks and q.enclosing_loops(ex0, s[1])]
    work = [(f, [s for s in sinks if s[0] is f]) for f in writer_funcs.values()] + ([(ex0, post_sinks + pre_sinks)] if post_sinks or pre_sinks else [])
    for f, fsinks in work:
        fq = f.qname
        cfg = cfg_of(f.node)
        for (g, c, operand, kind) in fsinks:
            cn = q.node_for(f, c)
            good = False
            why = "no dominating call of a containment check that resolves links (realpath/resolve)"
            for cs in ctx.res.sites_in(f):
                if not any(_is_resolving(ctx, t, memo) for t in cs.targets):
                    continue
                chk = cs.node
                kn = q.node_for(f, chk)
                if kn is cn:
                    continue
                if not cfg.dominates(kn, cn):
                    # the check may sit under `not isinstance(<path>, MemIO)`: in-memory outputs are not filesystem sinks.
                    # Accept when every path from the definition of the sink's path variable to the sink passes the check
                    # or the true edge of an isinstance(<same variable>, MemIO) test.
                    roots_op0 = [n.id for n in ast.walk(operand) if isinstance(n, ast.Name)]
                    def mem_pol(e: ast.AST, at, depth: int = 2):
                        """True: `e` true means the output is a MemIO; False: `e` true means it is not; None: says nothing about it"""
                        if isinstance(e, ast.Call) and dotted(e.func) == "isinstance" and len(e.args) == 2 and isinstance(e.args[0], ast.Name) and e.args[0].id in roots_op0 \
                                and "MemIO" in norm(e.args[1]):
                            return True
                        if isinstance(e, ast.UnaryOp) and isinstance(e.op, ast.Not):
                            v = mem_pol(e.operand, at, depth)
                            return None if v is None else (not v)
                        if isinstance(e, ast.Name) and depth > 0:
                            d_ = q._named_condition(f, e.id, at)  # a condition that was given a name (`on_disk = not isinstance(x, MemIO)`)
                            return mem_pol(d_, at, depth - 1) if d_ is not None else None
                        return None
                    mem_edges = []
                    for n in cfg.nodes:
                        if n.kind in ("true", "false") and n.ast is not None and n.owner is not None:
                            mp = mem_pol(n.ast, n.owner)
                            if mp is not None and ((n.kind == "true") == mp):
                                mem_edges.append(n)
                    defs = [q.node_for(f, d) for nm in roots_op0 for d in [x for x in walk(f.node) if isinstance(x, ast.Assign)
                                                                          and any(isinstance(t, ast.Name) and t.id == nm for t in x.targets)]]
                    if not defs or not mem_edges or any(cfg.reaches(d, cn, avoid=[kn] + mem_edges) for d in defs):
                        continue
                # the check must involve the sink path (or its parent) and the destination
                roots_op = {n.id for n in ast.walk(operand) if isinstance(n, ast.Name)}
                involved = any(isinstance(n, ast.Name) and n.id in roots_op for a in chk.args for n in ast.walk(a))
                dest_in = any(taint._is_dest_expr(f, a, taint.dest.get(f.qname, set())) for a in chk.args)
                if not (involved and dest_in):
                    why = "the resolving check does not take both the sink path and the destination"
                    continue
                # failing outcome must raise: either `if not check: raise` / `if check: ... else: raise`, or the callee raises itself
                raises = False
                if kn.kind == "test":
                    # the edge on which the sink may be reached must IMPLY that the check passed (an `A and not check` guard
                    # raises only when A holds: its fall-through edge says nothing about the check), the other edge must raise
                    for pol in (True, False):
                        if not any(atom is chk and ap for atom, ap in q.atoms(kn.ast, pol)):
                            continue
                        fe = next((s for s in kn.succ if s.kind == ("false" if pol else "true")), None)
                        if fe is not None and q.branch_always_raises(cfg, fe) and not cfg.reaches(fe, cn):
                            raises = True
                else:
                    # a checker that raises by itself (no boolean result consumed)
                    for t in cs.targets:
                        if any(isinstance(n, ast.Raise) for n in walk(t.node)) and not any(
                                isinstance(n, ast.Return) and n.value is not None for n in walk(t.node)):
                            raises = True
                if raises:
                    good = True
                    break
                why = "the resolving check's failing outcome does not raise before the sink"
            ctx.check(good, "R03.4", f, c, f"{f.qname}: {kind} dominated by a link-resolving containment check",
                      f"{kind} on an archive-named path is performed while earlier members may have created links, but {why}: "
                      "a chain of individually harmless links (a -> ., a/b -> ..) redirects a later member outside the destination",
                      path=ctx.res.call_path(roots, f.qname))
    parallel_guard(ctx, "R03.4")


def parallel_guard(ctx: Ctx, rule: str) -> None:
    """every call of Worker.extract in _extract (callback arm and plain arm are siblings) switches parallel extraction off when the
    archive holds link members: folder tasks that create links and tasks that write through them must not run concurrently."""
    ex = shared.szf(ctx, "_extract")
    wcalls = [c for c in q.calls(ex) if "py7zr:Worker.extract" in shared.targets_of(ctx, ex, c)]
    ctx.floor(rule, len(wcalls), 1, "Worker.extract calls in _extract")
    for c in wcalls:
        par = next((k.value for k in c.keywords if k.arg == "parallel"), c.args[2] if len(c.args) > 2 else None)
        if par is None:
            ctx.fail(rule, ex, c, "Worker.extract called without a parallel argument")
            continue
        const_false = isinstance(par, ast.Constant) and par.value is False
        # the flag(s) that say "the archive holds a link member": a name whose value is true whenever SOME member is a symbolic link
        # (any(...) over all members of `m.is_symlink`, alone or in a disjunction; no filter), or such an expression used directly
        def says_links(e: ast.AST) -> bool:
            if isinstance(e, ast.Name):
                vals = q.assigned_values(ex, e.id)
                return bool(vals) and all(says_links(v) for v in vals)
            if isinstance(e, ast.Call) and dotted(e.func) == "any" and e.args:
                comp = e.args[0]
                if isinstance(comp, (ast.ListComp, ast.GeneratorExp, ast.SetComp)) and len(comp.generators) == 1 and not comp.generators[0].ifs \
                        and norm(comp.generators[0].iter) == "self.files" and isinstance(comp.generators[0].target, ast.Name):
                    v = comp.generators[0].target.id
                    return shared.implied_by_all(comp.elt, {f"{v}.is_symlink"})
            return False
        off = const_false or shared.off_when(ex, par, says_links)
        ctx.check(off, rule, ex, c, "parallel extraction disabled for archives with link members",
                  "extraction may run folders in parallel although the archive contains link members (the `parallel` argument is not switched off by a flag that is true "
                  "whenever some member is a symbolic link - a flag that is merely mentioned, negated the wrong way round, or true only for members that are link AND junction, "
                  "does not do): the check-then-create of one worker races with link creation by another (the result depends on the schedule)", construct=f"parallel={norm(par)}")


def r03_6(ctx: Ctx, roots) -> None:
    """shape of the link-resolving containment helper(s)."""
    memo: Dict[str, bool] = {}
    clo = ctx.res.closure(roots)
    helpers = [f for f in clo.values() if f.module == "helpers" and any(
        dotted(c.func) in ("os.path.realpath",) or (isinstance(c.func, ast.Attribute) and c.func.attr in ("resolve", "realpath")) for c in q.calls(f))]
    if not helpers:
        ctx.note("R03.6: no link-resolving helper is reachable from extraction (R03.4 reports the missing checks)")
    def fails_closed(h) -> bool:
        """the function does not take realpath's answer on trust: strict resolution, or an lstat probe of the answer whose OSError (other than
        'does not exist') leads to a refusing return"""
        if any(any(k.arg == "strict" and isinstance(k.value, ast.Constant) and k.value.value is True for k in c.keywords) for c in q.calls(h)
               if dotted(c.func) == "os.path.realpath" or attr_tail(c) == "resolve"):
            return True
        for t in [t for t in walk(h.node) if isinstance(t, ast.Try)]:
            probes = any(isinstance(x, ast.Call) and dotted(x.func) in ("os.lstat", "os.stat") or (isinstance(x, ast.Call) and attr_tail(x) in ("lstat",)) for st in t.body for x in ast.walk(st))
            refuses = any(hh.type is not None and any(isinstance(x, ast.Name) and x.id in ("OSError", "Exception") for x in ast.walk(hh.type)) and
                          any(isinstance(x, ast.Return) and isinstance(x.value, ast.Constant) and x.value.value in (None, False) for x in ast.walk(hh)) for hh in t.handlers)
            if probes and refuses:
                return True
        return False

    # os.path.realpath (non-strict) / Path.resolve() cannot be repaired after the fact: a component they could not examine (ENAMETOOLONG for a link
    # whose absolute spelling passes PATH_MAX, EACCES) is taken for a plain name and a later '..' REMOVES it from the answer, so no probe of the
    # answer sees it, while the system walks a short spelling through the link.  Outside the win32 arm the resolver walks the path itself:
    # (a) no lenient realpath/resolve call without a platform guard, (b) every lstat/readlink of the walk stands in a try whose OSError handler
    # (other than 'does not exist') refuses, (c) following a link is bounded by a counter
    for h in helpers:
        lenient = [c for c in q.calls(h) if (dotted(c.func) == "os.path.realpath" or attr_tail(c) == "resolve")
                   and not any(k.arg == "strict" and isinstance(k.value, ast.Constant) and k.value.value is True for k in c.keywords)]
        for c in lenient:
            guarded = any(pol and "platform" in norm(cd) and "win" in norm(cd) for cd, pol in q.facts_at(h, c))
            ctx.check(guarded, "R03.6", h, c, f"{h.name}: no lenient realpath outside the win32 arm",
                      f"`{norm(c)}` decides where a path leads on POSIX: realpath takes a component whose lstat fails (a link whose absolute path is longer than PATH_MAX: "
                      "ENAMETOOLONG) for a directory, and the '..' components behind it pop it from the answer - the probe of the answer never meets it, the kernel follows the "
                      "link: one archive (long nested directories, a short link into them, a link x -> k/<long>/s/../../..../<victim>) makes extractall() write, re-time and "
                      "re-mode files at any absolute path", construct=f"{h.name} lenient realpath")
        walks = [c for c in q.calls(h) if dotted(c.func) in ("os.lstat", "os.readlink") and not any(pol and "platform" in norm(cd) and "win" in norm(cd) for cd, pol in q.facts_at(h, c))]
        for c in walks:
            tr = [t for t in walk(h.node) if isinstance(t, ast.Try) and any(c is x for st in t.body for x in ast.walk(st))]
            refuses = bool(tr) and any(hh.type is not None and any(isinstance(x, ast.Name) and x.id in ("OSError", "Exception") for x in ast.walk(hh.type)) and
                                       hh.body and isinstance(hh.body[-1], ast.Return) and isinstance(hh.body[-1].value, ast.Constant) and hh.body[-1].value.value in (None, False)
                                       for hh in tr[-1].handlers)
            ctx.check(refuses, "R03.6", h, c, f"{h.name}: a component that cannot be examined ends the walk with a refusal",
                      f"`{norm(c)}` in the component walk of {h.name} is not covered by an `except OSError: return None`: a component the walk cannot examine is taken on trust",
                      construct=f"{h.name} walk trusts an unexaminable component")
        rl = [c for c in walks if dotted(c.func) == "os.readlink"]
        for c in rl:
            cfg_h = cfg_of(h.node)
            bounded = any(t.kind == "test" and isinstance(t.ast, ast.Compare) and isinstance(t.ast.ops[0], (ast.Gt, ast.GtE)) and cfg_h.dominates(t, q.node_for(h, c))
                          and any(e.kind == "true" and (q.branch_always_raises(cfg_h, e) or any(isinstance(n_.ast, ast.Return) for n_ in e.succ)) for e in t.succ) for t in cfg_h.nodes)
            # ... and the counter only grows: a reset inside the walk (say, at every plain component) bounds unbroken chains of links only, and
            # 'd/l -> ../d/l' is followed for ever
            if bounded:
                counters = {t.ast.left.id for t in cfg_h.nodes if t.kind == "test" and isinstance(t.ast, ast.Compare) and isinstance(t.ast.left, ast.Name) and isinstance(t.ast.ops[0], (ast.Gt, ast.GtE))
                            and cfg_h.dominates(t, q.node_for(h, c))}
                resets = [n for n in walk(h.node) if isinstance(n, ast.Assign) and isinstance(n.targets[0], ast.Name) and n.targets[0].id in counters and q.enclosing_loops(h, n)]
                bounded = not resets
            ctx.check(bounded, "R03.6", h, c, f"{h.name}: the number of links followed is bounded",
                      f"{h.name} follows links without a bound: a link that leads to itself keeps the containment check (and with it extractall) busy for ever", construct=f"{h.name} unbounded link following")
    def cmp_names(h) -> set:
        """names of the path-comparing calls of h; `x.startswith("/")` with a constant is a test of the text's form, not a comparison of two paths"""
        return {attr_tail(c) for c in q.calls(h) if not (attr_tail(c) == "startswith" and c.args and isinstance(c.args[0], (ast.Constant, ast.Tuple))
                                                          and all(isinstance(e, ast.Constant) for e in (c.args[0].elts if isinstance(c.args[0], ast.Tuple) else [c.args[0]])))}
    resolvers = [h for h in helpers if not (cmp_names(h) & {"commonpath", "relative_to", "is_relative_to", "samefile", "startswith", "commonprefix"})]
    for h in helpers:
        direct = [c for c in q.calls(h) if dotted(c.func) == "os.path.realpath" or (isinstance(c.func, ast.Attribute) and c.func.attr in ("resolve",))]
        ctx.check(fails_closed(h), "R03.6", h, direct[0], f"{h.name}: realpath's answer is examined (fails closed)",
                  f"{h.name} takes `os.path.realpath` on trust: realpath treats a component whose lstat fails (ENAMETOOLONG once the resolved path passes 4096 bytes, EACCES, ELOOP) as a plain "
                  "name and carries on textually, while the kernel walks a short spelling of the same path through a link - a hostile archive gets a file written into the parent of "
                  "the destination", construct=f"{h.name} trusts realpath")
    helpers = [h for h in helpers if h not in resolvers] + [f for f in clo.values() if f.module == "helpers" and f not in helpers and any(
        attr_tail(c) in {r.name for r in resolvers} for c in q.calls(f))]
    for h in helpers:
        tparam = h.params[0]
        rp = [c for c in q.calls(h) if dotted(c.func) == "os.path.realpath" or (isinstance(c.func, ast.Attribute) and c.func.attr in ("resolve",)) or attr_tail(c) in {r.name for r in resolvers}]
        full = False
        for c in rp:
            arg = c.args[0] if c.args else (c.func.value if isinstance(c.func, ast.Attribute) else None)
            if isinstance(arg, ast.Name) and arg.id == tparam:
                full = True
        ctx.check(full, "R03.6", h, rp[0] if rp else h.node, f"{h.name} resolves the whole target path (including a final link)",
                  f"{h.name} resolves only a part of the target (e.g. its parent directory): when the last component already is a link created by an earlier member, "
                  "open()/touch()/utime follow it to a place the check never looked at")
        # comparison: commonpath == base / relative_to / is_relative_to ; never a plain string prefix
        names = cmp_names(h)
        pathwise = bool(names & {"commonpath", "relative_to", "is_relative_to", "samefile"})
        stringy = bool(names & {"startswith", "commonprefix"})
        ctx.check(pathwise and not stringy, "R03.6", h, h.node, f"{h.name} compares component-wise",
                  f"{h.name} compares paths as strings (startswith/commonprefix): a sibling whose name merely starts with the destination's name counts as inside",
                  construct=f"{h.name} comparison")
        rets = [n for n in walk(h.node) if isinstance(n, ast.Return)]
        for r in rets:
            if isinstance(r.value, ast.Constant) and r.value.value is True:
                ctx.fail("R03.6", h, r, f"{h.name} returns True unconditionally on some path")
    # the lexical helper must not compare strings either
    for name in ("is_relative_to",):
        g = ctx.prog.func("helpers", name)
        stringy = any(attr_tail(c) in ("startswith", "commonprefix") for c in q.calls(g))
        ctx.check(not stringy, "R03.6", g, g.node, f"{name} compares component-wise", f"{name} compares paths as strings (startswith/commonprefix)", construct=f"{name} comparison")


def r03_5(ctx: Ctx, closure) -> None:
    ex = shared.szf(ctx, "_extract")
    cfg = cfg_of(ex.node)
    wcalls = [c for c in q.calls(ex) if "py7zr:Worker.extract" in shared.targets_of(ctx, ex, c)]
    mk = [c for c in q.calls(ex) if attr_tail(c) in ("mkdir", "makedirs")]
    ctx.floor("R03.5", len(mk), 1, "mkdir in _extract")
    for m in mk:
        mn = q.node_for(ex, m)
        after = any(cfg.reaches(q.node_for(ex, w), mn) for w in wcalls)
        ctx.check(not after, "R03.5", ex, m, "directory creation precedes the worker (no link exists yet)",
                  "a directory named by the archive is created after members (possibly links) have been extracted")
    # post-pass list must not contain link members
    appends = [c for c in q.calls(ex) if isinstance(c.func, ast.Attribute) and c.func.attr == "append"
               and isinstance(c.func.value, ast.Name) and c.func.value.id == "target_files"]
    ctx.floor("R03.5", len(appends), 1, "target_files.append in _extract")
    for a in appends:
        facts = q.facts_at(ex, a)
        not_link = any((not pol) and any(isinstance(n, ast.Attribute) and n.attr == "is_symlink" for n in ast.walk(cond)) for cond, pol in facts)
        is_dir = any(pol and isinstance(cond, ast.Attribute) and cond.attr == "is_directory" for cond, pol in facts)
        ctx.check(not_link or is_dir, "R03.5", ex, a, "post-pass (utime/chmod) list excludes link members",
                  "a member that may be a symbolic link is queued for the utime/chmod post-pass: both follow the link and re-time / re-mode its target")


FS_STATE_QUERIES = {"realpath", "resolve", "lstat", "stat", "exists", "lexists", "is_symlink", "islink", "readlink", "is_dir", "isdir", "is_file", "isfile", "samefile", "is_junction"}
MEMO_DECORATORS = {"lru_cache", "cache", "cached_property", "memoize", "memoized"}


def r03_7(ctx: Ctx, closure) -> None:
    """what the file system says is asked anew every time: extraction itself changes it (a member is a file when it is checked and a link
    after a later member replaced it).  No function reachable from extraction that consults the file system (realpath, lstat, exists,
    is_symlink, ...) - directly or through a helper of the package - carries a memoising decorator (functools.lru_cache / cache /
    cached_property): its second answer would describe the tree as it was."""
    memo: Dict[str, bool] = {}

    def consults(g: Func, depth: int = 3) -> bool:
        if g.qname in memo:
            return memo[g.qname]
        memo[g.qname] = False
        r = False
        for c in q.calls(g):
            if attr_tail(c) in FS_STATE_QUERIES or (isinstance(c.func, ast.Name) and c.func.id in FS_STATE_QUERIES):
                r = True
                break
            if depth > 0:
                for t in (ctx.res.site_of(g, c).targets if ctx.res.site_of(g, c) is not None else []):
                    if consults(t, depth - 1):
                        r = True
                        break
            if r:
                break
        memo[g.qname] = r
        return r

    n = 0
    for fq, f in closure.items():
        decos = getattr(f.node, "decorator_list", [])
        if not consults(f):
            continue
        n += 1
        if not decos:
            ctx.ok("R03.7", f"{f.qname}: consults the file system, no decorator")
        for d in decos:
            names = {x.attr if isinstance(x, ast.Attribute) else x.id for x in ast.walk(d) if isinstance(x, (ast.Attribute, ast.Name))}
            ctx.check(not (names & MEMO_DECORATORS), "R03.7", f, d, f"{f.qname} is not memoised",
                      f"{f.qname} consults the file system and is memoised (`@{norm(d)}`): a path that was checked while it was a plain file is trusted after a later member replaced it by a "
                      "link (or a directory by a link), so the time/mode pass or a later member re-times, re-modes, overwrites or creates a file outside the destination",
                      construct=f"memoised {f.name}")
    ctx.floor("R03.7", n, 4, "functions in closure(extract) that consult the file system")
