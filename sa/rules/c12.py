"""C12 — read sessions are repeatable and never modify the archive."""
from __future__ import annotations

import ast
from typing import Dict, List, Optional, Set, Tuple

from ..cfg import cfg_of
from ..consteval import NotConst
from ..model import AnalysisError, Func, attr_tail, dotted, norm, walk
from ..report import Ctx
from .. import q
from . import shared

EXPLANATION = (
    "Effect analysis of the read-mode closure: the archive handle (SevenZipFile.fp and every parameter it is bound to along "
    "resolved calls, plus handles opened from the archive's name) never receives write/truncate/writelines; writer "
    "functions are outside the closure and the write-mode helpers are called only under a mode test; the mode table maps "
    "'r' to 'rb' only and every other open in the closure is 'rb'; every entry point that starts a decode pass (reset, "
    "testzip) re-seeks, replaces the worker and clears every folder's cached decoder before decoding. "
    "Not decided: equality of results across call orders."
)
TRUSTED = ["CPython ast parser", "sa.resolve call graph + parameter binding", "sa.cfg dominators"]

WRITE_METHODS = {"write", "truncate", "writelines", "write_bytes", "write_text"}
WRITER_FUNCS = ["py7zr:SevenZipFile._write_flush", "py7zr:SevenZipFile._write_header", "py7zr:SevenZipFile._prepare_write",
                "py7zr:SevenZipFile._prepare_append", "archiveinfo:Header.write", "archiveinfo:Header._encode_header",
                "archiveinfo:SignatureHeader.write", "archiveinfo:SignatureHeader._write_skeleton", "py7zr:Worker.archive",
                "py7zr:Worker.write", "py7zr:Worker.writestr", "py7zr:Worker.flush_archive",
                "compressor:SevenZipCompressor.compress", "compressor:SevenZipCompressor.flush"]


def archive_params(ctx: Ctx, closure: Dict[str, Func]) -> Dict[str, Set[str]]:
    """function -> parameter names that may carry the archive handle (propagated from SevenZipFile.fp)."""
    arch: Dict[str, Set[str]] = {}

    busy: Set[tuple] = set()

    def is_arch(f: Func, e: ast.AST) -> bool:
        if isinstance(e, ast.Attribute) and e.attr == "fp" and isinstance(e.value, ast.Name) and e.value.id == "self" and f.cls == "SevenZipFile":
            return True
        if isinstance(e, ast.Name):
            if e.id in arch.get(f.qname, set()):
                return True
            key = (f.qname, e.id)
            if key in busy:
                return False
            busy.add(key)
            try:
                for v in q.assigned_values(f, e.id):
                    if v is not e and is_arch_value(f, v):
                        return True
            finally:
                busy.discard(key)
        return False

    def is_arch_value(f: Func, v: ast.AST) -> bool:
        if isinstance(v, ast.Call) and dotted(v.func) == "open" and v.args:
            # a handle opened from the archive's own name (worker threads)
            return any(isinstance(n, ast.Name) and ("filename" in n.id or n.id in arch.get(f.qname, set())) for n in ast.walk(v.args[0]))
        return is_arch(f, v)

    changed = True
    while changed:
        changed = False
        for fq, f in closure.items():
            for cs in ctx.res.sites_in(f):
                for g in cs.targets:
                    params = g.params[1:] if g.cls and not g.is_static else g.params
                    for p, a in list(zip(params, cs.node.args)) + [(k.arg, k.value) for k in cs.node.keywords if k.arg]:
                        if is_arch(f, a) or is_arch_value(f, a):
                            s = arch.setdefault(g.qname, set())
                            if p not in s:
                                s.add(p)
                                changed = True
            for c in q.calls(f):
                tgt = next((k.value for k in c.keywords if k.arg == "target"), None)
                args = next((k.value for k in c.keywords if k.arg == "args"), None)
                if tgt is None or not isinstance(args, ast.Tuple):
                    continue
                for t in ctx.res.infer(tgt, f):
                    g = ctx.res._func_by_q(t[1]) if t[0] == "func" else None
                    if g is None:
                        continue
                    params = g.params[1:] if g.cls and not g.is_static else g.params
                    for p, a in zip(params, args.elts):
                        if is_arch(f, a) or (isinstance(a, ast.Name) and "filename" in a.id):
                            s = arch.setdefault(g.qname, set())
                            if p not in s:
                                s.add(p)
                                changed = True
    archive_params.is_arch = is_arch  # type: ignore[attr-defined]
    return arch


def r12_1(ctx: Ctx, closure: Dict[str, Func]) -> None:
    roots = shared.read_roots(ctx)
    arch = archive_params(ctx, closure)
    is_arch = archive_params.is_arch  # type: ignore[attr-defined]
    ctx.floor("R12.1", len([1 for v in arch.values() if v]), 5, "functions receiving the archive handle")
    n_writes = 0
    for fq, f in sorted(closure.items()):
        for c in q.calls(f):
            if isinstance(c.func, ast.Attribute) and c.func.attr in WRITE_METHODS:
                n_writes += 1
                recv = c.func.value
                bad = is_arch(f, recv)
                ctx.check(not bad, "R12.1", f, c, f"{fq}: {norm(c.func)} receiver is not the archive handle",
                          "a write-effect method is applied to the archive handle in the read-mode closure",
                          path=ctx.res.call_path(roots, fq))
    ctx.floor("R12.1", n_writes, 3, "write-effect calls inspected in the read closure")
    # no destructive filesystem call on the archive's own name
    DESTRUCTIVE = {"os.remove", "os.unlink", "os.rename", "os.replace", "os.truncate", "shutil.move", "shutil.copyfile", "shutil.rmtree"}
    for fq, f in sorted(closure.items()):
        for c in q.calls(f):
            nm = dotted(c.func)
            operand = None
            if nm in DESTRUCTIVE and c.args:
                operand = c.args[0]
            elif isinstance(c.func, ast.Attribute) and c.func.attr in ("unlink", "rename", "replace", "write_bytes", "write_text", "truncate") and "filename" in norm(c.func.value):
                operand = c.func.value
            if operand is not None and any(isinstance(n, ast.Attribute) and n.attr in ("filename", "name") for n in ast.walk(operand)):
                ctx.fail("R12.1", f, c, "the archive file itself is removed / renamed / truncated in the read-mode closure", path=ctx.res.call_path(roots, fq))
    # writer functions outside the closure
    for wq in WRITER_FUNCS:
        mod, qual = wq.split(":")
        ctx.prog.func(mod, qual)  # anchor must exist
        if wq in closure:
            g = closure[wq]
            ctx.fail("R12.1", g, g.node, f"writer function {wq} is reachable from the read-mode API", construct=f"reachable {wq}",
                     path=ctx.res.call_path(roots, wq))
        else:
            ctx.ok("R12.1", f"{wq} not reachable from the read-mode API")
    # the cut points are guarded by mode tests
    close = shared.szf(ctx, "close")
    for c in q.calls(close):
        if attr_tail(c) == "_write_flush":
            modes = shared.mode_guard_consts(close, c)
            good = bool(modes) and modes <= {"w", "a", "x"}
            ctx.check(good, "R12.1", close, c, "close(): _write_flush only under a write-mode test",
                      "close() calls _write_flush without a write-mode guard: closing a read session would rewrite the archive")
    init = shared.szf(ctx, "__init__")
    for c in q.calls(init):
        if attr_tail(c) in ("_prepare_write", "_prepare_append"):
            facts = q.facts_at(init, c)
            good = any(pol and isinstance(cond, ast.Compare) and isinstance(cond.ops[0], ast.Eq) and isinstance(cond.comparators[0], ast.Constant)
                       and cond.comparators[0].value in ("w", "a", "x") and norm(cond.left) == "mode" for cond, pol in facts)
            ctx.check(good, "R12.1", init, c, f"constructor: {attr_tail(c)} only for a write mode",
                      f"the constructor calls {attr_tail(c)} on a path not restricted to modes w/x/a")


def r12_2(ctx: Ctx, closure: Dict[str, Func]) -> None:
    init = shared.szf(ctx, "__init__")
    tables = [n for n in walk(init.node) if isinstance(n, ast.Assign) and isinstance(n.value, ast.Dict) and isinstance(n.targets[0], ast.Name)]
    tbl = None
    for t in tables:
        try:
            d = ctx.ce.eval(t.value, "py7zr")
        except NotConst:
            continue
        if isinstance(d, dict) and "r" in d:
            tbl = (t, d)
    ctx.need(tbl is not None, "mode table with key 'r' not found in SevenZipFile.__init__")
    t, d = tbl
    chain, cur = [], "r"
    while cur in d and cur not in chain:
        chain.append(cur)
        cur = d[cur]
    modes = chain[1:] + [cur]
    ok = set(modes) == {"rb"}
    ctx.check(ok, "R12.2", init, t, "mode 'r' can only open the file 'rb'",
              f"mode 'r' may open the archive with {modes}: a read session could open the file writable/truncating", construct="modeDict['r'] chain")
    for fq, f in sorted(closure.items()):
        if fq == init.qname:
            continue
        for c in q.calls(f):
            if dotted(c.func) == "open" or (isinstance(c.func, ast.Attribute) and c.func.attr == "open"):
                mode = None
                if isinstance(c.func, ast.Name):
                    mode = c.args[1] if len(c.args) > 1 else next((k.value for k in c.keywords if k.arg == "mode"), None)
                else:
                    mode = c.args[0] if c.args else next((k.value for k in c.keywords if k.arg == "mode"), None)
                # only opens of the archive itself matter here: operand mentions a filename / archive name
                operand = c.args[0] if isinstance(c.func, ast.Name) and c.args else (c.func.value if isinstance(c.func, ast.Attribute) else None)
                if operand is None:
                    continue
                is_archive = any(isinstance(n, ast.Name) and ("filename" in n.id or n.id in ("fp", "file", "archive")) for n in ast.walk(operand))
                if not is_archive:
                    continue
                good = mode is None or (isinstance(mode, ast.Constant) and mode.value in ("rb", "r"))
                ctx.check(good, "R12.2", f, c, f"{fq}: archive opened {norm(mode) if mode is not None else 'default r'}",
                          "the archive is re-opened with a mode other than 'rb' in the read-mode closure")


def _clears_all_decoders(ctx: Ctx, f: Func, depth: int = 2) -> List[ast.AST]:
    """statements in f that clear every folder's cached decoder (directly or through a helper)."""
    out: List[ast.AST] = []
    for n in walk(f.node):
        if isinstance(n, ast.For):
            it = n.iter
            if isinstance(it, ast.Call) and dotted(it.func) == "enumerate" and it.args:
                it = it.args[0]
            whole = isinstance(it, ast.Attribute) and it.attr == "folders"
            if not whole:
                continue
            for st in walk(n):
                if isinstance(st, ast.Assign) and any(isinstance(t, ast.Attribute) and t.attr == "decompressor" for t in st.targets) \
                        and isinstance(st.value, ast.Constant) and st.value.value is None:
                    # not under an extra condition inside the loop
                    inner_ifs = [x for x in walk(n) if isinstance(x, ast.If) and st in list(ast.walk(x))]
                    if not inner_ifs:
                        out.append(n)
    if depth > 0:
        for cs in ctx.res.sites_in(f):
            for g in cs.targets:
                if g.qname != f.qname and g.module == "py7zr" and _clears_all_decoders(ctx, g, depth - 1):
                    out.append(cs.node)
    return out


def _is_packed_start(srcs) -> bool:
    """the start of the packed data: _packed_start(), or afterheader combined with packpos."""
    attrs = {x.attr for s_ in srcs for x in ast.walk(s_) if isinstance(x, ast.Attribute)}
    return "_packed_start" in attrs or {"afterheader", "packpos"} <= attrs


def _session_effects(ctx: Ctx, f: Func):
    """(seeks, workers): top-level nodes of f at which the session handle is re-positioned to the start of the packed data / the worker is
    replaced, directly or inside a private helper of the same class (helpers are inlined two levels deep)."""
    seeks, workers = [], []
    for g, n, via in q.deep_nodes(ctx, f, depth=2):
        at = via if via is not None else n
        if isinstance(n, ast.Call) and attr_tail(n) == "seek" and "fp" in norm(n.func.value):
            srcs = [s_ for a in n.args for s_ in q.sources_of(g, a, depth=2)]
            if _is_packed_start(srcs):
                seeks.append(at)
        if isinstance(n, ast.Assign) and any(isinstance(t, ast.Attribute) and t.attr == "worker" for t in n.targets) and isinstance(n.value, ast.Call) and attr_tail(n.value) == "Worker":
            a1 = n.value.args[1] if len(n.value.args) > 1 else None
            if a1 is not None and _is_packed_start(q.sources_of(g, a1, depth=2)):
                workers.append(at)
    return seeks, workers


def r12_3(ctx: Ctx) -> None:
    # reset(): seek, new worker, clear all
    rs = shared.szf(ctx, "reset")
    clears = _clears_all_decoders(ctx, rs)
    seeks, workers = _session_effects(ctx, rs)
    ctx.check(bool(clears) and bool(seeks) and bool(workers), "R12.3", rs, rs.node, "reset(): re-seek, new worker, all decoder caches cleared",
              "reset() does not re-seek, replace the worker and clear every folder's cached decoder", construct="reset() body")
    # neither may depend on anything but the mode / presence of folders
    for cl in clears + seeks + workers:
        facts = q.facts_at(rs, cl)
        odd = [c for c, pol in facts if not (_mentions(c, "mode") or _mentions(c, "main_streams") or _mentions(c, "numfolders") or _mentions(c, "unpackinfo"))]
        ctx.check(not odd, "R12.3", rs, cl, "reset(): not under an unrelated condition",
                  f"reset() re-seeks / replaces the worker / clears decoder caches only under {', '.join(norm(o) for o in odd)}: e.g. after a parallel extraction (own handles per "
                  "folder) the session's file position has not moved, yet the folder decoders are at end of stream")
    # every decode entry point that does not require reset(): testzip
    for name in ("testzip",):
        f = shared.szf(ctx, name)
        cfg = cfg_of(f.node)
        ex = [c for c in q.calls(f) if "py7zr:Worker.extract" in shared.targets_of(ctx, f, c)]
        ctx.floor("R12.3", len(ex), 1, f"Worker.extract call in {name}")
        clears = _clears_all_decoders(ctx, f)
        seeks, workers = _session_effects(ctx, f)
        for e in ex:
            en = q.node_for(f, e)
            c_ok = any(cfg.dominates(q.node_for(f, cl), en) for cl in clears)
            s_ok = any(cfg.dominates(q.node_for(f, s), en) for s in seeks)
            w_ok = any(cfg.dominates(q.node_for(f, w), en) for w in workers)
            ctx.check(s_ok and w_ok, "R12.3", f, e, f"{name}(): re-seek and fresh worker dominate the decode pass",
                      f"{name}() starts a decode pass without re-seeking / replacing the worker", construct=f"{name} seek/worker")
            ctx.check(c_ok, "R12.3", f, e, f"{name}(): all folder decoder caches cleared before the decode pass",
                      f"{name}() starts a full decode pass with a fresh worker and file position but keeps each folder's cached decoder: "
                      "after an earlier extract/testzip the stale decoder is at end-of-stream and yields nothing (wrong verdict or endless loop)",
                      construct=f"{name} decoder cache")
    # test() leaves a worker/position behind that later calls use: it must be the start of the packed data as well
    t = shared.szf(ctx, "test")
    seeks, workers = _session_effects(ctx, t)
    ctx.check(bool(seeks) and bool(workers), "R12.3", t, t.node, "test(): leaves the handle and a fresh worker at the start of the packed data",
              "test() leaves the session with a handle position / worker that does not start at the packed data (afterheader + packpos): a following extract without reset reads from the wrong offset",
              construct="test() seek/worker")
    # the per-folder extractor positions the handle it is given on every path (not only when it opened it itself)
    es = ctx.prog.func("py7zr", "Worker.extract_single")
    ecfg = cfg_of(es.node)
    sk = [c for c in q.calls(es) if attr_tail(c) == "seek"]
    work = [c for c in q.calls(es) if attr_tail(c) == "_extract_single"]
    ok = bool(sk) and bool(work) and all(not ecfg.reaches(ecfg.entry, q.node_for(es, w), avoid=[q.node_for(es, s_) for s_ in sk]) for w in work)
    ctx.check(ok, "R12.3", es, sk[0] if sk else es.node, "extract_single positions the handle on every path before decoding",
              "extract_single decodes from a handle it did not position on some path (e.g. only a handle it opened itself is seeked): a session handle left elsewhere by test() is read from the wrong offset")


def _mentions(e: ast.AST, word: str) -> bool:
    return any((isinstance(n, ast.Attribute) and n.attr == word) or (isinstance(n, ast.Name) and n.id == word) for n in ast.walk(e))


def member_keys(ctx: Ctx) -> set:
    """the vocabulary of per-member keys: constant subscript-store keys in the header parser and the member walk."""
    keys = set()
    fns = [shared.szf(ctx, "_real_get_contents")] + [m for m in ctx.prog.cls("FilesInfo", "archiveinfo").methods.values()]
    for f in fns:
        for n in walk(f.node):
            if isinstance(n, (ast.Assign, ast.AnnAssign)):
                for t in (n.targets if isinstance(n, ast.Assign) else [n.target]):
                    if isinstance(t, ast.Subscript) and isinstance(t.slice, ast.Constant) and isinstance(t.slice.value, str):
                        keys.add(t.slice.value)
            # _read_times(fp, "lastwritetime") style: the key travels as a string argument
            if isinstance(n, ast.Call) and attr_tail(n) in ("_read_times", "_read_attributes", "_read_name", "_read_start_pos"):
                keys |= {a.value for a in n.args if isinstance(a, ast.Constant) and isinstance(a.value, str)}
    return keys


def r12_5(ctx: Ctx, closure: Dict[str, Func]) -> None:
    """reading does not deplete the member table: ArchiveFile.file_properties() hands out the member's own dict, so a read-mode
    function that pops / deletes a member key from a dict it did not create itself changes what list()/getinfo()/a second extraction
    see later in the session."""
    keys = member_keys(ctx)
    ctx.need(len(keys) >= 8 and "lastwritetime" in keys, f"member key vocabulary not derived ({sorted(keys)})")
    roots = shared.read_roots(ctx)
    n_fn = 0
    for fq, f in sorted(closure.items()):
        if f.module != "py7zr":
            continue
        n_fn += 1

        def fresh(e: ast.AST) -> bool:
            if isinstance(e, ast.Name):
                vals = q.assigned_values(f, e.id)
                return bool(vals) and all(isinstance(v, (ast.Dict, ast.DictComp)) or (isinstance(v, ast.Call) and (dotted(v.func) == "dict" or attr_tail(v) in ("copy", "deepcopy")))
                                          for v in vals)
            return False

        for n in walk(f.node):
            recv, key = None, None
            if isinstance(n, ast.Call) and isinstance(n.func, ast.Attribute) and n.func.attr in ("pop", "__delitem__") and n.args \
                    and isinstance(n.args[0], ast.Constant) and isinstance(n.args[0].value, str):
                recv, key = n.func.value, n.args[0].value
            elif isinstance(n, ast.Call) and isinstance(n.func, ast.Attribute) and n.func.attr in ("clear", "popitem") and not n.args \
                    and any(w in norm(n.func.value) for w in ("properties", "file_info", "_file_info")):
                recv, key = n.func.value, "*"
            elif isinstance(n, ast.Delete):
                for t in n.targets:
                    if isinstance(t, ast.Subscript) and isinstance(t.slice, ast.Constant) and isinstance(t.slice.value, str):
                        recv, key = t.value, t.slice.value
            if recv is None or (key != "*" and key not in keys) or fresh(recv):
                continue
            ctx.fail("R12.5", f, n, f"`{norm(n)[:70]}` removes the member key '{key}' from a dict this function did not create (file_properties() returns the member's "
                     "own dict): after the first extraction list()/getinfo() lose the value and a second extraction no longer restores it",
                     construct=f"member key removed {key}", path=ctx.res.call_path(roots, fq))
    ctx.floor("R12.5", n_fn, 20, "py7zr functions in the read closure")
    ctx.ok("R12.5", f"{n_fn} read-closure functions: no member key ({len(keys)} keys) is popped/deleted from a shared dict")


def r12_6(ctx: Ctx, rule: str = "R12.6") -> None:
    """sibling call sites of Worker.extract: the thread/process-per-folder branch re-opens the archive BY NAME (and raises InternalError
    when the handle has none), so every caller asks for `parallel` only when the archive was not passed as a stream: the argument
    mentions `_filePassed` (or is the constant False).  _extract does; a sibling that forgets it (testzip) fails on every multi-folder
    archive opened from BytesIO / a caller's file object."""
    n = 0
    for f in ctx.prog.funcs_in("py7zr"):
        for c in q.calls(f):
            if "py7zr:Worker.extract" not in shared.targets_of(ctx, f, c):
                continue
            n += 1
            par = next((k.value for k in c.keywords if k.arg == "parallel"), c.args[2] if len(c.args) > 2 else None)
            if par is None:
                ctx.fail(rule, f, c, "Worker.extract called without a parallel argument")
                continue
            srcs = [par] + list(q.sources_of(f, par, depth=3))
            ok = (isinstance(par, ast.Constant) and par.value is False) or shared.off_when(f, par, lambda e: isinstance(e, ast.Attribute) and e.attr == "_filePassed")
            ctx.check(ok, rule, f, c, f"{f.qname}: parallel only for archives opened by name",
                      f"{f.qname} asks Worker.extract for parallel folders without excluding archives passed as a stream (`parallel={norm(par)}`): the parallel branch "
                      "needs the file NAME and raises InternalError('Caught unknown variable status error') for every multi-folder archive opened from BytesIO or a file object",
                      construct=f"parallel without _filePassed in {f.name}")
    ctx.floor(rule, n, 2, "Worker.extract call sites")


def r12_7(ctx: Ctx, rule: str = "R12.7") -> None:
    """no write through a read session: the functions that hand a source to Worker.archive (write, _writef: every public write call ends
    in one of them) leave with an error when the archive was opened with mode 'r' - a guard on the mode whose failing outcome raises
    dominates the registration of the member.  Without it writestr() on `SevenZipFile(open(p, 'r+b'), 'r')` writes compressed data over
    the packed streams."""
    n = 0
    for name in ("write", "_writef"):
        f = shared.szf(ctx, name)
        cfg = cfg_of(f.node)
        arch = [c for c in q.calls(f) if "py7zr:Worker.archive" in shared.targets_of(ctx, f, c)]
        for a in arch:
            n += 1
            an = q.node_for(f, a)
            ok = False
            for t in cfg.nodes:
                if t.kind != "test" or not cfg.dominates(t, an) or "mode" not in norm(t.ast):
                    continue
                for e in t.succ:
                    if e.kind in ("true", "false") and q.branch_always_raises(cfg, e) and not cfg.reaches(e, an):
                        ok = True
            ctx.check(ok, rule, f, a, f"{name}: refused unless the archive was opened for writing",
                      f"{name} hands a source to Worker.archive whatever the mode: on an object opened with 'r' over a writable handle the call changes the member list and "
                      "writes compressed data over the packed streams and the header of the archive", construct=f"{name} without mode guard")
    ctx.floor(rule, n, 2, "Worker.archive calls in write/_writef")


def r12_8(ctx: Ctx, rule: str = "R12.8") -> None:
    """a call does not spoil the next one: testzip() decodes every folder, which uses the cached decoders up and moves the handle; before it
    returns (or raises) it puts the session back (`reset()` / a fresh worker and `_reset_decompressor()` in a `finally` around the decode), so that
    `testzip(); extract(T)` and `testzip(); extractall()` behave like calls on a fresh session."""
    f = shared.szf(ctx, "testzip")
    ex = [c for c in q.calls(f) if attr_tail(c) == "extract" and "worker" in norm(c.func.value)]
    ctx.floor(rule, len(ex), 1, "decode pass in testzip")
    ok = False
    for t in [t for t in walk(f.node) if isinstance(t, ast.Try) and any(c in list(ast.walk(st)) for st in t.body for c in ex)]:
        fin = [x for st in t.finalbody for x in ast.walk(st) if isinstance(x, ast.Call) and attr_tail(x) in ("reset", "_reset_decompressor")]
        ok = ok or bool(fin)
    ctx.check(ok, rule, f, ex[0], "testzip() leaves the session as a fresh one (reset in a finally)",
              "testzip() leaves the decoders it used up in the folders' caches: `testzip(); extract(targets=T)` (and `extractall()`) raise 'Unexpected end of data' naming an unselected "
              "member and leave an empty file under a selected member's name, although each call works on a fresh session", construct="testzip leaves used decoders")


def r12_9(ctx: Ctx, rule: str = "R12.9") -> None:
    """reading never changes the archive: extraction into the archive's own directory of a member that is named like the archive would open
    the archive for writing.  Every registration of a real output path in _extract is dominated by a test that compares that path with the open
    archive (an identity test such as os.path.samestat, directly or through a method of the class) and raises when they are the same file."""
    f = shared.szf(ctx, "_extract")
    cfg = cfg_of(f.node)
    regs = [c for c in q.calls(f) if attr_tail(c) == "register_filelike" and len(c.args) > 1 and isinstance(c.args[1], ast.Name)]
    ctx.floor(rule, len(regs), 1, "registrations of real output paths in _extract")
    cls = ctx.prog.cls("SevenZipFile", "py7zr")

    def identity(x: ast.AST) -> bool:
        if not isinstance(x, ast.Call):
            return False
        if attr_tail(x) in ("samefile", "samestat", "sameopenfile"):
            return True
        if isinstance(x.func, ast.Attribute) and norm(x.func.value) == "self":
            m = ctx.prog.method(cls, x.func.attr)
            return m is not None and any(isinstance(y, ast.Call) and attr_tail(y) in ("samefile", "samestat", "sameopenfile") for y in walk(m.node))
        return False
    guards = []
    for t in cfg.nodes:
        if t.kind == "test" and any(identity(x) for x in ast.walk(t.ast)):
            te = next((e for e in t.succ if e.kind == "true"), None)
            if te is not None and q.branch_always_raises(cfg, te):
                guards.append(t)
    for c in regs:
        path = c.args[1].id
        ok = any(cfg.dominates(g, q.node_for(f, c)) and any(isinstance(y, ast.Name) and y.id == path for y in ast.walk(g.ast)) for g in guards)
        ctx.check(ok, rule, f, c, "an output path is registered only after it was compared with the open archive",
                  f"_extract registers `{path}` for writing without asking whether it is the archive that is being read: `extractall(path=<directory of the archive>)` of an archive that "
                  "holds a member named like itself overwrites the archive in a mode-'r' session and returns normally", construct="output path may be the archive")
    # (d) a member that is extracted AS A LINK replaces the entry at the path and never writes through it: for it the test is about the entry
    # ITSELF (lstat), for a member written as a file about where the path leads (stat).  Judging a link member by where the old link leads
    # refuses 'latest -> backup.7z' on every extraction but the first; exempting link members lets a link member NAMED like the archive
    # unlink the archive and take its place.  The identity call carries a follow flag that is the negation of the link flag.
    def is_link_flag(e: ast.AST) -> bool:
        e = q.expand_locals(f, e)
        return any(isinstance(x, ast.Attribute) and x.attr == "is_symlink" for x in ast.walk(e))
    for g in guards:
        exempt = any((not pol) and is_link_flag(a) for a, pol in q.atoms(g.ast, True))
        idc = [x for x in ast.walk(g.ast) if identity(x)]
        flagged = any(any(isinstance(v, ast.UnaryOp) and isinstance(v.op, ast.Not) and is_link_flag(v.operand) for v in [k.value for k in c_.keywords] + list(c_.args[1:])) for c_ in idc)
        ctx.check(flagged and not exempt, rule, f, g.ast, "link members are compared with the archive by the entry at their path, file members by where the path leads",
                  f"`{norm(g.ast)[:110]}`: " + ("link members are exempt from the refusal: a symbolic-link member NAMED like the archive, extracted into the archive's directory, unlinks the "
                                                "archive and leaves a link in its place" if exempt else
                                                "the identity test follows links for every kind of member: a link member whose OLD link leads to the archive ('latest -> backup.7z') extracts once "
                                                "and is refused ever after, although extraction only replaces the link"),
                  construct="identity test and link members")
    # (e) where a path leads is asked again WHERE IT IS OPENED: a link extracted a moment ago ('d -> .', then 'd/<archive name>') did not exist when
    # the outputs were planned.  In Worker._extract_single every open for writing of a real output is preceded, in the same arm, by an identity test
    # that raises, guarded by nothing but 'is a real file' / 'the archive is a file' / 'something is there'
    es = ctx.prog.func("py7zr", "Worker._extract_single")
    ecfg = cfg_of(es.node)
    opens = [c for c in q.calls(es) if attr_tail(c) == "open" and any(k.arg == "mode" and isinstance(k.value, ast.Constant) and "w" in str(k.value.value) for k in c.keywords)]
    ctx.floor(rule, len(opens), 1, "opens for writing in _extract_single")
    # ... and the entry a link is put in place of is removed only behind the same kind of test
    in_handlers = {id(x) for h in walk(es.node) if isinstance(h, ast.ExceptHandler) for x in ast.walk(h)}
    opens += [c for c in q.calls(es) if attr_tail(c) in ("unlink", "remove") and id(c) not in in_handlers]
    idt = [t for t in ecfg.nodes if t.kind == "test" and any(isinstance(x, ast.Call) and attr_tail(x) in ("samestat", "samefile", "sameopenfile") for x in ast.walk(t.ast))
           and any(e.kind == "true" and q.branch_always_raises(ecfg, e) for e in t.succ)]
    for c in opens:
        cn = q.node_for(es, c)
        here = {(norm(cd), pol) for cd, pol in q.facts_at(es, c)}
        if any(pol and "platform" in cd_ and "win32" in cd_ for cd_, pol in here):
            continue  # the junction arm of Windows: outside the property's platforms
        heads = [ecfg.by_ast[lp_] for lp_ in q.enclosing_loops(es, c) if lp_ in ecfg.by_ast]
        ok = False
        for t in idt:
            if not ecfg.reaches(t, cn, avoid=heads):  # in the same iteration: the test is about THIS member's path
                continue
            # (a condition that was given a name is judged by its definition, which facts_at adds: the name itself says nothing)
            extra = [(cd, pol) for cd, pol in q.facts_at(es, t.ast) if (norm(cd), pol) not in here
                     and not (isinstance(cd, ast.Name) and q._named_condition(es, cd.id, q.node_for(es, t.ast)) is not None)]
            if all(any(w in norm(cd) for w in ("MemIO", "own_stats", "exists")) for cd, pol in extra):
                ok = True
        ctx.check(ok, rule, es, c, "an output is compared with the open archive where it is opened for writing",
                  f"`{norm(c)}` opens the member's path for writing without asking whether it leads to the archive NOW: with members 'd -> .' and 'd/<name of the archive>' the path did "
                  "not exist when _extract compared the planned outputs with the archive; the worker truncates the archive it is reading, extractall() returns normally",
                  construct="no identity test at the open")
    # (f) the worker that does the writing knows the archive: `reset()`, `test()` and `testzip()` put a NEW Worker in place, so the identity of the
    # archive is handed to `self.worker` in _extract itself, on the way to every worker call - not once when the archive is opened
    wc_ = [c for c in q.calls(f) if "py7zr:Worker.extract" in shared.targets_of(ctx, f, c)]
    gives = [n for n in walk(f.node) if isinstance(n, ast.Assign) and any(isinstance(t_, ast.Attribute) and norm(t_.value) == "self.worker" for t_ in n.targets)
             and any(isinstance(x, ast.Call) and attr_tail(x) in ("_own_stats", "fstat") for x in ast.walk(n.value))]
    for c in wc_:
        ok = any(cfg.dominates(q.node_for(f, g_), q.node_for(f, c)) for g_ in gives)
        ctx.check(ok, rule, f, c, "the extracting worker is told which file(s) the archive is, in every extraction",
                  "_extract starts the worker without handing it the identity of the archive (`self.worker.<field> = self._own_stats()` on the way to the call): reset(), test() and "
                  "testzip() replace the worker, so after any of them the test 'would this write go over the archive' is off and 'd -> .' + 'd/<archive name>' overwrites the archive",
                  construct="worker without the archive's identity")
    # the comparison is with the file the path LEADS to (open() follows links): the identity helper looks at its argument with stat, not lstat
    for m in [mm for mm in cls.methods.values() if any(isinstance(y, ast.Call) and attr_tail(y) in ("samestat",) for y in walk(mm.node))]:
        cond_l = {id(y) for ie in walk(m.node) if isinstance(ie, ast.IfExp) and any(isinstance(z, ast.Name) and z.id in m.params[1:] for z in ast.walk(ie.test))
                  and any(isinstance(z, ast.Call) and attr_tail(z) == "stat" for z in ast.walk(ie)) for y in ast.walk(ie)}
        ls = [y for y in walk(m.node) if isinstance(y, ast.Call) and attr_tail(y) == "lstat" and id(y) not in cond_l and (
            (y.args and any(isinstance(z, ast.Name) and z.id in m.params for z in ast.walk(y.args[0]))) or
            (isinstance(y.func, ast.Attribute) and any(isinstance(z, ast.Name) and z.id in m.params for z in ast.walk(y.func.value))))]
        ctx.check(not ls, rule, m, ls[0] if ls else m.node, f"{m.name} identifies the file a path leads to (stat, not lstat)",
                  (f"`{norm(ls[0])}`: " if ls else "") + f"{m.name} compares the open archive with the path ITSELF, not with the file it leads to: a symbolic link in the destination that points to "
                  "the archive is not recognised, the member named like the link is written through it and the mode-'r' session truncates the archive it reads",
                  construct=f"{m.name} does not follow links")


def r12_11(ctx: Ctx, rule: str = "R12.11") -> None:
    """the pass that sets times and modes after extraction stamps FILES it extracted: os.utime and chmod follow links, and a later member may
    have put a link in a file's place ('l', then a link member 'x/../l' -> the archive): every utime/chmod of that loop is dominated by a test
    that the path is a link now, whose true arm goes on to the next entry.  Otherwise the mode and time of a file that is no longer there land
    on whatever the link points to - the archive that is being read, for one (mode 000)."""
    f = shared.szf(ctx, "_extract")
    cfg = cfg_of(f.node)
    sinks = [c for c in q.calls(f) if (dotted(c.func) == "os.utime" or attr_tail(c) in ("chmod", "utime")) and q.enclosing_loops(f, c)]
    ctx.floor(rule, len(sinks), 2, "utime/chmod calls in the post-pass of _extract")
    for c in sinks:
        ok = False
        for lp in q.enclosing_loops(f, c):  # (a helper expanded in place may add a loop of its own around the calls)
            if lp not in cfg.by_ast:
                continue
            for t in cfg.nodes:
                if t.kind == "test" and any(isinstance(x, ast.Call) and (dotted(x.func) == "os.path.islink" or attr_tail(x) == "is_symlink") for x in ast.walk(t.ast)) \
                        and cfg.dominates(t, q.node_for(f, c)) and any(t.ast is x for st in lp.body for x in ast.walk(st)):
                    te = next((e for e in t.succ if e.kind == "true"), None)
                    if te is not None and not cfg.reaches(te, q.node_for(f, c), avoid=[cfg.by_ast[lp]]):
                        ok = True
        ctx.check(ok, rule, f, c, "times and modes are set on extracted files, not through a link that took a file's place",
                  f"`{norm(c)[:70]}` follows links: when a later member replaced the file by a link (members 'l' and 'x/../l' -> the archive, extracted into the archive's directory) the "
                  "mode and time of the vanished file are put on the link's target - the archive being read ends up with mode 000", construct="post-pass through a replaced entry")


def run(ctx: Ctx) -> None:
    r12_11(ctx)
    r12_9(ctx)
    r12_8(ctx)
    from . import c06 as _c06x
    _c06x.dispatch_forwards_skip(ctx, "R12.4")
    closure = shared.read_closure(ctx)
    ctx.extra["closure_size"] = len(closure)
    r12_1(ctx, closure)
    from . import c05 as _c05
    _c05.countdown_by_delivered(ctx, closure, "R12.10")  # test() gives the same (right) verdict at any point of the session, also on handles that read short
    r12_2(ctx, closure)
    r12_3(ctx)
    r12_5(ctx, closure)
    r12_6(ctx)
    r12_7(ctx)
