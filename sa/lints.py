"""Generic discovery lints on the same engine (candidate lists only; they never decide a property).
G1 possibly-unbound local (CFG reaching definitions)   G2 parameter never read   G3 attribute assigned but never read anywhere
G4 compared with None somewhere in the function, dereferenced elsewhere without a not-None guard"""
from __future__ import annotations

import ast
from typing import Dict, List, Set

from .cfg import cfg_of
from .model import Program, Func, walk, norm
from . import q


def g1_unbound(prog: Program) -> List[str]:
    out = []
    for f in prog.all_funcs:
        cfg = cfg_of(f.node)
        params = set(f.params)
        stores: Dict[str, List] = {}
        for n in cfg.stmt_nodes():
            a = n.ast
            tg: List[ast.AST] = []
            if n.kind == "stmt" and isinstance(a, ast.Assign):
                tg = list(a.targets)
            elif n.kind == "stmt" and isinstance(a, (ast.AugAssign, ast.AnnAssign)) and getattr(a, "value", None) is not None:
                tg = [a.target]
            elif n.kind == "iter":
                tg = [a.target]
            elif n.kind == "with":
                tg = [i.optional_vars for i in a.items if i.optional_vars is not None]
            elif n.kind == "handler" and a.name:
                stores.setdefault(a.name, []).append(n)
            elif n.kind == "stmt" and isinstance(a, (ast.Import, ast.ImportFrom)):
                for al in a.names:
                    stores.setdefault((al.asname or al.name).split(".")[0], []).append(n)
            elif n.kind == "stmt" and isinstance(a, (ast.FunctionDef, ast.ClassDef)):
                stores.setdefault(a.name, []).append(n)
            for t in tg:
                for x in ast.walk(t):
                    if isinstance(x, ast.Name) and isinstance(x.ctx, ast.Store):
                        stores.setdefault(x.id, []).append(n)
        for n in cfg.stmt_nodes():
            a = n.ast
            if a is None or n.kind == "handler":
                continue
            exprs = [a]
            if n.kind == "iter":
                exprs = [a.iter]
            elif n.kind == "with":
                exprs = [i.context_expr for i in a.items]
            elif n.kind == "stmt" and isinstance(a, (ast.FunctionDef, ast.ClassDef)):
                continue
            for e in exprs:
                comp_targets = {x.id for c in ast.walk(e) if isinstance(c, ast.comprehension) for x in ast.walk(c.target) if isinstance(x, ast.Name)}
                lam = {a2.arg for l in ast.walk(e) if isinstance(l, ast.Lambda) for a2 in l.args.args}
                for x in ast.walk(e):
                    if isinstance(x, ast.Name) and isinstance(x.ctx, ast.Load) and x.id in stores and x.id not in params and x.id not in comp_targets and x.id not in lam:
                        defs = [d for d in stores[x.id] if d is not n or n.kind == "iter"]
                        if cfg.reaches(cfg.entry, n, avoid=[d for d in stores[x.id] if d is not n]) or (not defs):
                            # is the use itself in a node that also stores it (x = x + 1)? then avoid set excluded it: check strictly
                            out.append(f"G1 {f.qname}:{x.lineno} `{x.id}` may be unbound in `{norm(a)[:70]}`")
    return sorted(set(out))


def g2_unused_params(prog: Program) -> List[str]:
    out = []
    for f in prog.all_funcs:
        if "abstractmethod" in f.decorators() or f.name.startswith("__") or len(f.node.body) <= 1 and isinstance(f.node.body[0], (ast.Pass, ast.Expr, ast.Return)):
            continue
        used = {n.id for n in walk(f.node) if isinstance(n, ast.Name) and isinstance(n.ctx, ast.Load)}
        for p in f.params[1:] if f.cls and not f.is_static else f.params:
            if p not in used and not p.startswith("_"):
                out.append(f"G2 {f.qname}:{f.lineno} parameter `{p}` is never read")
    return out


def g4_none_contradiction(prog: Program) -> List[str]:
    out = []
    for f in prog.all_funcs:
        tested: Set[str] = set()
        for n in walk(f.node):
            t = q.is_none_test(n) if isinstance(n, ast.Compare) else None
            if t is not None and isinstance(t[0], (ast.Attribute, ast.Name)):
                tested.add(norm(t[0]))
        if not tested:
            continue
        for n in walk(f.node):
            if isinstance(n, ast.Attribute) and isinstance(n.ctx, ast.Load) and norm(n.value) in tested and not isinstance(n.value, ast.Name):
                try:
                    facts = q.facts_at(f, n)
                except Exception:
                    continue
                if not q.known_not_none(facts, n.value):
                    out.append(f"G4 {f.qname}:{n.lineno} `{norm(n.value)}` is compared with None in this function but dereferenced unguarded in `{norm(n)[:60]}`")
    return sorted(set(out))


def g5_nullable_fields(prog: Program) -> List[str]:
    """fields that a class initialises to None (`self.x = None` / `self.x: Optional[..] = None` in __init__) and that some function of
    the package dereferences (subscript, iteration, attribute/method access, arithmetic, len) without a dominating not-None fact."""
    nullable: Dict[str, Set[str]] = {}
    for mod in prog.modules.values():
        for cls in mod.classes.values():
            init = cls.methods.get("__init__")
            if init is None:
                continue
            for n in walk(init.node):
                if isinstance(n, (ast.Assign, ast.AnnAssign)) and n.value is not None and isinstance(n.value, ast.Constant) and n.value.value is None:
                    for t in (n.targets if isinstance(n, ast.Assign) else [n.target]):
                        if isinstance(t, ast.Attribute) and isinstance(t.value, ast.Name) and t.value.id == "self":
                            nullable.setdefault(t.attr, set()).add(cls.name)
    out = []
    for f in prog.all_funcs:
        pm = None
        for n in walk(f.node):
            if not (isinstance(n, ast.Attribute) and isinstance(n.ctx, ast.Load) and n.attr in nullable):
                continue
            if pm is None:
                from .model import parent_map
                pm = parent_map(f.node)
            par = pm.get(n)
            deref = None
            if isinstance(par, ast.Subscript) and par.value is n:
                deref = "subscript"
            elif isinstance(par, ast.Attribute) and par.value is n:
                deref = "attribute"
            elif isinstance(par, (ast.For, ast.comprehension)) and par.iter is n:
                deref = "iteration"
            elif isinstance(par, ast.BinOp):
                deref = "arithmetic"
            elif isinstance(par, ast.Call) and n in par.args and isinstance(par.func, ast.Name) and par.func.id in ("len", "sum", "max", "min", "sorted", "enumerate", "zip"):
                deref = par.func.id
            if deref is None:
                continue
            try:
                facts = q.facts_at(f, n)
            except Exception:
                continue
            if q.known_not_none(facts, n):
                continue
            # assigned a non-None value earlier in the same function on every path?  (cheap: any assignment in the function)
            assigned_here = any(isinstance(a, (ast.Assign, ast.AnnAssign)) and any(isinstance(t, ast.Attribute) and norm(t) == norm(n) for t in (a.targets if isinstance(a, ast.Assign) else [a.target]))
                                for a in walk(f.node))
            if assigned_here:
                continue
            out.append(f"G5 {f.qname}:{n.lineno} `{norm(n)}` ({'/'.join(sorted(nullable[n.attr]))}.{n.attr} starts as None) {deref} without a not-None guard: `{norm(par)[:70]}`")
    return sorted(set(out))


def run(repo: str = "/repo") -> int:
    prog = Program(repo)
    for name, fn in (("G1", g1_unbound), ("G2", g2_unused_params), ("G4", g4_none_contradiction), ("G5", g5_nullable_fields)):
        res = fn(prog)
        print(f"== {name}: {len(res)} candidates")
        for r in res:
            print("  " + r)
    return 0
