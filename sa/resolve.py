"""Type inference from the code's own declarations + call graph.

Types are frozensets of atoms:
  ("cls", Name)            instance of package class Name
  ("type", Name)           the package class object itself
  ("ext", dotted)          instance of an external (stdlib / third party) type
  ("extmod", dotted)       an external module or external callable namespace
  ("list", T) / ("dict", T) container whose elements / values have type T (T a frozenset)
  ("func", qname)          a package function object
  ("none",)
An empty set means "unknown" (TOP).
"""
from __future__ import annotations

import ast
from dataclasses import dataclass, field
from typing import Dict, FrozenSet, Iterable, List, Optional, Set, Tuple

from .model import Program, Func, Cls, walk, dotted, unparse

T = FrozenSet[tuple]
TOP: T = frozenset()
NONE: T = frozenset({("none",)})

BUILTIN_EXT = {
    "BinaryIO": "typing.BinaryIO", "IO": "typing.IO", "str": "str", "bytes": "bytes", "int": "int", "bool": "bool",
    "bytearray": "bytearray", "float": "float", "memoryview": "memoryview", "Any": None, "object": None,
}


BUILTIN_METHOD_NAMES = {
    "append", "extend", "insert", "pop", "get", "update", "items", "keys", "values", "count", "index", "remove", "clear",
    "copy", "sort", "join", "format", "encode", "decode", "startswith", "endswith", "strip", "lstrip", "rstrip", "split",
    "replace", "lower", "upper", "read", "write", "seek", "tell", "close", "flush", "open", "add", "put", "put_nowait",
    "start", "empty", "exists", "mkdir", "stat", "is_dir", "is_file", "is_symlink", "rjust", "isdecimal", "to_bytes",
    "with_traceback", "task_done", "digest", "hexdigest", "setdefault", "discard", "readline", "getvalue", "getbuffer",
    "truncate", "touch", "unlink", "chmod", "size", "compress", "decompress",
}
PATHLIB_T = {"pathlib.Path", "pathlib.PosixPath", "pathlib.WindowsPath", "pathlib.PurePath"}


def ext(name: str) -> T:
    return frozenset({("ext", name)})


def cls_t(name: str) -> T:
    return frozenset({("cls", name)})


@dataclass
class CallSite:
    caller: Func
    node: ast.Call
    targets: List[Func] = field(default_factory=list)  # package functions
    external: Optional[str] = None  # dotted external name (best effort) or attribute name
    kind: str = "unresolved"  # exact | unique | ambiguous | external | unresolved
    recv: T = TOP

    @property
    def attr(self) -> str:
        f = self.node.func
        return f.attr if isinstance(f, ast.Attribute) else (f.id if isinstance(f, ast.Name) else "")


class Resolver:
    def __init__(self, prog: Program):
        self.prog = prog
        self._attr_types: Dict[Tuple[str, str], T] = {}
        self._ret_busy: Set[str] = set()
        self._ret_memo: Dict[str, T] = {}
        self._env_memo: Dict[str, Dict[str, T]] = {}
        self._env_busy: Set[str] = set()
        self.param_types: Dict[str, Dict[str, T]] = {}
        self._collect_attr_types()
        self.sites: List[CallSite] = []
        self.by_caller: Dict[str, List[CallSite]] = {}
        self.value_edges: Dict[str, List[Func]] = {}  # functions passed as values (thread targets, callbacks)
        self._build()

    # ------------------------------------------------------------------ annotations -> types
    def ann_type(self, a: Optional[ast.AST], module: str) -> T:
        if a is None:
            return TOP
        if isinstance(a, ast.Constant) and isinstance(a.value, str):
            try:
                return self.ann_type(ast.parse(a.value, mode="eval").body, module)
            except SyntaxError:
                return TOP
        if isinstance(a, ast.Constant) and a.value is None:
            return NONE
        if isinstance(a, ast.Name):
            if a.id in self.prog.all_classes:
                return cls_t(a.id)
            if a.id in BUILTIN_EXT:
                return ext(BUILTIN_EXT[a.id]) if BUILTIN_EXT[a.id] else TOP
            tgt = self.prog.module(module).imports.get(a.id)
            if tgt:
                return ext(tgt.lstrip("."))
            return TOP
        if isinstance(a, ast.Attribute):
            d = dotted(a)
            last = d.split(".")[-1]
            if last in self.prog.all_classes and d.startswith("py7zr"):
                return cls_t(last)
            return ext(d)
        if isinstance(a, ast.Subscript):
            head = dotted(a.value).split(".")[-1]
            sl = a.slice
            elts = list(sl.elts) if isinstance(sl, ast.Tuple) else [sl]
            if head in ("Optional",):
                return self.ann_type(elts[0], module) | NONE
            if head in ("Union",):
                out: Set[tuple] = set()
                for x in elts:
                    out |= self.ann_type(x, module)
                return frozenset(out)
            if head in ("list", "List", "Sequence", "Iterable", "Collection", "set", "Set", "tuple", "Tuple", "Iterator"):
                inner = self.ann_type(elts[0], module) if elts else TOP
                return frozenset({("list", inner)})
            if head in ("dict", "Dict", "Mapping"):
                inner = self.ann_type(elts[-1], module) if elts else TOP
                return frozenset({("dict", inner)})
            if head in ("type", "Type"):
                inner = self.ann_type(elts[0], module)
                return frozenset({("type", t[1]) for t in inner if t[0] == "cls"})
            if head in ("IO",):
                return ext("typing.IO")
            if head in ("Queue",):
                return ext("queue.Queue")
            return self.ann_type(a.value, module)
        if isinstance(a, ast.BinOp) and isinstance(a.op, ast.BitOr):
            return self.ann_type(a.left, module) | self.ann_type(a.right, module)
        return TOP

    # ------------------------------------------------------------------ attribute types of classes
    def _collect_attr_types(self, passes: int = 3) -> None:
        # several passes so that attribute types that depend on other attribute types settle
        for _ in range(passes):
            for f in self.prog.all_funcs:
                if not f.cls or f.outer is not None:
                    continue
                selfname = f.params[0] if f.params and not f.is_static else None
                if selfname is None:
                    continue
                env = None
                for n in walk(f.node):
                    tgt = val = ann = None
                    if isinstance(n, ast.Assign):
                        for t in n.targets:
                            if _is_self_attr(t, selfname):
                                tgt, val = t, n.value
                    elif isinstance(n, ast.AnnAssign) and _is_self_attr(n.target, selfname):
                        tgt, val, ann = n.target, n.value, n.annotation
                    if tgt is None:
                        continue
                    ty: T = TOP
                    if ann is not None:
                        ty = self.ann_type(ann, f.module)
                    if not ty and val is not None:
                        if env is None:
                            env = self.env_of(f)
                        ty = self.infer(val, f, env)
                    if ty:
                        key = (f.cls, tgt.attr)
                        self._attr_types[key] = self._attr_types.get(key, TOP) | ty
            self._env_memo.clear()
            self._ret_memo.clear()
        # class-level annotated attributes
        for c in self.prog.all_classes.values():
            for st in c.node.body:
                if isinstance(st, ast.AnnAssign) and isinstance(st.target, ast.Name):
                    ty = self.ann_type(st.annotation, c.module)
                    if ty:
                        key = (c.name, st.target.id)
                        self._attr_types[key] = self._attr_types.get(key, TOP) | ty

    def attr_type(self, clsname: str, attr: str) -> T:
        if clsname not in self.prog.all_classes:
            return TOP
        out: Set[tuple] = set()
        c = self.prog.all_classes[clsname]
        for k in self.prog.mro(c):
            ty = self._attr_types.get((k.name, attr))
            if ty:
                out |= ty
            m = k.methods.get(attr)
            if m is not None:
                if m.is_property:
                    out |= self.return_type(m, clsname)
                else:
                    out.add(("func", m.qname))
                break
        return frozenset(out)

    # ------------------------------------------------------------------ function environments
    def env_of(self, f: Func) -> Dict[str, T]:
        q = f.qname
        if q in self._env_memo:
            return self._env_memo[q]
        if q in self._env_busy:
            return {}
        self._env_busy.add(q)
        env: Dict[str, T] = {}
        if f.outer is not None:
            env.update(self.env_of(f.outer))
        a = f.node.args
        allargs = a.posonlyargs + a.args + a.kwonlyargs
        for i, p in enumerate(allargs):
            ty = self.ann_type(p.annotation, f.module)
            if i == 0 and f.cls and not f.is_static and f.outer is None:
                ty = frozenset({("type", f.cls)}) if f.is_classmethod else cls_t(f.cls)
            elif not (ty - NONE):
                ty = ty | self.param_types.get(q, {}).get(p.arg, TOP)
            env[p.arg] = ty
        # defaults
        pos = a.posonlyargs + a.args
        for p, d in list(zip(pos[len(pos) - len(a.defaults):], a.defaults)) + [
            (p, d) for p, d in zip(a.kwonlyargs, a.kw_defaults) if d is not None
        ]:
            if not (env.get(p.arg, TOP) - NONE) and not (isinstance(d, ast.Constant)):
                env[p.arg] = env.get(p.arg, TOP) | self.infer(d, f, env)
        # flow-insensitive local typing, iterated to a small fixpoint
        for _ in range(3):
            changed = False
            for n in walk(f.node):
                binds: List[Tuple[ast.AST, T]] = []
                if isinstance(n, ast.Assign):
                    ty = self.infer(n.value, f, env)
                    for t in n.targets:
                        binds += self._bind_target(t, ty)
                elif isinstance(n, ast.AnnAssign) and isinstance(n.target, ast.Name):
                    ty = self.ann_type(n.annotation, f.module) or (self.infer(n.value, f, env) if n.value else TOP)
                    binds.append((n.target, ty))
                elif isinstance(n, (ast.For, ast.comprehension)):
                    ty = self.elem_type(self.infer(n.iter, f, env))
                    it = n.iter
                    if isinstance(it, ast.Call) and isinstance(it.func, ast.Name) and it.func.id == "enumerate" and it.args:
                        inner = self.elem_type(self.infer(it.args[0], f, env))
                        if isinstance(n.target, ast.Tuple) and len(n.target.elts) == 2:
                            binds.append((n.target.elts[0], ext("int")))
                            binds += self._bind_target(n.target.elts[1], inner)
                    else:
                        binds += self._bind_target(n.target, ty)
                elif isinstance(n, (ast.With, ast.AsyncWith)):
                    for item in n.items:
                        if item.optional_vars is not None:
                            ty = self.enter_type(self.infer(item.context_expr, f, env))
                            binds += self._bind_target(item.optional_vars, ty)
                elif isinstance(n, ast.ExceptHandler) and n.name:
                    binds.append((ast.Name(id=n.name), ext("Exception")))
                elif isinstance(n, ast.NamedExpr):
                    binds.append((n.target, self.infer(n.value, f, env)))
                for t, ty in binds:
                    if isinstance(t, ast.Name) and ty:
                        old = env.get(t.id, TOP)
                        new = old | ty
                        if new != old:
                            env[t.id] = new
                            changed = True
            if not changed:
                break
        self._env_busy.discard(q)
        self._env_memo[q] = env
        return env

    def _bind_target(self, t: ast.AST, ty: T) -> List[Tuple[ast.AST, T]]:
        if isinstance(t, ast.Name):
            return [(t, ty)]
        if isinstance(t, (ast.Tuple, ast.List)):
            return [(e, TOP) for e in t.elts if isinstance(e, ast.Name)]
        return []

    def elem_type(self, ty: T) -> T:
        out: Set[tuple] = set()
        for t in ty:
            if t[0] in ("list", "dict"):
                out |= t[1]
            elif t[0] == "cls":
                c = self.prog.all_classes.get(t[1])
                if c is None:
                    continue
                it = self.prog.method(c, "__iter__")
                if it is not None:
                    itty = self.return_type(it, t[1])
                    for u in itty:
                        if u[0] == "cls":
                            nx = self.prog.method(self.prog.all_classes[u[1]], "__next__")
                            if nx is not None:
                                out |= self.return_type(nx, u[1])
                else:
                    gi = self.prog.method(c, "__getitem__")
                    if gi is not None:
                        out |= self.return_type(gi, t[1])
        return frozenset(out)

    def item_type(self, ty: T) -> T:
        out: Set[tuple] = set()
        for t in ty:
            if t[0] in ("list", "dict"):
                out |= t[1]
            elif t[0] == "cls":
                c = self.prog.all_classes.get(t[1])
                gi = self.prog.method(c, "__getitem__") if c else None
                if gi is not None:
                    out |= self.return_type(gi, t[1])
        return frozenset(out)

    def enter_type(self, ty: T) -> T:
        out: Set[tuple] = set()
        for t in ty:
            if t[0] == "cls":
                c = self.prog.all_classes.get(t[1])
                en = self.prog.method(c, "__enter__") if c else None
                if en is not None:
                    out |= self.return_type(en, t[1]) or frozenset({t})
                else:
                    out.add(t)
            else:
                out.add(t)
        return frozenset(out)

    # ------------------------------------------------------------------ return types
    def return_type(self, f: Func, recv_cls: Optional[str] = None) -> T:
        key = f.qname + "|" + (recv_cls or "")
        if key in self._ret_memo:
            return self._ret_memo[key]
        if key in self._ret_busy:
            return TOP
        self._ret_busy.add(key)
        ty = self.ann_type(f.node.returns, f.module)
        # strings like "ArchiveFileListIterator" handled by ann_type
        if not ty or ty == NONE:
            env = dict(self.env_of(f))
            if recv_cls and f.cls and f.params and not f.is_static:
                env[f.params[0]] = frozenset({("type", recv_cls)}) if f.is_classmethod else cls_t(recv_cls)
                # re-type locals that were created from cls()
                for n in walk(f.node):
                    if isinstance(n, ast.Assign) and len(n.targets) == 1 and isinstance(n.targets[0], ast.Name):
                        env[n.targets[0].id] = self.infer(n.value, f, env) or env.get(n.targets[0].id, TOP)
            out: Set[tuple] = set()
            for n in walk(f.node):
                if isinstance(n, ast.Return) and n.value is not None:
                    out |= self.infer(n.value, f, env)
            ty = frozenset(out) or ty
        self._ret_busy.discard(key)
        self._ret_memo[key] = ty
        return ty

    # ------------------------------------------------------------------ expression types
    def infer(self, e: ast.AST, f: Func, env: Optional[Dict[str, T]] = None) -> T:
        if env is None:
            env = self.env_of(f)
        mod = self.prog.module(f.module)
        if isinstance(e, ast.Constant):
            if e.value is None:
                return NONE
            return ext(type(e.value).__name__)
        if isinstance(e, ast.Name):
            if e.id in env and env[e.id]:
                return env[e.id]
            if e.id in env:
                return TOP
            if e.id in mod.classes or (e.id in self.prog.all_classes and e.id in mod.imports):
                return frozenset({("type", e.id)})
            if e.id in mod.funcs:
                return frozenset({("func", mod.funcs[e.id].qname)})
            if e.id in mod.imports:
                raw = mod.imports[e.id]
                tgt = raw.lstrip(".")
                parts = tgt.split(".")
                if raw.startswith(".") and parts[0] != "py7zr":
                    parts = ["py7zr"] + parts
                if parts[0] == "py7zr":
                    last = parts[-1]
                    if last in self.prog.all_classes:
                        return frozenset({("type", last)})
                    srcmod = parts[-2] if len(parts) >= 2 else None
                    if srcmod in self.prog.modules and last in self.prog.modules[srcmod].funcs:
                        return frozenset({("func", self.prog.modules[srcmod].funcs[last].qname)})
                    if last in self.prog.modules and len(parts) <= 2:
                        return frozenset({("pkgmod", last)})
                    if len(parts) == 1:
                        return frozenset({("pkgmod", "__init__")})
                    # module-level instance (PROPERTY, DEFAULT_FILTERS) or constant
                    if srcmod in self.prog.modules:
                        return self._module_var_type(srcmod, last)
                    return TOP
                return frozenset({("extmod", tgt)})
            # module-level variable of this module
            return self._module_var_type(f.module, e.id)
        if isinstance(e, ast.Attribute):
            base = self.infer(e.value, f, env)
            out: Set[tuple] = set()
            for t in base:
                if t[0] == "cls":
                    out |= self.attr_type(t[1], e.attr)
                elif t[0] == "type":
                    c = self.prog.all_classes.get(t[1])
                    m = self.prog.method(c, e.attr) if c else None
                    if m is not None:
                        out.add(("func", m.qname))
                    elif c is not None and e.attr in self.prog.all_classes and self.prog.all_classes[e.attr].outer == t[1]:
                        out.add(("type", e.attr))
                elif t[0] == "extmod":
                    out.add(("extmod", t[1] + "." + e.attr))
                elif t[0] == "pkgmod":
                    m2 = self.prog.modules[t[1]]
                    if e.attr in m2.classes:
                        out.add(("type", e.attr))
                    elif e.attr in m2.funcs:
                        out.add(("func", m2.funcs[e.attr].qname))
                    elif e.attr in self.prog.modules:
                        out.add(("pkgmod", e.attr))
                    elif e.attr in self.prog.all_classes:  # re-exported via __init__
                        out.add(("type", e.attr))
                    else:
                        for mm in self.prog.modules.values():
                            if e.attr in mm.funcs:
                                out.add(("func", mm.funcs[e.attr].qname))
                elif t[0] == "ext":
                    if t[1] in PATHLIB_T and e.attr in ("parent",):
                        out.add(("ext", "pathlib.Path"))
                    else:
                        out.add(("extattr", t[1] + "." + e.attr))
                elif t[0] == "extattr":
                    out.add(("extattr", t[1] + "." + e.attr))
            return frozenset(out)
        if isinstance(e, ast.Call):
            return self._call_type(e, f, env)
        if isinstance(e, ast.Subscript):
            return self.item_type(self.infer(e.value, f, env)) if not isinstance(e.slice, ast.Slice) else self.infer(e.value, f, env)
        if isinstance(e, (ast.List, ast.Tuple, ast.Set)):
            inner: Set[tuple] = set()
            for x in e.elts:
                inner |= self.infer(x, f, env)
            return frozenset({("list", frozenset(inner))})
        if isinstance(e, ast.ListComp):
            env2 = dict(env)
            for g in e.generators:
                ty = self.elem_type(self.infer(g.iter, f, env2))
                for t, tt in self._bind_target(g.target, ty):
                    if isinstance(t, ast.Name):
                        env2[t.id] = tt
            return frozenset({("list", self.infer(e.elt, f, env2))})
        if isinstance(e, ast.Dict):
            inner = set()
            for v in e.values:
                if v is not None:
                    inner |= self.infer(v, f, env)
            return frozenset({("dict", frozenset(inner))})
        if isinstance(e, ast.IfExp):
            return self.infer(e.body, f, env) | self.infer(e.orelse, f, env)
        if isinstance(e, ast.BoolOp):
            out = set()
            for v in e.values:
                out |= self.infer(v, f, env)
            return frozenset(out)
        if isinstance(e, ast.BinOp):
            l = self.infer(e.left, f, env)
            return l if any(t[0] == "ext" for t in l) else TOP
        if isinstance(e, ast.JoinedStr):
            return ext("str")
        if isinstance(e, ast.NamedExpr):
            return self.infer(e.value, f, env)
        return TOP

    def _module_var_type(self, module: str, name: str) -> T:
        m = self.prog.modules.get(module)
        if m is None:
            return TOP
        # alias of a module-level function, possibly bound under a platform `if`
        alias: Set[tuple] = set()
        for st in _module_level_stmts(m.tree.body):
            if isinstance(st, ast.Assign) and len(st.targets) == 1 and isinstance(st.targets[0], ast.Name) \
                    and st.targets[0].id == name and isinstance(st.value, ast.Name) and st.value.id in m.funcs:
                alias.add(("func", m.funcs[st.value.id].qname))
        if alias:
            return frozenset(alias)
        for st in m.tree.body:
            if isinstance(st, ast.Assign) and len(st.targets) == 1 and isinstance(st.targets[0], ast.Name) and st.targets[0].id == name:
                v = st.value
                if isinstance(v, ast.Call) and isinstance(v.func, ast.Name) and v.func.id in m.classes:
                    return cls_t(v.func.id)
            if isinstance(st, ast.AnnAssign) and isinstance(st.target, ast.Name) and st.target.id == name:
                return self.ann_type(st.annotation, module)
        return TOP

    def _call_type(self, e: ast.Call, f: Func, env: Dict[str, T]) -> T:
        fn = e.func
        if isinstance(fn, ast.Name):
            if fn.id in ("open",) and fn.id not in env:
                return ext("io.BufferedIOBase")
            if fn.id in ("getattr",) and len(e.args) >= 2 and isinstance(e.args[1], ast.Constant):
                fake = ast.Attribute(value=e.args[0], attr=e.args[1].value, ctx=ast.Load())
                return self.infer(fake, f, env)
            if fn.id == "super" and f.cls:
                c = self.prog.all_classes.get(f.cls)
                out = set()
                for k in self.prog.mro(c)[1:]:
                    out.add(("cls", k.name))
                    break
                return frozenset(out) or ext("super")
            if fn.id in ("list", "sorted", "set", "reversed", "tuple") and e.args:
                inner = self.elem_type(self.infer(e.args[0], f, env))
                return frozenset({("list", inner)})
            if fn.id in ("str", "int", "len", "bytes", "bytearray", "bool", "float"):
                return ext(fn.id)
        if isinstance(fn, ast.Attribute) and fn.attr in ("split", "rsplit", "splitlines") and not self.prog.methods_named(fn.attr):
            # no class of the package has such a method: the text methods of str/bytes, which answer with a list of pieces
            return frozenset({("list", ext("str"))})
        callee = self.infer(fn, f, env)
        out: Set[tuple] = set()
        for t in callee:
            if t[0] == "type":
                out.add(("cls", t[1]))
            elif t[0] == "func":
                g = self._func_by_q(t[1])
                if g is not None:
                    recv = None
                    if isinstance(fn, ast.Attribute):
                        for b in self.infer(fn.value, f, env):
                            if b[0] in ("cls", "type"):
                                recv = b[1]
                    out |= self.return_type(g, recv)
            elif t[0] == "extmod":
                out.add(("ext", t[1]))  # calling an external class/function: instance named by its dotted path
            elif t[0] == "extattr":
                # method call on an external object: a few shapes we care about
                name = t[1]
                if name.endswith(".open"):
                    out.add(("ext", "io.BufferedIOBase"))
                elif name.startswith("pathlib.") and name.split(".")[-1] in ("joinpath", "resolve", "absolute", "with_name", "cwd", "relative_to", "readlink"):
                    out.add(("ext", "pathlib.Path"))
        # dict.get on typed dict
        if isinstance(fn, ast.Attribute) and fn.attr in ("get", "pop", "setdefault"):
            base = self.infer(fn.value, f, env)
            for b in base:
                if b[0] == "dict":
                    out |= b[1]
                    if fn.attr == "get":
                        out |= NONE
        return frozenset(out)

    def _func_by_q(self, q: str) -> Optional[Func]:
        if not hasattr(self, "_qidx"):
            self._qidx = {g.qname: g for g in self.prog.all_funcs}
        return self._qidx.get(q)

    # ------------------------------------------------------------------ call graph
    COMMON_EXT_METHODS = {
        # method names that exist on stdlib objects the package handles all the time; an unknown receiver with one of
        # these names is resolved to package methods of that name only when the receiver type is unknown.
    }

    def _build(self) -> None:
        for round_ in range(4):
            self.sites = []
            self.by_caller = {}
            self.value_edges = {}
            for f in self.prog.all_funcs:
                env = self.env_of(f)
                sites = []
                for n in walk(f.node):
                    if isinstance(n, ast.Call):
                        sites.append(self._resolve_call(n, f, env))
                        self._value_edges(n, f, env)
                self.by_caller[f.qname] = sites
                self.sites += sites
            if not self._propagate_params():
                break
            self._env_memo.clear()
            self._ret_memo.clear()
            if hasattr(self, "_prop_memo"):
                self._prop_memo.clear()
            self._attr_types_refresh()

    def _attr_types_refresh(self) -> None:
        self._collect_attr_types(passes=1)

    def _propagate_params(self) -> bool:
        changed = False
        for cs in self.sites:
            if cs.kind not in ("exact", "unique"):
                continue
            env = self.env_of(cs.caller)
            for g in cs.targets:
                a = g.node.args
                params = [x.arg for x in a.posonlyargs + a.args]
                bound = params
                is_ctor = g.name == "__init__" and not (isinstance(cs.node.func, ast.Attribute) and cs.node.func.attr == "__init__")
                if g.cls and not g.is_static and g.outer is None:
                    # bound call: self/cls is implicit unless called through the class object (C.method(obj, ...))
                    recv_is_class = False
                    if isinstance(cs.node.func, ast.Attribute) and not is_ctor:
                        recv_is_class = any(t[0] == "type" for t in cs.recv) and not g.is_classmethod
                    if not recv_is_class:
                        bound = params[1:]
                slot = self.param_types.setdefault(g.qname, {})
                for i, arg in enumerate(cs.node.args):
                    if isinstance(arg, ast.Starred) or i >= len(bound):
                        break
                    ty = self.infer(arg, cs.caller, env)
                    if ty and not ty <= slot.get(bound[i], TOP):
                        slot[bound[i]] = slot.get(bound[i], TOP) | ty
                        changed = True
                kwnames = set(params) | {x.arg for x in a.kwonlyargs}
                for k in cs.node.keywords:
                    if k.arg and k.arg in kwnames:
                        ty = self.infer(k.value, cs.caller, env)
                        if ty and not ty <= slot.get(k.arg, TOP):
                            slot[k.arg] = slot.get(k.arg, TOP) | ty
                            changed = True
        # thread / process targets: target=<func>, args=(...)
        for f in self.prog.all_funcs:
            env = None
            for n in walk(f.node):
                if not isinstance(n, ast.Call):
                    continue
                tgt = next((k.value for k in n.keywords if k.arg == "target"), None)
                args = next((k.value for k in n.keywords if k.arg == "args"), None)
                if tgt is None or not isinstance(args, ast.Tuple):
                    continue
                env = env or self.env_of(f)
                for t in self.infer(tgt, f, env):
                    if t[0] != "func":
                        continue
                    g = self._func_by_q(t[1])
                    if g is None:
                        continue
                    a = g.node.args
                    params = [x.arg for x in a.posonlyargs + a.args]
                    if g.cls and not g.is_static:
                        params = params[1:]
                    slot = self.param_types.setdefault(g.qname, {})
                    for i, arg in enumerate(args.elts):
                        if i >= len(params):
                            break
                        ty = self.infer(arg, f, env)
                        if ty and not ty <= slot.get(params[i], TOP):
                            slot[params[i]] = slot.get(params[i], TOP) | ty
                            changed = True
        return changed

    def _value_edges(self, n: ast.Call, f: Func, env) -> None:
        vals = list(n.args) + [k.value for k in n.keywords]
        for v in vals:
            if isinstance(v, (ast.Attribute, ast.Name)):
                ty = self.infer(v, f, env)
                for t in ty:
                    if t[0] == "func":
                        g = self._func_by_q(t[1])
                        if g is not None and not (isinstance(v, ast.Name) and v.id in f.params):
                            self.value_edges.setdefault(f.qname, []).append(g)

    def _resolve_call(self, n: ast.Call, f: Func, env) -> CallSite:
        cs = CallSite(f, n)
        fn = n.func
        callee = self.infer(fn, f, env)
        targets: List[Func] = []
        externals: List[str] = []
        for t in callee:
            if t[0] == "func":
                g = self._func_by_q(t[1])
                if g is not None:
                    targets.append(g)
                    # virtual dispatch: overriding methods in subclasses of the static receiver type
                    is_super = isinstance(fn, ast.Attribute) and isinstance(fn.value, ast.Call) and isinstance(fn.value.func, ast.Name) and fn.value.func.id == "super"
                    if g.cls and isinstance(fn, ast.Attribute) and not is_super:
                        for sub in self.prog.subclasses(self.prog.all_classes[g.cls]):
                            if g.name in sub.methods and sub.methods[g.name] not in targets:
                                targets.append(sub.methods[g.name])
            elif t[0] == "type":
                c = self.prog.all_classes[t[1]]
                init = self.prog.method(c, "__init__")
                if init is not None:
                    targets.append(init)
                else:
                    externals.append(f"{t[1]}()")
            elif t[0] in ("extmod", "extattr"):
                externals.append(t[1])
        if isinstance(fn, ast.Attribute):
            cs.recv = self.infer(fn.value, f, env)
        if not targets and not externals and isinstance(fn, ast.Subscript):
            tt, ee = self._table_call(fn, f)
            targets += tt
            externals += ee
        if targets:
            cs.targets = targets
            cs.kind = "exact"
            if externals:
                cs.external = externals[0]
            return cs
        if externals:
            cs.external = externals[0]
            cs.kind = "external"
            return cs
        # builtins
        if isinstance(fn, ast.Name):
            import builtins
            if hasattr(builtins, fn.id) and fn.id not in env:
                cs.external = fn.id
                cs.kind = "external"
                return cs
            # calling a parameter / local of unknown type
            cs.external = fn.id
            cs.kind = "unresolved"
            return cs
        if isinstance(fn, ast.Attribute):
            recv = cs.recv
            known_ext = recv and all(t[0] in ("ext", "list", "dict", "none", "extmod", "extattr") for t in recv)
            if known_ext:
                base = next((t[1] for t in recv if t[0] == "ext"), None)
                if base is None:
                    base = next((t[0] for t in recv), "?")
                cs.external = f"{base}.{fn.attr}" if isinstance(base, str) else fn.attr
                cs.kind = "external"
                return cs
            cands = self.prog.methods_named(fn.attr)
            if recv and any(t[0] == "cls" for t in recv):
                # receiver is a known package class that has no such method (dynamic attribute): nothing in the package
                cands = []
            if len(cands) == 1 and fn.attr not in BUILTIN_METHOD_NAMES:
                cs.targets = cands
                cs.kind = "unique"
                return cs
            if len(cands) >= 1:
                cs.targets = cands
                cs.kind = "ambiguous"
                cs.external = fn.attr
                return cs
            cs.external = fn.attr
            cs.kind = "external" if not recv else "external"
            return cs
        return cs

    def _table_call(self, fn: ast.Subscript, f: Func):
        """TABLE[key][i](...) where TABLE is a module-level dict of tuples of classes."""
        from .consteval import ConstEval, NotConst, ClassRef
        targets: List[Func] = []
        externals: List[str] = []
        inner = fn.value
        idx = fn.slice
        if not (isinstance(inner, ast.Subscript) and isinstance(inner.value, ast.Name) and isinstance(idx, ast.Constant)):
            return targets, externals
        if not hasattr(self, "_ce"):
            self._ce = ConstEval(self.prog)
        try:
            tbl = self._ce.module_const(f.module, inner.value.id)
        except (NotConst, Exception):
            return targets, externals
        if not isinstance(tbl, dict):
            return targets, externals
        for v in tbl.values():
            try:
                c = v[idx.value]
            except Exception:
                continue
            if isinstance(c, ClassRef) and not c.external and c.name in self.prog.all_classes:
                init = self.prog.method(self.prog.all_classes[c.name], "__init__")
                if init is not None:
                    targets.append(init)
                else:
                    externals.append(c.name + "()")
            elif isinstance(c, ClassRef):
                externals.append(c.name)
        return targets, externals

    # ------------------------------------------------------------------ closure
    def callees(self, f: Func, include_ambiguous: bool = True, include_values: bool = True) -> List[Func]:
        out: List[Func] = []
        for cs in self.by_caller.get(f.qname, []):
            if cs.kind == "ambiguous" and not include_ambiguous:
                continue
            out += cs.targets
        if include_values:
            out += self.value_edges.get(f.qname, [])
        # nested defs are reachable from their outer function (lambdas are walked in place)
        for g in self.prog.all_funcs:
            if g.outer is f:
                out.append(g)
        # properties accessed in f
        out += self._property_reads(f)
        return out

    def _property_reads(self, f: Func) -> List[Func]:
        if not hasattr(self, "_prop_memo"):
            self._prop_memo: Dict[str, List[Func]] = {}
        if f.qname in self._prop_memo:
            return self._prop_memo[f.qname]
        env = self.env_of(f)
        out: List[Func] = []
        for n in walk(f.node):
            if isinstance(n, ast.Attribute):
                cands = [m for m in self.prog.methods_named(n.attr) if m.is_property]
                if not cands:
                    continue
                base = self.infer(n.value, f, env)
                clsnames = {t[1] for t in base if t[0] == "cls"}
                if clsnames:
                    for cn in clsnames:
                        m = self.prog.method(self.prog.all_classes[cn], n.attr)
                        if m is not None and m.is_property and m not in out:
                            out.append(m)
                elif not base:
                    for m in cands:
                        if m not in out:
                            out.append(m)
        self._prop_memo[f.qname] = out
        return out

    def closure(self, roots: Iterable[Func], include_ambiguous: bool = True, stop: Iterable[str] = ()) -> Dict[str, Func]:
        seen: Dict[str, Func] = {}
        todo = list(roots)
        stopset = set(stop)
        while todo:
            g = todo.pop()
            if g.qname in seen or g.qname in stopset:
                continue
            seen[g.qname] = g
            todo += self.callees(g, include_ambiguous)
        return seen

    def call_path(self, roots: Iterable[Func], target_q: str, include_ambiguous: bool = True) -> List[str]:
        """one call path root -> ... -> target (qualified names), for reports."""
        prev: Dict[str, Optional[str]] = {}
        todo = []
        for r in roots:
            prev[r.qname] = None
            todo.append(r)
        while todo:
            g = todo.pop(0)
            if g.qname == target_q:
                path = []
                q: Optional[str] = g.qname
                while q is not None:
                    path.append(q)
                    q = prev[q]
                return list(reversed(path))
            for h in self.callees(g, include_ambiguous):
                if h.qname not in prev:
                    prev[h.qname] = g.qname
                    todo.append(h)
        return []

    def stats(self) -> Dict[str, int]:
        s = {"total": 0, "exact": 0, "unique": 0, "ambiguous": 0, "external": 0, "unresolved": 0}
        for cs in self.sites:
            s["total"] += 1
            s[cs.kind] += 1
        return s

    def sites_in(self, f: Func) -> List[CallSite]:
        return self.by_caller.get(f.qname, [])

    def site_of(self, f: Func, call: ast.Call) -> Optional[CallSite]:
        for cs in self.by_caller.get(f.qname, []):
            if cs.node is call:
                return cs
        return None


def _module_level_stmts(body):
    for st in body:
        yield st
        if isinstance(st, ast.If):
            yield from _module_level_stmts(st.body)
            yield from _module_level_stmts(st.orelse)
        elif isinstance(st, ast.Try):
            yield from _module_level_stmts(st.body)
            for h in st.handlers:
                yield from _module_level_stmts(h.body)
            yield from _module_level_stmts(st.orelse)


def _is_self_attr(t: ast.AST, selfname: str) -> bool:
    return isinstance(t, ast.Attribute) and isinstance(t.value, ast.Name) and t.value.id == selfname
