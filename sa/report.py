"""Run context: obligations, findings, known-findings matching, evidence and exit status."""
from __future__ import annotations

import ast
import json
import os
import time
from dataclasses import dataclass, field
from typing import Any, Dict, List, Optional

from .model import Program, Func, AnalysisError, norm, check_floors, PKG

VERIF = os.path.dirname(os.path.dirname(os.path.abspath(__file__)))
KNOWN_PATH = os.path.join(VERIF, "known_findings.json")


@dataclass
class Finding:
    rule: str
    func: str  # qualified function (or table) name
    construct: str  # normalised construct text
    message: str
    loc: str = ""
    path: List[str] = field(default_factory=list)  # entry point -> ... -> offending function
    extra: Dict[str, Any] = field(default_factory=dict)

    @property
    def key(self) -> str:
        return f"{self.rule}|{self.func}|{self.construct}"


class Ctx:
    def __init__(self, prop: str, tier: str = "quick", repo: str = "/repo", overrides: Optional[Dict[str, str]] = None,
                 quiet: bool = False, share: Optional["Ctx"] = None):
        self.prop = prop
        self.tier = tier
        self.repo = repo
        self.t0 = time.time()
        if share is not None:
            # several properties analysed on one parsed program (mutation sweep): the engines are read-only for the rules
            self.prog, self.unit_counts, self._res, self._ce = share.prog, share.unit_counts, share.res, share.ce
        else:
            self.prog = Program(repo, overrides)
            self.unit_counts = check_floors(self.prog)
            self._res = None
            self._ce = None
        self.obligations: List[Dict[str, Any]] = []
        self.findings: List[Finding] = []
        self.notes: List[str] = []
        self.assumptions: List[str] = []
        self.rules_run: Dict[str, Dict[str, int]] = {}
        self.quiet = quiet
        self.extra: Dict[str, Any] = {}

    # lazily built engines -------------------------------------------------
    @property
    def res(self):
        if self._res is None:
            from .resolve import Resolver
            self._res = Resolver(self.prog)
        return self._res

    @property
    def ce(self):
        if self._ce is None:
            from .consteval import ConstEval
            self._ce = ConstEval(self.prog)
        return self._ce

    # obligations ----------------------------------------------------------
    def _rule(self, rule: str) -> Dict[str, int]:
        return self.rules_run.setdefault(rule, {"sites": 0, "ok": 0, "violations": 0})

    def ok(self, rule: str, site: str, detail: str = "") -> None:
        r = self._rule(rule)
        r["sites"] += 1
        r["ok"] += 1
        self.obligations.append({"rule": rule, "site": site, "verdict": "holds", "detail": detail})

    def fail(self, rule: str, f, node: Optional[ast.AST], message: str, construct: Optional[str] = None,
             path: Optional[List[str]] = None, **extra) -> None:
        r = self._rule(rule)
        r["sites"] += 1
        r["violations"] += 1
        fq = f.qname if isinstance(f, Func) else str(f)
        mod = f.module if isinstance(f, Func) else (str(f).split(":")[0] if ":" in str(f) else "")
        loc = f"{PKG}/{mod}.py:{getattr(node, 'lineno', 0)}" if node is not None else f"{PKG}/{mod}.py"
        cons = construct if construct is not None else (norm(node) if node is not None else "")
        fd = Finding(rule, fq, cons, message, loc, path or [], extra)
        self.findings.append(fd)
        self.obligations.append({"rule": rule, "site": f"{fq} :: {cons}", "verdict": "violation", "detail": message})

    def check(self, cond: bool, rule: str, f, node, site: str, message: str, **kw) -> bool:
        if cond:
            self.ok(rule, site)
        else:
            self.fail(rule, f, node, message, **kw)
        return cond

    def need(self, cond: bool, what: str) -> None:
        if not cond:
            raise AnalysisError(what)

    def floor(self, rule: str, n: int, minimum: int, what: str) -> None:
        if n < minimum:
            raise AnalysisError(f"{rule}: only {n} {what} found, floor is {minimum}: anchor vanished or idiom not recognised")

    def note(self, s: str) -> None:
        self.notes.append(s)

    def assume(self, s: str) -> None:
        if s not in self.assumptions:
            self.assumptions.append(s)


def load_known() -> Dict[str, Any]:
    if not os.path.exists(KNOWN_PATH):
        return {"known": [], "fixed": []}
    with open(KNOWN_PATH) as fh:
        return json.load(fh)


def finish(ctx: Ctx, explanation: str, trusted: List[str], write_evidence: bool = True) -> int:
    known = load_known()
    known_idx = {(k["property"], k["key"]): k for k in known.get("known", [])}
    out_dir = os.path.join(VERIF, "out", ctx.prop)
    unknown: List[Finding] = []
    matched: List[Dict[str, Any]] = []
    seen_keys = set()
    for fd in ctx.findings:
        if fd.key in seen_keys:
            continue
        seen_keys.add(fd.key)
        k = known_idx.get((ctx.prop, fd.key))
        if k is not None:
            matched.append(k)
        else:
            unknown.append(fd)
    lines: List[str] = []
    for k in matched:
        lines.append(f"KNOWN-FINDING: property={ctx.prop} {k['what']}")
    replay_paths = []
    if unknown:
        os.makedirs(out_dir, exist_ok=True)
    counters: Dict[str, int] = {}
    for fd in unknown:
        counters[fd.rule] = counters.get(fd.rule, 0) + 1
        rp = os.path.join(out_dir, f"{fd.rule}-{counters[fd.rule]}.json")
        with open(rp, "w") as fh:
            json.dump({"property": ctx.prop, "rule": fd.rule, "key": fd.key, "function": fd.func, "construct": fd.construct,
                       "message": fd.message, "loc": fd.loc, "path": fd.path, "extra": fd.extra}, fh, indent=1, default=str)
        replay_paths.append(rp)
        lines.append(f"{fd.loc}: [{fd.rule}] {fd.func}: {fd.message}")
        lines.append(f"    construct: {fd.construct}")
        if fd.path:
            lines.append(f"    path: {' -> '.join(fd.path)}")
        lines.append(f"VIOLATION property={ctx.prop} replay={rp}")
    wall = time.time() - ctx.t0
    n_obl = len(ctx.obligations)
    n_ok = sum(1 for o in ctx.obligations if o["verdict"] == "holds")
    distinct = len({(o["rule"], o["site"]) for o in ctx.obligations})
    if write_evidence:
        samples = []
        per_rule_seen: Dict[str, int] = {}
        for o in ctx.obligations:
            if per_rule_seen.get(o["rule"], 0) < 3:
                per_rule_seen[o["rule"]] = per_rule_seen.get(o["rule"], 0) + 1
                samples.append(o)
        ev = {
            "property_id": ctx.prop,
            "tier": ctx.tier,
            "seed": int(os.environ.get("VERIF_SEED", "0") or 0),
            "level": "other",
            "coverage": {
                "explanation": explanation,
                "rule": "each obligation is one rule instantiated on one enumerated site (call, loop, comparison, table row, "
                        "function path) of the current /repo source; distinct = distinct (rule, site) pairs",
                "evaluations": max(n_obl, 1),
                "distinct_nontrivial": distinct,
                "obligations": n_obl,
                "discharged": n_ok,
                "violations_unknown": len(unknown),
                "known_findings_matched": len(matched),
                "rules": ctx.rules_run,
                "samples": samples[:40],
                "units_analysed": ctx.unit_counts,
                "callgraph": ctx._res.stats() if ctx._res is not None else None,
                "trusted_base": trusted,
                "notes": ctx.notes,
                "checker_cmd": f"./check {ctx.prop} --tier {ctx.tier}",
                **ctx.extra,
            },
            "assumptions": ctx.assumptions,
            "wall_s": round(wall, 3),
            "violations": len(unknown),
        }
        os.makedirs(os.path.join(VERIF, "evidence"), exist_ok=True)
        with open(os.path.join(VERIF, "evidence", f"{ctx.prop}.json"), "w") as fh:
            json.dump(ev, fh, indent=1, default=str)
    if not ctx.quiet:
        print(f"[{ctx.prop}] tier={ctx.tier} units={ctx.unit_counts['functions']} functions / {ctx.unit_counts['calls']} call sites; "
              f"obligations={n_obl} discharged={n_ok} known={len(matched)} new-violations={len(unknown)} wall={wall:.2f}s")
        for r, c in sorted(ctx.rules_run.items()):
            print(f"  {r}: sites={c['sites']} ok={c['ok']} violations={c['violations']}")
        for n in ctx.notes:
            print(f"  note: {n}")
        for ln in lines:
            print(ln)
    return 1 if unknown else 0
