"""Static analyser for the py7zr property checks (stdlib only; nothing of py7zr is imported or run)."""
