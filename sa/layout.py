"""Record layouts of the header sections, reader side against writer side (cross-check of sibling implementations).

For a section reader (`_read` and the private helpers of its class it delegates to) and the section writer (`write` and helpers) the
primitive operations on the header stream are collected per RECORD (the property id that introduces it) as a multiset of
(kind, in-loop?):  N = NUMBER (read_uint64 / write_uint64), Q = 8-byte LE, L = 4-byte LE, B = single byte, V = bit vector,
S = UTF-16 string, R = raw bytes, @X = delegation to section class X.  Statements in sequence ADD their multisets, the two arms of a
conditional are ALTERNATIVES (element-wise maximum), loops and comprehensions mark their content as repeated ('*').  A reader and a
writer of the same section must use the same primitives the same number of times for every record both know: a dropped read/write, a
changed width or a field moved into / out of a loop shows as a difference.  Nothing is executed; the comparison is on syntax only."""
from __future__ import annotations

import ast
from collections import Counter
from typing import Dict, List, Optional, Set, Tuple

from .model import attr_tail, norm, walk

READ_PRIMS = {"read_uint64": "N", "read_real_uint64": "Q", "read_uint32": "L", "read_byte": "B", "read_boolean": "V", "read_utf16": "S"}
WRITE_PRIMS = {"write_uint64": "N", "write_real_uint64": "Q", "write_uint32": "L", "write_boolean": "V", "write_utf16": "S", "write_bytes": "R"}

Rec = Dict[str, Counter]


def _prop(e: ast.AST) -> Optional[str]:
    return e.attr if isinstance(e, ast.Attribute) and isinstance(e.value, ast.Name) and e.value.id == "PROPERTY" else None


def _add(a: Rec, b: Rec) -> Rec:
    out = {k: Counter(v) for k, v in a.items()}
    for k, v in b.items():
        out.setdefault(k, Counter()).update(v)
    return out


def _alt(a: Rec, b: Rec) -> Rec:
    out: Rec = {}
    for k in set(a) | set(b):
        ca, cb = a.get(k, Counter()), b.get(k, Counter())
        out[k] = Counter({t: max(ca.get(t, 0), cb.get(t, 0)) for t in set(ca) | set(cb)})
    return out


def _loop(a: Rec) -> Rec:
    return {k: Counter({(t[0], "*"): n for t, n in _merge_depth(v).items()}) for k, v in a.items()}


def _merge_depth(c: Counter) -> Counter:
    out: Counter = Counter()
    for (kind, d), n in c.items():
        out[(kind, "*")] += n
    return out


def _flag(c: ast.Call, kw: str) -> str:
    """'1' when the bit vector carries the all-defined byte (third argument / keyword is the constant True), '0' when not, '?' otherwise"""
    v = next((k.value for k in c.keywords if k.arg == kw), c.args[2] if len(c.args) > 2 else None)
    if v is None:
        return "0"
    if isinstance(v, ast.Constant) and isinstance(v.value, bool):
        return "1" if v.value else "0"
    return "?"


class Extractor:
    def __init__(self, prog, cls_name: str, side: str):
        self.prog = prog
        self.cls = prog.cls(cls_name, "archiveinfo")
        self.side = side
        self.label = "HEAD"
        self.stack: Set[str] = set()
        self.idvars: Set[str] = set()
        self.param_props: Dict[str, str] = {}

    def one(self, kind: str) -> Rec:
        return {self.label: Counter({(kind, ""): 1})}

    def touch(self, label: str) -> Rec:
        return {label: Counter()}

    # ---------------------------------------------------------------- expressions
    def expr(self, e: Optional[ast.AST]) -> Rec:
        if e is None:
            return {}
        if isinstance(e, (ast.ListComp, ast.GeneratorExp, ast.SetComp, ast.DictComp)):
            r: Rec = {}
            for g in e.generators:
                r = _add(r, self.expr(g.iter))
            elts = [e.elt] if not isinstance(e, ast.DictComp) else [e.key, e.value]
            inner: Rec = {}
            for x in elts:
                inner = _add(inner, self.expr(x))
            return _add(r, _loop(inner))
        if isinstance(e, ast.IfExp):
            return _add(self.expr(e.test), _alt(self.expr(e.body), self.expr(e.orelse)))
        if isinstance(e, ast.Call):
            r = {}
            for a in e.args:
                r = _add(r, self.expr(a))
            for k in e.keywords:
                r = _add(r, self.expr(k.value))
            if isinstance(e.func, ast.Attribute):
                r = _add(r, self.expr(e.func.value))
            return _add(r, self.call(e))
        if isinstance(e, ast.Lambda):
            return {}
        r = {}
        for ch in ast.iter_child_nodes(e):
            if isinstance(ch, ast.expr):
                r = _add(r, self.expr(ch))
        return r

    def call(self, c: ast.Call) -> Rec:
        name = attr_tail(c) if isinstance(c.func, ast.Attribute) else (c.func.id if isinstance(c.func, ast.Name) else "")
        own = isinstance(c.func, ast.Attribute) and isinstance(c.func.value, ast.Name) and c.func.value.id == "self"
        if self.side == "read":
            if name == "read_boolean":
                return self.one("V" + _flag(c, "checkall"))  # with / without the leading all-defined byte: two different layouts
            if name in READ_PRIMS:
                return self.one(READ_PRIMS[name])
            if name == "read_crcs":
                return _loop(self.one("L"))
            if name == "read" and isinstance(c.func, ast.Attribute) and not isinstance(c.func.value, ast.Attribute):
                return self.one("R")
            if name == "retrieve" and isinstance(c.func, ast.Attribute) and isinstance(c.func.value, ast.Name):
                return self.one("@" + c.func.value.id.lower())
            if own and name.startswith(("_read", "_retrieve")):
                return self.inline(name)
            return {}
        if name == "write_boolean":
            return self.one("V" + _flag(c, "all_defined"))
        if name in WRITE_PRIMS:
            return self.one(WRITE_PRIMS[name])
        if name == "write_crcs":
            return _loop(self.one("L"))
        if name == "write_byte":
            p = _prop(c.args[1]) if len(c.args) > 1 else None
            if p is not None:
                self.label = p
                return self.touch(p)
            return self.one("B")
        if name == "write" and isinstance(c.func, ast.Attribute):
            recv = c.func.value
            p = _prop(c.args[0]) if c.args else None
            if p is not None:
                self.label = p
                return self.touch(p)
            if isinstance(recv, ast.Name) and recv.id in ("file", "fp"):
                return self.one("R")
            return self.one("@" + norm(recv).split(".")[-1].lower())
        if own and name.startswith("_write"):
            # the record id may travel as an argument (self._write_times(file, PROPERTY.X, key)): it becomes the label where the helper writes it
            m = self.cls.methods.get(name)
            binding = {}
            if m is not None:
                params = m.params[1:]
                for i, a in enumerate(c.args):
                    p = _prop(a)
                    if p is not None and i < len(params):
                        binding[params[i]] = p
            saved = self.param_props
            self.param_props = binding
            try:
                return self.inline(name, param_label=True)
            finally:
                self.param_props = saved
        return {}

    def inline(self, name: str, param_label: bool = False) -> Rec:
        m = self.cls.methods.get(name)
        if m is None or name in self.stack:
            return {}
        self.stack.add(name)
        try:
            return self.block(m.node.body, param_label)
        finally:
            self.stack.discard(name)

    # ---------------------------------------------------------------- statements
    def block(self, body: List[ast.stmt], param_label: bool = False) -> Rec:
        r: Rec = {}
        for st in body:
            r = _add(r, self.stmt(st, param_label))
        return r

    def stmt(self, st: ast.stmt, param_label: bool) -> Rec:
        if isinstance(st, (ast.FunctionDef, ast.ClassDef, ast.Assert)):
            return {}
        if isinstance(st, ast.Assign) and self.side == "read" and isinstance(st.value, ast.Call) and attr_tail(st.value) == "read" and st.value.args \
                and isinstance(st.value.args[0], ast.Constant) and st.value.args[0].value == 1 and all(isinstance(t, ast.Name) for t in st.targets):
            nm = st.targets[0].id
            return {} if nm in self.idvars else self.one("B")
        if isinstance(st, ast.If):
            lab = None
            t = st.test
            if self.side == "read" and isinstance(t, ast.Compare) and len(t.ops) == 1 and isinstance(t.ops[0], ast.Eq) and isinstance(t.left, ast.Name) \
                    and t.left.id in self.idvars:
                lab = _prop(t.comparators[0])
            head = self.expr(st.test)
            saved = self.label
            if lab is not None:
                self.label = lab
                body = _add(self.touch(lab), self.block(st.body, param_label))
                self.label = saved
                return _add(head, _add(body, self.block(st.orelse, param_label)))
            a = self.block(st.body, param_label)
            self.label = saved
            if self.side == "read" and isinstance(t, ast.Compare) and isinstance(t.left, ast.Name) and t.left.id == "external" and isinstance(t.ops[0], ast.Eq):
                # `if external == 0: <inline data> else: <data kept in an external stream>`: py7zr never writes the external form
                return _add(head, a)
            b = self.block(st.orelse, param_label)
            self.label = saved
            return _add(head, _alt(a, b))
        if isinstance(st, ast.While) and self.side == "read" and any(
                isinstance(n, ast.Compare) and isinstance(n.left, ast.Name) and n.left.id in self.idvars and any(_prop(c) is not None for c in n.comparators)
                for x in st.body for n in ast.walk(x)):
            # the property loop of a record-structured section (one iteration per record): what its body does outside the id arms is the
            # prelude every record shares (size field, payload buffer)
            saved = self.label
            self.label = "PRELUDE"
            inner = self.block(st.body, param_label)
            self.label = saved
            return inner
        if isinstance(st, ast.For) and self.side == "read" and isinstance(st.iter, ast.Call) and isinstance(st.iter.func, ast.Attribute) \
                and isinstance(st.iter.func.value, ast.Name) and st.iter.func.value.id == "self" and st.iter.func.attr in self.cls.methods \
                and any(isinstance(y, (ast.Yield, ast.YieldFrom)) for y in ast.walk(self.cls.methods[st.iter.func.attr].node)) and st.iter.func.attr not in self.stack:
            # the record loop written as `for id, size in self._records(fp):` - the generator reads what every record shares (the prelude), the body
            # of the for statement holds the arms
            g = self.cls.methods[st.iter.func.attr]
            saved = self.label
            self.stack.add(st.iter.func.attr)
            try:
                pre = self.block(g.node.body, param_label)
            finally:
                self.stack.discard(st.iter.func.attr)
            self.label = "PRELUDE"
            inner = self.block(st.body, param_label)
            self.label = saved
            return _add(pre, inner)
        if isinstance(st, (ast.For, ast.While)):
            head = self.expr(st.iter) if isinstance(st, ast.For) else {}
            saved = self.label
            inner = self.block(st.body, param_label)
            if isinstance(st, ast.While):
                inner = _add(self.expr(st.test), inner)
            self.label = saved
            return _add(head, _add(_loop(inner), self.block(st.orelse, param_label)))
        if isinstance(st, ast.Try):
            r = self.block(st.body, param_label)
            for h in st.handlers:
                r = _alt(r, _add(r, self.block(h.body, param_label)))
            return _add(r, _add(self.block(st.orelse, param_label), self.block(st.finalbody, param_label)))
        if isinstance(st, ast.With):
            r = {}
            for i in st.items:
                r = _add(r, self.expr(i.context_expr))
            return _add(r, self.block(st.body, param_label))
        if param_label and isinstance(st, ast.Expr) and isinstance(st.value, ast.Call) and attr_tail(st.value) == "write_byte" and len(st.value.args) > 1 \
                and isinstance(st.value.args[1], ast.Name) and st.value.args[1].id in self.param_props:
            # `write_byte(fp, propid)`: the id handed in by the caller is written here: the record starts
            self.label = self.param_props[st.value.args[1].id]
            return self.touch(self.label)
        r = {}
        for ch in ast.iter_child_nodes(st):
            if isinstance(ch, ast.expr):
                r = _add(r, self.expr(ch))
        return r

    def run(self, entry: str) -> Rec:
        m = self.cls.methods[entry]
        if self.side == "read":
            for mm in self.cls.methods.values():
                for n in walk(mm.node):
                    if isinstance(n, ast.Compare) and isinstance(n.left, ast.Name) and any(_prop(c) is not None for c in n.comparators):
                        self.idvars.add(n.left.id)
        self.stack.add(entry)
        return self.block(m.node.body)


def section_layouts(prog, cls_name: str, reader: str = "_read", writer: str = "write") -> Tuple[Rec, Rec]:
    return Extractor(prog, cls_name, "read").run(reader), Extractor(prog, cls_name, "write").run(writer)


def fmt(c: Counter) -> str:
    return " ".join(f"{k}{d}x{n}" if n > 1 else f"{k}{d}" for (k, d), n in sorted(c.items())) or "-"


# --------------------------------------------------------------------------------------------------------------- comparison
SECTIONS = ["PackInfo", "Folder", "UnpackInfo", "SubstreamsInfo", "FilesInfo"]
# records the comparison leaves to other rules, with the reason
SKIP = {
    ("FilesInfo", "DUMMY"): "padding: the reader skips `size` bytes, the writer emits size byte + zeros (R06.1 decides the skip)",
}


def compare(prog, cls_name: str):
    """[(record, reader multiset, writer multiset)] for every record both sides know and whose multisets differ; plus the pair of
    label sets (for reporting)."""
    r, w = section_layouts(prog, cls_name)
    prelude = r.pop("PRELUDE", None)
    diffs = []
    rlabels = set(r) - {"HEAD"}
    # what the writer emits under labels the reader has no arm for is the mandatory part the reader reads straight away
    w_head: Counter = Counter()
    for lab, c in w.items():
        if lab not in rlabels:
            w_head.update(c)
    r_head = Counter(r.get("HEAD", Counter()))
    if prelude is not None:
        # record-structured section: each record carries its size (the NUMBER read in the prelude); the payload buffer is parsed by the arm
        for lab in rlabels:
            if lab in w and (cls_name, lab) not in SKIP and lab != "END":
                r[lab] = r[lab] + Counter({("N", ""): prelude.get(("N", ""), 0)})
    if r_head != w_head:
        diffs.append(("<mandatory part>", r_head, w_head))
    for lab in sorted(rlabels):
        if lab not in w or (cls_name, lab) in SKIP:
            continue
        if r[lab] != w[lab]:
            diffs.append((lab, r[lab], w[lab]))
    return diffs, sorted(rlabels), sorted(w)
