"""Helper inlining.

The rules are anchored on the functions that exist in the repository today (`sa/known_functions.txt`).  A later edit
that moves statements of such a function into a NEW private helper (extract-method refactoring) would hide them from an
anchored rule.  To keep the analysis about behaviour rather than about where the text lives, every call of a function
that is NOT in the frozen list is expanded in place before the rules run:

  * `helper(args)` as a statement, `x = helper(args)`, `return helper(args)`: the helper's body is spliced in, parameters
    are replaced by the argument expressions (simple arguments) or by fresh temporaries, clashing locals are renamed,
    `return E` becomes the corresponding assignment / return; a helper with a non-final `return` is wrapped in a
    `while True: ... break` block so that the control flow stays exact;
  * a call nested in an expression (an `if` test, an argument): expanded when the helper's body is a single `return <expr>`.

Only calls that resolve by name inside the same module (`self.h()`, `cls.h()`, `Class.h()`, `h()`) are expanded, two levels
deep, never recursively.  The expansion is purely syntactic (ast -> ast); positions of the spliced nodes are those of the call.
"""
from __future__ import annotations

import ast
import copy
import os
from typing import Dict, List, Optional, Set, Tuple

HERE = os.path.dirname(os.path.abspath(__file__))
_known: Optional[Set[str]] = None


def known_functions() -> Set[str]:
    global _known
    if _known is None:
        p = os.path.join(HERE, "known_functions.txt")
        _known = set(open(p).read().split()) if os.path.exists(p) else set()
    return _known


class _Subst(ast.NodeTransformer):
    def __init__(self, mapping: Dict[str, ast.AST], renames: Dict[str, str]):
        self.mapping, self.renames = mapping, renames

    def visit_Name(self, node: ast.Name):
        if node.id in self.mapping and isinstance(node.ctx, ast.Load):
            return copy.deepcopy(self.mapping[node.id])
        if node.id in self.renames:
            return ast.copy_location(ast.Name(id=self.renames[node.id], ctx=node.ctx), node)
        return node

    def visit_FunctionDef(self, node):
        return node  # nested defs are left alone

    visit_Lambda = visit_FunctionDef


def _simple(e: ast.AST) -> bool:
    if isinstance(e, (ast.Name, ast.Constant)):
        return True
    if isinstance(e, ast.Attribute):
        return _simple(e.value)
    return False


def _locals_of(fn: ast.FunctionDef) -> Set[str]:
    out = set()
    for n in ast.walk(fn):
        if isinstance(n, ast.Name) and isinstance(n.ctx, ast.Store):
            out.add(n.id)
        elif isinstance(n, ast.ExceptHandler) and n.name:
            out.add(n.name)
    return out


def _params(fn: ast.FunctionDef) -> List[ast.arg]:
    a = fn.args
    return a.posonlyargs + a.args


_INVERSE = {ast.Eq: ast.NotEq, ast.NotEq: ast.Eq, ast.Lt: ast.GtE, ast.GtE: ast.Lt, ast.Gt: ast.LtE, ast.LtE: ast.Gt, ast.Is: ast.IsNot, ast.IsNot: ast.Is,
            ast.In: ast.NotIn, ast.NotIn: ast.In}


def negate(e: ast.AST) -> ast.AST:
    """`not e` with the negation pushed inwards (De Morgan, inverse comparison)."""
    if isinstance(e, ast.UnaryOp) and isinstance(e.op, ast.Not):
        return e.operand
    if isinstance(e, ast.Compare) and len(e.ops) == 1 and type(e.ops[0]) in _INVERSE:
        return ast.Compare(left=e.left, ops=[_INVERSE[type(e.ops[0])]()], comparators=list(e.comparators))
    if isinstance(e, ast.BoolOp):
        return _boolop(ast.Or() if isinstance(e.op, ast.And) else ast.And(), [negate(v) for v in e.values])
    if isinstance(e, ast.Constant) and isinstance(e.value, bool):
        return ast.Constant(value=not e.value)
    return ast.UnaryOp(op=ast.Not(), operand=e)


def _boolop(op: ast.boolop, values: List[ast.AST]) -> ast.AST:
    flat: List[ast.AST] = []
    for v in values:
        if isinstance(v, ast.BoolOp) and type(v.op) is type(op):
            flat += v.values
        else:
            flat.append(v)
    # `x or False` / `x and True` say x (the truth value is all that is kept); a constant that decides the whole operation ends it
    neutral = isinstance(op, ast.And)
    kept: List[ast.AST] = []
    for v in flat:
        if isinstance(v, ast.Constant) and isinstance(v.value, bool):
            if v.value is neutral:
                continue
            kept.append(v)
            break
        kept.append(v)
    if not kept:
        return ast.Constant(value=neutral)
    return kept[0] if len(kept) == 1 else ast.BoolOp(op=op, values=kept)


def if_convert(stmts: List[ast.stmt]) -> Optional[ast.AST]:
    """the body of a predicate (`if`/`return`, locals assigned once from call-free expressions) as one expression of the same truth value, its tests
    evaluated in the same order; None when the body has any other statement."""
    def is_const(e, v):
        return isinstance(e, ast.Constant) and e.value is v

    def conv(body: List[ast.stmt], env: Dict[str, ast.AST]) -> Optional[ast.AST]:
        if not body:
            return None
        st, rest = body[0], body[1:]
        if isinstance(st, ast.Pass) or (isinstance(st, ast.Expr) and isinstance(st.value, ast.Constant)):
            return conv(rest, env)
        if isinstance(st, ast.Return):
            if st.value is None:
                return None
            return _Subst(dict(env), {}).visit(copy.deepcopy(st.value))
        if isinstance(st, (ast.Assign, ast.AnnAssign)) and st.value is not None:
            tg = st.targets[0] if isinstance(st, ast.Assign) and len(st.targets) == 1 else getattr(st, "target", None)
            if not isinstance(tg, ast.Name) or tg.id in env:
                return None
            if any(isinstance(n, (ast.Call, ast.Await, ast.NamedExpr, ast.Yield, ast.YieldFrom)) for n in ast.walk(st.value)):
                return None  # the local would be evaluated once per use: only call-free values are substituted
            uses = sum(1 for s in rest for n in ast.walk(s) if isinstance(n, ast.Name) and n.id == tg.id and isinstance(n.ctx, ast.Store))
            if uses:
                return None
            env2 = dict(env)
            env2[tg.id] = _Subst(dict(env), {}).visit(copy.deepcopy(st.value))
            return conv(rest, env2)
        if isinstance(st, ast.For) and not st.orelse and isinstance(st.target, ast.Name) and len(st.body) == 1 and isinstance(st.body[0], ast.If) \
                and not st.body[0].orelse and len(st.body[0].body) == 1 and isinstance(st.body[0].body[0], ast.Return) \
                and isinstance(st.body[0].body[0].value, ast.Constant) and isinstance(st.body[0].body[0].value.value, bool):
            # `for x in it: if c: return K` is `if any(c for x in it): return K`
            gen = ast.GeneratorExp(elt=st.body[0].test, generators=[ast.comprehension(target=st.target, iter=st.iter, ifs=[], is_async=0)])
            found = ast.Call(func=ast.Name(id="any", ctx=ast.Load()), args=[gen], keywords=[])
            return conv([ast.If(test=found, body=[st.body[0].body[0]], orelse=[])] + rest, env)
        if isinstance(st, ast.If):
            c = _Subst(dict(env), {}).visit(copy.deepcopy(st.test))
            a = conv(st.body + rest, env)
            b = conv(st.orelse + rest, env)
            if a is None or b is None:
                return None
            if is_const(a, False):
                return _boolop(ast.And(), [negate(c), b])
            if is_const(a, True):
                return _boolop(ast.Or(), [c, b])
            if is_const(b, False):
                return _boolop(ast.And(), [c, a])
            if is_const(b, True):
                return _boolop(ast.Or(), [negate(c), a])
            return _boolop(ast.Or(), [_boolop(ast.And(), [c, a]), _boolop(ast.And(), [negate(copy.deepcopy(c)), b])])
        return None
    if len(stmts) < 2:
        return None
    return conv(list(stmts), {})


class Inliner:
    def __init__(self, module_name: str, tree: ast.Module):
        self.module = module_name
        self.tree = tree
        self.funcs: Dict[Tuple[Optional[str], str], ast.FunctionDef] = {}
        self.counter = 0
        for st in tree.body:
            if isinstance(st, ast.FunctionDef):
                self.funcs[(None, st.name)] = st
            elif isinstance(st, ast.ClassDef):
                for s2 in st.body:
                    if isinstance(s2, ast.FunctionDef):
                        self.funcs[(st.name, s2.name)] = s2
        self.class_bases: Dict[str, List[str]] = {st.name: [b.id for b in st.bases if isinstance(b, ast.Name)] for st in tree.body if isinstance(st, ast.ClassDef)}

    def qual(self, cls: Optional[str], name: str) -> str:
        return f"{self.module}:{cls + '.' if cls else ''}{name}"

    def is_new(self, cls: Optional[str], name: str) -> bool:
        k = known_functions()
        return bool(k) and self.qual(cls, name) not in k

    def lookup(self, cls: Optional[str], call: ast.Call) -> Optional[Tuple[Optional[str], ast.FunctionDef, bool]]:
        """(owner class, function, bound) for a call that resolves by name to a NEW helper of this module."""
        f = call.func
        if isinstance(f, ast.Name):
            fn = self.funcs.get((None, f.id))
            if fn is not None and self.is_new(None, f.id):
                return None, fn, False
            return None
        if isinstance(f, ast.Attribute) and isinstance(f.value, ast.Name):
            recv = f.value.id
            owner = None
            if recv in ("self", "cls") and cls is not None:
                owner = cls
            elif recv in self.class_bases:
                owner = recv
            if owner is None:
                return None
            todo, seen = [owner], set()
            while todo:
                c = todo.pop(0)
                if c in seen:
                    continue
                seen.add(c)
                fn = self.funcs.get((c, f.attr))
                if fn is not None:
                    if not self.is_new(c, f.attr):
                        return None
                    static = any(isinstance(d, ast.Name) and d.id == "staticmethod" for d in fn.decorator_list)
                    return c, fn, not static
                todo += self.class_bases.get(c, [])
        return None

    # ------------------------------------------------------------------------------------
    def _bind(self, call: ast.Call, fn: ast.FunctionDef, bound: bool, caller_locals: Set[str]):
        """(prelude statements, param mapping, local renames) or None when the call shape is not supported."""
        params = _params(fn)
        if bound and params:
            self_name = params[0].arg
            params = params[1:]
        else:
            self_name = None
        if fn.args.vararg or fn.args.kwarg or any(isinstance(a, ast.Starred) for a in call.args) or any(k.arg is None for k in call.keywords):
            return None
        names = [p.arg for p in params] + [p.arg for p in fn.args.kwonlyargs]
        given: Dict[str, ast.AST] = {}
        for p, a in zip(params, call.args):
            given[p.arg] = a
        if len(call.args) > len(params):
            return None
        for k in call.keywords:
            if k.arg not in names:
                return None
            given[k.arg] = k.value
        defaults = dict(zip([p.arg for p in params][len(params) - len(fn.args.defaults):], fn.args.defaults))
        defaults.update({p.arg: d for p, d in zip(fn.args.kwonlyargs, fn.args.kw_defaults) if d is not None})
        for n in names:
            if n not in given:
                if n not in defaults:
                    return None
                given[n] = defaults[n]
        self.counter += 1
        tag = f"_inl{self.counter}"
        assigned = _locals_of(fn)
        mapping: Dict[str, ast.AST] = {}
        prelude: List[ast.stmt] = []
        renames: Dict[str, str] = {}
        for n in names:
            a = given[n]
            if _simple(a) and n not in assigned:
                mapping[n] = a
            else:
                tmp = n if (n not in caller_locals and n not in assigned) else f"{n}{tag}"
                if n in assigned and n in caller_locals:
                    tmp = f"{n}{tag}"
                prelude.append(ast.copy_location(ast.Assign(targets=[ast.Name(id=tmp, ctx=ast.Store())], value=copy.deepcopy(a)), call))
                if tmp != n:
                    renames[n] = tmp
        if self_name is not None and isinstance(call.func, ast.Attribute):
            mapping[self_name] = call.func.value if not isinstance(call.func.value, ast.Name) or call.func.value.id not in self.class_bases else ast.Name(id="self", ctx=ast.Load())
        for loc in assigned:
            if loc in names:
                continue
            if loc in caller_locals:
                renames[loc] = f"{loc}{tag}"
        return prelude, mapping, renames

    def _body(self, fn: ast.FunctionDef) -> List[ast.stmt]:
        body = list(fn.body)
        if body and isinstance(body[0], ast.Expr) and isinstance(body[0].value, ast.Constant) and isinstance(body[0].value.value, str):
            body = body[1:]
        return body or [ast.Pass()]

    def expr_inline(self, cls: Optional[str], e: ast.AST, caller_locals: Set[str], depth: int) -> ast.AST:
        """expand calls of single-return NEW helpers inside an expression."""
        outer = self

        class T(ast.NodeTransformer):
            def visit_Call(self, node: ast.Call):
                self.generic_visit(node)
                hit = outer.lookup(cls, node)
                if hit is None or depth <= 0:
                    return node
                owner, fn, bound = hit
                body = outer._body(fn)
                if len(body) != 1 or not isinstance(body[0], ast.Return) or body[0].value is None:
                    # a predicate helper written with early returns (`if c: return False` ... `return e`) and single-assignment locals: ONE boolean
                    # expression with the same truth value (if-conversion, negations pushed inwards)
                    single = if_convert(body)
                    if single is None:
                        return node
                    body = [ast.Return(value=single)]
                b = outer._bind(node, fn, bound, caller_locals)
                if b is None:
                    return node
                prelude, mapping, renames = b
                if prelude:
                    return node  # complex arguments would need statements: leave the call
                new = _Subst(mapping, renames).visit(copy.deepcopy(body[0].value))
                new = outer.expr_inline(owner, new, caller_locals, depth - 1)
                for x in ast.walk(new):
                    ast.copy_location(x, node)
                return new

            def visit_Lambda(self, node):
                return node
        return T().visit(e)

    def stmt_inline(self, cls: Optional[str], st: ast.stmt, caller_locals: Set[str], depth: int) -> List[ast.stmt]:
        call = None
        kind = None
        if isinstance(st, ast.Expr) and isinstance(st.value, ast.Call):
            call, kind = st.value, "expr"
        elif isinstance(st, ast.Assign) and len(st.targets) == 1 and isinstance(st.value, ast.Call):
            call, kind = st.value, "assign"
        elif isinstance(st, ast.Return) and isinstance(st.value, ast.Call):
            call, kind = st.value, "return"
        if call is None or depth <= 0:
            return [st]
        hit = self.lookup(cls, call)
        if hit is None:
            return [st]
        owner, fn, bound = hit
        if any(isinstance(n, (ast.Yield, ast.YieldFrom, ast.Await, ast.Global, ast.Nonlocal)) for n in ast.walk(fn)):
            return [st]
        b = self._bind(call, fn, bound, caller_locals)
        if b is None:
            return [st]
        prelude, mapping, renames = b
        body = [_Subst(mapping, renames).visit(copy.deepcopy(s)) for s in self._body(fn)]
        rets = [n for s in body for n in ast.walk(s) if isinstance(n, ast.Return)]
        final_only = len(rets) == 0 or (len(rets) == 1 and body and body[-1] is rets[0])
        need_loop = not final_only and kind != "return"

        def conv(ret: ast.Return) -> List[ast.stmt]:
            val = ret.value if ret.value is not None else ast.Constant(value=None)
            out: List[ast.stmt] = []
            if kind == "assign":
                out.append(ast.Assign(targets=[copy.deepcopy(st.targets[0])], value=val))
            elif kind == "expr" and ret.value is not None:
                out.append(ast.Expr(value=val))
            elif kind == "return":
                return [ast.Return(value=ret.value)]
            if need_loop:
                out.append(ast.Break())
            return out or [ast.Pass()]

        class R(ast.NodeTransformer):
            def _block(self, stmts):
                new = []
                for s in stmts:
                    if isinstance(s, ast.Return):
                        new += conv(s)
                    else:
                        new.append(self.visit(s))
                return new

            def generic_visit(self, node):
                for fld in ("body", "orelse", "finalbody"):
                    if hasattr(node, fld) and isinstance(getattr(node, fld), list) and getattr(node, fld) and isinstance(getattr(node, fld)[0], ast.stmt):
                        setattr(node, fld, self._block(getattr(node, fld)))
                if hasattr(node, "handlers"):
                    for h in node.handlers:
                        h.body = self._block(h.body)
                return node

            def visit_FunctionDef(self, node):
                return node

            def visit_For(self, node):
                if need_loop and any(isinstance(x, ast.Return) for x in ast.walk(node)):
                    raise _Unsupported()
                return self.generic_visit(node)
            visit_While = visit_For
        try:
            holder = ast.Module(body=body, type_ignores=[])
            holder.body = R()._block(holder.body)
        except _Unsupported:
            return [st]
        new_body = holder.body
        if kind == "assign" and final_only and not rets:
            new_body.append(ast.Assign(targets=[copy.deepcopy(st.targets[0])], value=ast.Constant(value=None)))
        if need_loop:
            if kind == "assign":
                # falling off the end returns None
                new_body.append(ast.Assign(targets=[copy.deepcopy(st.targets[0])], value=ast.Constant(value=None)))
            new_body.append(ast.Break())
            blk = ast.While(test=ast.Constant(value=True), body=new_body, orelse=[])
            blk._inlined_block = True  # type: ignore[attr-defined]
            new_body = [blk]
        out = prelude + new_body
        for s in out:
            for x in ast.walk(s):
                ast.copy_location(x, st)
        ast.fix_missing_locations(ast.Module(body=out, type_ignores=[]))
        # inline further inside the spliced code
        loc2 = caller_locals | {n.id for s in out for n in ast.walk(s) if isinstance(n, ast.Name) and isinstance(n.ctx, ast.Store)}
        return self.block(owner if owner is not None else cls, out, loc2, depth - 1)

    def block(self, cls: Optional[str], stmts: List[ast.stmt], caller_locals: Set[str], depth: int) -> List[ast.stmt]:
        out: List[ast.stmt] = []
        for st in stmts:
            # nested blocks first
            for fld in ("body", "orelse", "finalbody"):
                sub = getattr(st, fld, None)
                if isinstance(sub, list) and sub and isinstance(sub[0], ast.stmt) and not isinstance(st, (ast.FunctionDef, ast.ClassDef, ast.AsyncFunctionDef)):
                    setattr(st, fld, self.block(cls, sub, caller_locals, depth))
            if hasattr(st, "handlers"):
                for h in st.handlers:
                    h.body = self.block(cls, h.body, caller_locals, depth)
            # expression-level helpers in this statement's own expressions
            if not isinstance(st, (ast.FunctionDef, ast.ClassDef, ast.AsyncFunctionDef)):
                for fld in ("test", "value", "iter", "exc"):
                    e = getattr(st, fld, None)
                    if isinstance(e, ast.AST) and not (fld == "value" and isinstance(e, ast.Call) and self.lookup(cls, e) is not None and isinstance(st, (ast.Expr, ast.Assign, ast.Return))):
                        setattr(st, fld, self.expr_inline(cls, e, caller_locals, depth))
            out += self.stmt_inline(cls, st, caller_locals, depth)
        return out

    def run(self, depth: int = 2) -> int:
        """inline in every KNOWN function of the module; returns the number of functions changed."""
        changed = 0
        if not known_functions():
            return 0
        for (cls, name), fn in list(self.funcs.items()):
            if self.is_new(cls, name):
                continue
            before = ast.dump(fn)
            loc = _locals_of(fn) | {p.arg for p in _params(fn)}
            fn.body = self.block(cls, fn.body, loc, depth)
            ast.fix_missing_locations(fn)
            if ast.dump(fn) != before:
                changed += 1
        return changed


class _Unsupported(Exception):
    pass
