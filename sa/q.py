"""Query helpers shared by the rules."""
from __future__ import annotations

import ast
from typing import Callable, Dict, Iterable, Iterator, List, Optional, Sequence, Set, Tuple

from .cfg import CFG, Node, cfg_of, stmt_node_containing
from .model import Func, Program, walk, dotted, norm, unparse, attr_tail


# ---------------------------------------------------------------- calls
def calls(f: Func) -> List[ast.Call]:
    return [n for n in walk(f.node) if isinstance(n, ast.Call)]


def calls_tail(f: Func, *tails: str) -> List[ast.Call]:
    return [c for c in calls(f) if attr_tail(c) in tails]


def calls_dotted(f: Func, *names: str) -> List[ast.Call]:
    return [c for c in calls(f) if dotted(c.func) in names]


def node_for(f: Func, sub: ast.AST) -> Node:
    cfg = cfg_of(f.node)
    n = stmt_node_containing(cfg, sub)
    if n is None:
        from .model import AnalysisError
        raise AnalysisError(f"no CFG node for {norm(sub)} in {f.qname}")
    return n


# ---------------------------------------------------------------- facts from guards
def atoms(cond: ast.AST, pol: bool) -> List[Tuple[ast.AST, bool]]:
    """atomic facts that certainly hold when `cond` evaluates to `pol`."""
    if isinstance(cond, ast.UnaryOp) and isinstance(cond.op, ast.Not):
        return atoms(cond.operand, not pol)
    if isinstance(cond, ast.BoolOp):
        if isinstance(cond.op, ast.And) and pol:
            out = []
            for v in cond.values:
                out += atoms(v, True)
            return out
        if isinstance(cond.op, ast.Or) and not pol:
            out = []
            for v in cond.values:
                out += atoms(v, False)
            return out
        return [(cond, pol)]
    return [(cond, pol)]


def facts_at(f: Func, sub: ast.AST) -> List[Tuple[ast.AST, bool]]:
    cfg = cfg_of(f.node)
    n = node_for(f, sub)
    out: List[Tuple[ast.AST, bool]] = []
    for cond, pol in cfg.guards(n):
        out += atoms(cond, pol)
    # facts established inside the same boolean expression / conditional expression (a and b -> b sees a)
    out += _local_facts(n.ast, sub)
    # a condition that was given a name (`on_disk = not isinstance(x, MemIO)` ... `if on_disk:`) says what its definition says
    extra: List[Tuple[ast.AST, bool]] = []
    seen = set()
    work = [(c, p) for c, p in out if isinstance(c, ast.Name)]
    while work:
        c, p = work.pop()
        if c.id in seen:
            continue
        seen.add(c.id)
        v = _named_condition(f, c.id, n)
        if v is not None:
            got = atoms(v, p)
            extra += got
            work += [(c2, p2) for c2, p2 in got if isinstance(c2, ast.Name)]
    return out + extra


def _named_condition(f: Func, name: str, at: Node) -> Optional[ast.AST]:
    """the defining expression of a local that names a condition: assigned exactly once in the function (not a parameter, not a loop variable), by a
    boolean-looking expression whose own names are not re-assigned anywhere, on a statement that dominates the use."""
    if name in f.params:
        return None
    defs = [x for x in walk(f.node) if isinstance(x, (ast.Assign, ast.AnnAssign, ast.AugAssign, ast.For, ast.NamedExpr, ast.With, ast.ExceptHandler, ast.comprehension))
            and any(isinstance(y, ast.Name) and y.id == name and isinstance(y.ctx, ast.Store) for y in ast.walk(x if not isinstance(x, ast.For) else x.target))]
    if len(defs) != 1 or not isinstance(defs[0], (ast.Assign, ast.AnnAssign)):
        return None
    d = defs[0]
    tgts = d.targets if isinstance(d, ast.Assign) else [d.target]
    if len(tgts) != 1 or not isinstance(tgts[0], ast.Name) or d.value is None:
        return None
    v = d.value
    boolish = isinstance(v, (ast.Compare, ast.BoolOp)) or (isinstance(v, ast.UnaryOp) and isinstance(v.op, ast.Not)) or (
        isinstance(v, ast.Call) and ((isinstance(v.func, ast.Name) and v.func.id in ("isinstance", "any", "all", "bool", "callable", "hasattr")) or
                                     (isinstance(v.func, ast.Attribute) and (v.func.attr.startswith(("is_", "has_", "needs_", "exists", "startswith", "endswith")) or v.func.attr in ("empty",)))))
    if not boolish:
        return None
    stores = {}
    for x in walk(f.node):
        if isinstance(x, ast.Name) and isinstance(x.ctx, ast.Store):
            stores[x.id] = stores.get(x.id, 0) + 1
    for y in ast.walk(v):
        if isinstance(y, ast.Name) and isinstance(y.ctx, ast.Load) and stores.get(y.id, 0) > 1:
            return None
    cfg = cfg_of(f.node)
    dn = stmt_node_containing(cfg, d)
    if dn is None or not cfg.dominates(dn, at):
        return None
    return v


def _local_facts(root: Optional[ast.AST], sub: ast.AST) -> List[Tuple[ast.AST, bool]]:
    out: List[Tuple[ast.AST, bool]] = []
    if root is None:
        return out

    def rec(n: ast.AST, acc: List[Tuple[ast.AST, bool]]) -> bool:
        if n is sub:
            out.extend(acc)
            return True
        if isinstance(n, ast.BoolOp):
            cur = list(acc)
            for v in n.values:
                if rec(v, cur):
                    return True
                cur = cur + atoms(v, isinstance(n.op, ast.And))
            return False
        if isinstance(n, ast.IfExp):
            if rec(n.test, acc):
                return True
            if rec(n.body, acc + atoms(n.test, True)):
                return True
            return rec(n.orelse, acc + atoms(n.test, False))
        if isinstance(n, (ast.ListComp, ast.GeneratorExp, ast.SetComp)):
            cur = list(acc)
            for g in n.generators:
                if rec(g.iter, cur):
                    return True
                for c in g.ifs:
                    if rec(c, cur):
                        return True
                    cur = cur + atoms(c, True)
            return rec(n.elt, cur)
        for ch in ast.iter_child_nodes(n):
            if rec(ch, acc):
                return True
        return False

    rec(root, [])
    return out


def same(a: ast.AST, b: ast.AST) -> bool:
    return ast.dump(a) == ast.dump(b)


def is_none_test(e: ast.AST) -> Optional[Tuple[ast.AST, bool]]:
    """`x is None` -> (x, True) ; `x is not None` -> (x, False)."""
    if isinstance(e, ast.Compare) and len(e.ops) == 1 and isinstance(e.comparators[0], ast.Constant) and e.comparators[0].value is None:
        if isinstance(e.ops[0], ast.Is):
            return e.left, True
        if isinstance(e.ops[0], ast.IsNot):
            return e.left, False
    return None


def known_not_none(facts: Sequence[Tuple[ast.AST, bool]], subject: ast.AST) -> bool:
    """do the facts imply `subject is not None` (or truthiness of subject / of a hasattr+and chain on it)."""
    sd = ast.dump(subject)
    for cond, pol in facts:
        t = is_none_test(cond)
        if t is not None:
            subj, is_none = t
            if ast.dump(subj) == sd and (is_none != pol):
                return True
            # getattr(x, "a", None) is not None  ==  x.a is not None
            if isinstance(subj, ast.Call) and dotted(subj.func) == "getattr" and len(subj.args) >= 2 \
                    and isinstance(subj.args[1], ast.Constant) and isinstance(subject, ast.Attribute) \
                    and subject.attr == subj.args[1].value and same(subj.args[0], subject.value) and (is_none != pol):
                return True
        elif pol and ast.dump(cond) == sd:
            return True  # `if x:` truthiness
    return False


# ---------------------------------------------------------------- ordering
def dominates(f: Func, a: ast.AST, b: ast.AST) -> bool:
    cfg = cfg_of(f.node)
    na, nb = node_for(f, a), node_for(f, b)
    if na is nb:
        return _textual_before(a, b)
    return cfg.dominates(na, nb)


def _textual_before(a: ast.AST, b: ast.AST) -> bool:
    return (a.lineno, a.col_offset) <= (b.lineno, b.col_offset)


def reaches(f: Func, a: ast.AST, b: ast.AST, normal_only: bool = True) -> bool:
    cfg = cfg_of(f.node)
    na, nb = node_for(f, a), node_for(f, b)
    if na is nb:
        return _textual_before(a, b)
    return cfg.reaches(na, nb, normal_only=normal_only)


def raises_in_branch(f: Func, test_node: Node, pol: bool) -> bool:
    """does every path from the pol-edge of test_node end in a raise (never reaching the normal exit / loop back)."""
    cfg = cfg_of(f.node)
    pn = next((s for s in test_node.succ if s.kind == ("true" if pol else "false")), None)
    if pn is None:
        return False
    reach = cfg.reachable_from(pn)
    return cfg.exit not in reach and test_node not in reach and cfg.raise_ in reach


def branch_always_raises(cfg: CFG, pseudo: Node, stop: Iterable[Node] = ()) -> bool:
    """all paths from pseudo node end in RAISE without reaching the normal exit or any `stop` node."""
    reach = cfg.reachable_from(pseudo)
    if cfg.exit in reach:
        return False
    for s in stop:
        if s in reach:
            return False
    return cfg.raise_ in reach


# ---------------------------------------------------------------- def-use (flow-insensitive derive-from)
def assigned_values(f: Func, name: str) -> List[ast.AST]:
    out = []
    for n in walk(f.node):
        if isinstance(n, ast.Assign):
            for t in n.targets:
                out += _match_target(t, name, n.value)
        elif isinstance(n, ast.AnnAssign) and n.value is not None:
            out += _match_target(n.target, name, n.value)
        elif isinstance(n, ast.AugAssign):
            out += _match_target(n.target, name, n.value)
        elif isinstance(n, ast.NamedExpr):
            out += _match_target(n.target, name, n.value)
        elif isinstance(n, (ast.For, ast.comprehension)):
            out += _match_target(n.target, name, n.iter)
        elif isinstance(n, (ast.With, ast.AsyncWith)):
            for it in n.items:
                if it.optional_vars is not None:
                    out += _match_target(it.optional_vars, name, it.context_expr)
    return out


def _match_target(t: ast.AST, name: str, value: ast.AST) -> List[ast.AST]:
    if isinstance(t, ast.Name) and t.id == name:
        return [value]
    if isinstance(t, (ast.Tuple, ast.List)):
        out = []
        for i, e in enumerate(t.elts):
            if isinstance(value, (ast.Tuple, ast.List)) and len(value.elts) == len(t.elts):
                out += _match_target(e, name, value.elts[i])
            else:
                out += _match_target(e, name, value)
        return out
    return []


def derives_from(f: Func, e: ast.AST, pred: Callable[[ast.AST], bool], depth: int = 6, _seen: Optional[Set[str]] = None) -> bool:
    """does expression e (transitively through local assignments) contain a sub-expression satisfying pred."""
    _seen = _seen if _seen is not None else set()
    for sub in ast.walk(e):
        if pred(sub):
            return True
    if depth <= 0:
        return False
    for sub in ast.walk(e):
        if isinstance(sub, ast.Name) and sub.id not in _seen:
            _seen.add(sub.id)
            for v in assigned_values(f, sub.id):
                if derives_from(f, v, pred, depth - 1, _seen):
                    return True
    return False


def sources_of(f: Func, e: ast.AST, depth: int = 6) -> List[ast.AST]:
    """all expressions e may derive from through local assignments (including e itself)."""
    out: List[ast.AST] = [e]
    seen: Set[str] = set()
    todo = [(e, depth)]
    while todo:
        x, d = todo.pop()
        if d <= 0:
            continue
        for sub in ast.walk(x):
            if isinstance(sub, ast.Name) and sub.id not in seen:
                seen.add(sub.id)
                for v in assigned_values(f, sub.id):
                    out.append(v)
                    todo.append((v, d - 1))
    return out


def loops(f: Func) -> List[ast.AST]:
    return [n for n in walk(f.node) if isinstance(n, (ast.While, ast.For))]


def enclosing_loops(f: Func, sub: ast.AST) -> List[ast.AST]:
    out = []

    def rec(n: ast.AST, stack: List[ast.AST]) -> bool:
        if n is sub:
            out.extend(stack)
            return True
        for ch in ast.iter_child_nodes(n):
            if isinstance(ch, (ast.FunctionDef, ast.AsyncFunctionDef, ast.ClassDef)) and ch is not f.node:
                continue
            if rec(ch, stack + [n] if isinstance(n, (ast.While, ast.For)) else stack):
                return True
        return False

    rec(f.node, [])
    return out


def str_consts(e: ast.AST) -> List[str]:
    return [n.value for n in ast.walk(e) if isinstance(n, ast.Constant) and isinstance(n.value, str)]


# ---------------------------------------------------------------- alias expansion and helper inlining
def _single_alias(f: Func, name: str) -> Optional[ast.AST]:
    """the attribute chain a local name stands for, when it is assigned exactly once from a call-free Name/Attribute chain."""
    if name in f.params:
        return None
    vals = assigned_values(f, name)
    if len(vals) != 1:
        return None
    v = vals[0]
    x = v
    while isinstance(x, ast.Attribute):
        x = x.value
    if isinstance(v, ast.Attribute) and isinstance(x, ast.Name):
        return v
    return None


class _Expand(ast.NodeTransformer):
    def __init__(self, f: Func):
        self.f = f
        self.depth = 0

    def visit_Name(self, node: ast.Name):
        if self.depth > 4:
            return node
        a = _single_alias(self.f, node.id)
        if a is not None and isinstance(node.ctx, ast.Load):
            self.depth += 1
            try:
                return self.visit(ast.parse(ast.unparse(a), mode="eval").body)
            finally:
                self.depth -= 1
        return node


def chain(f: Func, e: ast.AST) -> str:
    """normalised text of e with local aliases of attribute chains expanded (`substreams.digests` -> `self.header...substreamsinfo.digests`)."""
    try:
        t = ast.parse(ast.unparse(e), mode="eval").body
    except SyntaxError:
        return norm(e)
    return norm(_Expand(f).visit(t))


def deep_nodes(ctx, f: Func, depth: int = 2, same_module_only: bool = True, _via: Optional[ast.Call] = None, _seen: Optional[Set[str]] = None):
    """yield (owner function, node, via) for every AST node of f and of the package helpers it calls (resolved, up to `depth`).
    `via` is the call node IN f through which the owner was reached (None for f's own nodes): ordering rules use via's position."""
    _seen = _seen if _seen is not None else {f.qname}
    for n in walk(f.node):
        yield f, n, _via
    if depth <= 0:
        return
    for cs in ctx.res.sites_in(f):
        if cs.kind not in ("exact", "unique"):
            continue
        for g in cs.targets:
            if g.qname in _seen or g.name == "__init__":
                continue
            if same_module_only and g.module != f.module:
                continue
            _seen.add(g.qname)
            via = _via if _via is not None else cs.node
            for item in deep_nodes(ctx, g, depth - 1, same_module_only, via, _seen):
                yield item


# ---------------------------------------------------------------- structural patterns with metavariables
def _pat(src: str, mode: str = "eval") -> ast.AST:
    t = ast.parse(src.replace("$", "_M_"), mode=mode)
    return t.body if mode == "eval" else t.body[0]


def unify(pat: ast.AST, node: ast.AST, binds: Dict[str, ast.AST]) -> bool:
    """structural match of `pat` against `node`; Names `_M_X` in pat are metavariables bound consistently to sub-expressions."""
    if isinstance(pat, ast.Name) and pat.id.startswith("_M_"):
        k = pat.id[3:]
        if k in binds:
            return ast.dump(binds[k]) == ast.dump(node) if isinstance(node, ast.AST) else False
        if not isinstance(node, ast.expr):
            return False
        binds[k] = node
        return True
    if type(pat) is not type(node):
        return False
    for fld in pat._fields:
        if fld in ("ctx", "type_comment", "kind"):
            continue
        a, b = getattr(pat, fld, None), getattr(node, fld, None)
        if isinstance(a, list):
            if not isinstance(b, list) or len(a) != len(b):
                return False
            for x, y in zip(a, b):
                if isinstance(x, ast.AST):
                    if not unify(x, y, binds):
                        return False
                elif x != y:
                    return False
        elif isinstance(a, ast.AST):
            if not isinstance(b, ast.AST) or not unify(a, b, binds):
                return False
        elif a != b:
            return False
    return True


def find(root: ast.AST, pattern: str, binds: Optional[Dict[str, ast.AST]] = None, mode: str = "eval"):
    """yield (node, bindings) for every sub-node of root matching the pattern (bindings extend `binds`)."""
    p = _pat(pattern, mode)
    for n in ast.walk(root):
        b = dict(binds or {})
        if unify(p, n, b):
            yield n, b


class _ExpandLocals(ast.NodeTransformer):
    def __init__(self, f: Func, keep: Set[str]):
        self.f, self.keep, self.depth = f, keep, 0

    def visit_Name(self, node: ast.Name):
        if not isinstance(node.ctx, ast.Load) or node.id in self.keep or node.id in self.f.params or self.depth > 5:
            return node
        vals = assigned_values(self.f, node.id)
        # only plain single assignments (not loop targets / augmented assignments)
        plain = [n for n in walk(self.f.node) if isinstance(n, ast.Assign) and len(n.targets) == 1 and isinstance(n.targets[0], ast.Name) and n.targets[0].id == node.id]
        if len(vals) == 1 and len(plain) == 1:
            self.depth += 1
            try:
                return self.visit(ast.parse(ast.unparse(plain[0].value), mode="eval").body)
            finally:
                self.depth -= 1
        return node


def expand_locals(f: Func, e: ast.AST, keep: Iterable[str] = ()) -> ast.AST:
    """e with every singly-assigned local replaced by its defining expression (transitively)."""
    t = ast.parse(ast.unparse(e), mode="eval").body
    return ast.fix_missing_locations(_ExpandLocals(f, set(keep)).visit(t))
