"""Query helpers shared by the rules."""
from __future__ import annotations

import ast
from typing import Callable, Dict, Iterable, Iterator, List, Optional, Sequence, Set, Tuple

from .cfg import CFG, Node, cfg_of, stmt_node_containing
from .model import Func, Program, walk, dotted, norm, unparse, attr_tail


# ---------------------------------------------------------------- calls
def calls(f: Func) -> List[ast.Call]:
    return [n for n in walk(f.node) if isinstance(n, ast.Call)]


def calls_tail(f: Func, *tails: str) -> List[ast.Call]:
    return [c for c in calls(f) if attr_tail(c) in tails]


def calls_dotted(f: Func, *names: str) -> List[ast.Call]:
    return [c for c in calls(f) if dotted(c.func) in names]


def node_for(f: Func, sub: ast.AST) -> Node:
    cfg = cfg_of(f.node)
    n = stmt_node_containing(cfg, sub)
    if n is None:
        from .model import AnalysisError
        raise AnalysisError(f"no CFG node for {norm(sub)} in {f.qname}")
    return n


# ---------------------------------------------------------------- facts from guards
def atoms(cond: ast.AST, pol: bool) -> List[Tuple[ast.AST, bool]]:
    """atomic facts that certainly hold when `cond` evaluates to `pol`."""
    if isinstance(cond, ast.UnaryOp) and isinstance(cond.op, ast.Not):
        return atoms(cond.operand, not pol)
    if isinstance(cond, ast.BoolOp):
        if isinstance(cond.op, ast.And) and pol:
            out = []
            for v in cond.values:
                out += atoms(v, True)
            return out
        if isinstance(cond.op, ast.Or) and not pol:
            out = []
            for v in cond.values:
                out += atoms(v, False)
            return out
        return [(cond, pol)]
    return [(cond, pol)]


def facts_at(f: Func, sub: ast.AST) -> List[Tuple[ast.AST, bool]]:
    cfg = cfg_of(f.node)
    n = node_for(f, sub)
    out: List[Tuple[ast.AST, bool]] = []
    for cond, pol in cfg.guards(n):
        out += atoms(cond, pol)
    # facts established inside the same boolean expression / conditional expression (a and b -> b sees a)
    out += _local_facts(n.ast, sub)
    return out


def _local_facts(root: Optional[ast.AST], sub: ast.AST) -> List[Tuple[ast.AST, bool]]:
    out: List[Tuple[ast.AST, bool]] = []
    if root is None:
        return out

    def rec(n: ast.AST, acc: List[Tuple[ast.AST, bool]]) -> bool:
        if n is sub:
            out.extend(acc)
            return True
        if isinstance(n, ast.BoolOp):
            cur = list(acc)
            for v in n.values:
                if rec(v, cur):
                    return True
                cur = cur + atoms(v, isinstance(n.op, ast.And))
            return False
        if isinstance(n, ast.IfExp):
            if rec(n.test, acc):
                return True
            if rec(n.body, acc + atoms(n.test, True)):
                return True
            return rec(n.orelse, acc + atoms(n.test, False))
        if isinstance(n, (ast.ListComp, ast.GeneratorExp, ast.SetComp)):
            cur = list(acc)
            for g in n.generators:
                if rec(g.iter, cur):
                    return True
                for c in g.ifs:
                    if rec(c, cur):
                        return True
                    cur = cur + atoms(c, True)
            return rec(n.elt, cur)
        for ch in ast.iter_child_nodes(n):
            if rec(ch, acc):
                return True
        return False

    rec(root, [])
    return out


def same(a: ast.AST, b: ast.AST) -> bool:
    return ast.dump(a) == ast.dump(b)


def is_none_test(e: ast.AST) -> Optional[Tuple[ast.AST, bool]]:
    """`x is None` -> (x, True) ; `x is not None` -> (x, False)."""
    if isinstance(e, ast.Compare) and len(e.ops) == 1 and isinstance(e.comparators[0], ast.Constant) and e.comparators[0].value is None:
        if isinstance(e.ops[0], ast.Is):
            return e.left, True
        if isinstance(e.ops[0], ast.IsNot):
            return e.left, False
    return None


def known_not_none(facts: Sequence[Tuple[ast.AST, bool]], subject: ast.AST) -> bool:
    """do the facts imply `subject is not None` (or truthiness of subject / of a hasattr+and chain on it)."""
    sd = ast.dump(subject)
    for cond, pol in facts:
        t = is_none_test(cond)
        if t is not None:
            subj, is_none = t
            if ast.dump(subj) == sd and (is_none != pol):
                return True
            # getattr(x, "a", None) is not None  ==  x.a is not None
            if isinstance(subj, ast.Call) and dotted(subj.func) == "getattr" and len(subj.args) >= 2 \
                    and isinstance(subj.args[1], ast.Constant) and isinstance(subject, ast.Attribute) \
                    and subject.attr == subj.args[1].value and same(subj.args[0], subject.value) and (is_none != pol):
                return True
        elif pol and ast.dump(cond) == sd:
            return True  # `if x:` truthiness
    return False


# ---------------------------------------------------------------- ordering
def dominates(f: Func, a: ast.AST, b: ast.AST) -> bool:
    cfg = cfg_of(f.node)
    na, nb = node_for(f, a), node_for(f, b)
    if na is nb:
        return _textual_before(a, b)
    return cfg.dominates(na, nb)


def _textual_before(a: ast.AST, b: ast.AST) -> bool:
    return (a.lineno, a.col_offset) <= (b.lineno, b.col_offset)


def reaches(f: Func, a: ast.AST, b: ast.AST, normal_only: bool = True) -> bool:
    cfg = cfg_of(f.node)
    na, nb = node_for(f, a), node_for(f, b)
    if na is nb:
        return _textual_before(a, b)
    return cfg.reaches(na, nb, normal_only=normal_only)


def raises_in_branch(f: Func, test_node: Node, pol: bool) -> bool:
    """does every path from the pol-edge of test_node end in a raise (never reaching the normal exit / loop back)."""
    cfg = cfg_of(f.node)
    pn = next((s for s in test_node.succ if s.kind == ("true" if pol else "false")), None)
    if pn is None:
        return False
    reach = cfg.reachable_from(pn)
    return cfg.exit not in reach and test_node not in reach and cfg.raise_ in reach


def branch_always_raises(cfg: CFG, pseudo: Node, stop: Iterable[Node] = ()) -> bool:
    """all paths from pseudo node end in RAISE without reaching the normal exit or any `stop` node."""
    reach = cfg.reachable_from(pseudo)
    if cfg.exit in reach:
        return False
    for s in stop:
        if s in reach:
            return False
    return cfg.raise_ in reach


# ---------------------------------------------------------------- def-use (flow-insensitive derive-from)
def assigned_values(f: Func, name: str) -> List[ast.AST]:
    out = []
    for n in walk(f.node):
        if isinstance(n, ast.Assign):
            for t in n.targets:
                out += _match_target(t, name, n.value)
        elif isinstance(n, ast.AnnAssign) and n.value is not None:
            out += _match_target(n.target, name, n.value)
        elif isinstance(n, ast.AugAssign):
            out += _match_target(n.target, name, n.value)
        elif isinstance(n, ast.NamedExpr):
            out += _match_target(n.target, name, n.value)
        elif isinstance(n, (ast.For, ast.comprehension)):
            out += _match_target(n.target, name, n.iter)
        elif isinstance(n, (ast.With, ast.AsyncWith)):
            for it in n.items:
                if it.optional_vars is not None:
                    out += _match_target(it.optional_vars, name, it.context_expr)
    return out


def _match_target(t: ast.AST, name: str, value: ast.AST) -> List[ast.AST]:
    if isinstance(t, ast.Name) and t.id == name:
        return [value]
    if isinstance(t, (ast.Tuple, ast.List)):
        out = []
        for i, e in enumerate(t.elts):
            if isinstance(value, (ast.Tuple, ast.List)) and len(value.elts) == len(t.elts):
                out += _match_target(e, name, value.elts[i])
            else:
                out += _match_target(e, name, value)
        return out
    return []


def derives_from(f: Func, e: ast.AST, pred: Callable[[ast.AST], bool], depth: int = 6, _seen: Optional[Set[str]] = None) -> bool:
    """does expression e (transitively through local assignments) contain a sub-expression satisfying pred."""
    _seen = _seen if _seen is not None else set()
    for sub in ast.walk(e):
        if pred(sub):
            return True
    if depth <= 0:
        return False
    for sub in ast.walk(e):
        if isinstance(sub, ast.Name) and sub.id not in _seen:
            _seen.add(sub.id)
            for v in assigned_values(f, sub.id):
                if derives_from(f, v, pred, depth - 1, _seen):
                    return True
    return False


def sources_of(f: Func, e: ast.AST, depth: int = 6) -> List[ast.AST]:
    """all expressions e may derive from through local assignments (including e itself)."""
    out: List[ast.AST] = [e]
    seen: Set[str] = set()
    todo = [(e, depth)]
    while todo:
        x, d = todo.pop()
        if d <= 0:
            continue
        for sub in ast.walk(x):
            if isinstance(sub, ast.Name) and sub.id not in seen:
                seen.add(sub.id)
                for v in assigned_values(f, sub.id):
                    out.append(v)
                    todo.append((v, d - 1))
    return out


def loops(f: Func) -> List[ast.AST]:
    return [n for n in walk(f.node) if isinstance(n, (ast.While, ast.For))]


def enclosing_loops(f: Func, sub: ast.AST) -> List[ast.AST]:
    out = []

    def rec(n: ast.AST, stack: List[ast.AST]) -> bool:
        if n is sub:
            out.extend(stack)
            return True
        for ch in ast.iter_child_nodes(n):
            if isinstance(ch, (ast.FunctionDef, ast.AsyncFunctionDef, ast.ClassDef)) and ch is not f.node:
                continue
            if rec(ch, stack + [n] if isinstance(n, (ast.While, ast.For)) else stack):
                return True
        return False

    rec(f.node, [])
    return out


def str_consts(e: ast.AST) -> List[str]:
    return [n.value for n in ast.walk(e) if isinstance(n, ast.Constant) and isinstance(n.value, str)]
