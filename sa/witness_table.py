"""Seeded breakages (see DESIGN.md appendix B). old/new are exact source fragments of the current /repo tree; a fragment
that no longer occurs exactly once makes the witness n/a (never a failure)."""
WITNESSES = []


def W(prop, name, file, old, new, expect):
    WITNESSES.append({"property": prop, "name": name, "file": file, "old": old, "new": new, "expect": expect})


PY = "py7zr/py7zr.py"
AI = "py7zr/archiveinfo.py"
CO = "py7zr/compressor.py"
HE = "py7zr/helpers.py"
CL = "py7zr/cli.py"

# ---------------------------------------------------------------- C01
W("C01", "flush: drop the stage's own flush output", CO, "                data += compressor.flush()\n", "                pass\n", "R01.2")
W("C01", "compress: member CRC after the chain", CO,
  "            crc = calculate_crc32(data, crc)\n            for i, compressor in enumerate(self.chain):\n                self._unpacksizes[i] += len(data)\n                data = compressor.compress(data)\n",
  "            for i, compressor in enumerate(self.chain):\n                self._unpacksizes[i] += len(data)\n                data = compressor.compress(data)\n            crc = calculate_crc32(data, crc)\n", "R01.2")
W("C01", "AES compress: tail slice from nextpos", CO, "            self.buf.set(data[nextpos - buflen :])\n", "            self.buf.set(data[nextpos:])\n", "R01.2")
W("C01", "writer: ZSTD arm removed", CO,
  "            if filter_id == FILTER_ZSTD:\n                level = alt_filter.get(\"level\", 3)\n                properties = struct.pack(\"BBBBB\", pyzstd.zstd_version_info[0], pyzstd.zstd_version_info[1], level, 0, 0)\n                compressor = algorithm_class_map[filter_id][0](level=level)\n            elif filter_id == FILTER_PPMD:",
  "            if filter_id == FILTER_PPMD:", "R01.1")
W("C01", "per-folder list without explicit ids", PY, "                    folder.files.append(file_info, file_id)\n", "                    folder.files.append(file_info)\n", "R01.4")
W("C01", "class map loses the PPMd decoder", CO, "    FILTER_PPMD: (PpmdCompressor, PpmdDecompressor),\n", "    FILTER_PPMD: (PpmdCompressor, None),\n", "R01.1")
W("C01", "writer BCJ list forgets ARMT", CO, "                    or f[\"id\"] == FILTER_ARMTHUMB\n", "", "R01.1")
W("C01", "archive write of the pre-chain block", CO,
  "            self.packsize += len(data)\n            self.digest = calculate_crc32(data, self.digest)\n            foutsize += len(data)\n            fp.write(data)\n            data = fd.read(self._block_size)\n",
  "            self.packsize += len(data)\n            self.digest = calculate_crc32(data, self.digest)\n            foutsize += len(data)\n            fp.write(raw)\n            data = fd.read(self._block_size)\n", "R01.2")
# ---------------------------------------------------------------- C02
W("C02", "directory mode shifted by 15", PY,
  "                f[\"attributes\"] = getattr(stat, \"FILE_ATTRIBUTE_DIRECTORY\")\n                f[\"attributes\"] |= FILE_ATTRIBUTE_UNIX_EXTENSION | (stat.S_IFDIR << 16)\n                f[\"attributes\"] |= stat.S_IMODE(fstat.st_mode) << 16\n            elif target.is_file():\n                f[\"emptystream\"] = False\n                f[\"uncompressed\"] = fstat.st_size\n                f[\"attributes\"] = getattr(stat, \"FILE_ATTRIBUTE_ARCHIVE\")",
  "                f[\"attributes\"] = getattr(stat, \"FILE_ATTRIBUTE_DIRECTORY\")\n                f[\"attributes\"] |= FILE_ATTRIBUTE_UNIX_EXTENSION | (stat.S_IFDIR << 16)\n                f[\"attributes\"] |= stat.S_IMODE(fstat.st_mode) << 15\n            elif target.is_file():\n                f[\"emptystream\"] = False\n                f[\"uncompressed\"] = fstat.st_size\n                f[\"attributes\"] = getattr(stat, \"FILE_ATTRIBUTE_ARCHIVE\")", "R02.1")
W("C02", "link stored as regular file type", PY, "FILE_ATTRIBUTE_UNIX_EXTENSION | (stat.S_IFLNK << 16)", "FILE_ATTRIBUTE_UNIX_EXTENSION | (stat.S_IFREG << 16)", "R02.1")
W("C02", "TIMESTAMP_ADJUST sign", HE, "TIMESTAMP_ADJUST = -11644473600\n", "TIMESTAMP_ADJUST = 11644473600\n", "R02.2")
W("C02", "totimestamp forgets the epoch", HE, "        return (self / 10000000.0) + TIMESTAMP_ADJUST\n", "        return self / 10000000.0\n", "R02.2")
W("C02", "link text decoded as latin-1", PY, "                            dst = omfp.read().decode(\"utf-8\")\n", "                            dst = omfp.read().decode(\"latin-1\")\n", "R02.3")
W("C02", "walk skips dot files", PY, "                for nm in sorted(os.listdir(str(path))):\n", "                for nm in sorted(n for n in os.listdir(str(path)) if not n.startswith(\".\")):\n", "R02.5")
W("C02", "walk: directory entry itself not archived", PY, "                if arcname is not None or path != pathlib.Path(\".\"):\n                    self.write(path, arcname)\n", "                pass\n", "R02.5")
# ---------------------------------------------------------------- C03
W("C03", "symlink created without is_path_valid", PY,
  "                            if is_path_valid(fileish.parent.joinpath(dst), path) and is_path_contained(\n                                fileish.parent.joinpath(dst), path\n                            ):\n                                sym_target = pathlib.Path(dst)",
  "                            if is_path_contained(\n                                fileish.parent.joinpath(dst), path\n                            ):\n                                sym_target = pathlib.Path(dst)", "R03.2")
W("C03", "register the raw member name", PY, "                self.worker.register_filelike(f.id, outfilename)\n                target_files.append((outfilename, f.file_properties()))\n",
  "                self.worker.register_filelike(f.id, pathlib.Path(f.filename))\n                target_files.append((outfilename, f.file_properties()))\n", "R03.1")
W("C03", "sanitiser returns on the failing branch", HE, "        if is_relative_to(outfile, path):\n            return pathlib.Path(outfile)\n", "        if is_relative_to(outfile, path):\n            return pathlib.Path(outfile)\n        return pathlib.Path(outfile)\n", "R03.3")
W("C03", "resolving containment check removed", PY,
  "                    if not is_path_contained(fileish, path):\n                        raise Bad7zFile(f\"Member {f.filename} would be extracted out of target directory.\")\n", "", "R03.4")
W("C03", "parallel extraction although links are present", PY,
  "        parallel = not self.password_protected and not self._filePassed and not has_links and not in_memory\n", "        parallel = not self.password_protected and not self._filePassed and not in_memory\n", "R03.4")
W("C03", "utime on a name taken from the archive", PY, "                os.utime(str(outfilename), times=(lastmodified, lastmodified))\n", "                os.utime(properties[\"filename\"], times=(lastmodified, lastmodified))\n", "R03.1")
W("C03", "is_path_valid without canonical_path", HE, "        return is_relative_to(canonical_path(target), parent)\n", "        return is_relative_to(target, parent)\n", "R03.3")
# ---------------------------------------------------------------- C04
W("C04", "_check: comparison dropped", PY,
  "                crc32 = self.decompress(fp, f.folder, ofp, f.uncompressed, f.compressed, src_end, filename=f.filename)\n            if f.crc32 is not None and crc32 != f.crc32:\n                raise CrcError(crc32, f.crc32, f.filename)\n",
  "                crc32 = self.decompress(fp, f.folder, ofp, f.uncompressed, f.compressed, src_end, filename=f.filename)\n", "R04.2")
W("C04", "test(): mismatch returns True", PY, "                if self._read_digest(packpos, packsizes[i]) != crcs[j]:\n                    return False\n", "                if self._read_digest(packpos, packsizes[i]) != crcs[j]:\n                    return True\n", "R04.6")
W("C04", "start header CRC skips the size field", AI, "        self.nextheadersize, data = read_real_uint64(file)\n        crc = calculate_crc32(data, crc)\n", "        self.nextheadersize, data = read_real_uint64(file)\n", "R04.1")
W("C04", "next-header CRC checked after the parse", PY,
  "        if self.sig_header.nextheadercrc != calculate_crc32(buffer.getvalue()):\n            raise Bad7zFile(\"invalid header data\")\n        header = Header.retrieve(self.fp, buffer, self.afterheader, password)\n",
  "        header = Header.retrieve(self.fp, buffer, self.afterheader, password)\n        if self.sig_header.nextheadercrc != calculate_crc32(buffer.getvalue()):\n            raise Bad7zFile(\"invalid header data\")\n", "R04.1")
W("C04", "regular file: CRC compare only when callback queue given", PY,
  "                            obfp.seek(0)\n                            if f.crc32 is not None and crc32 != f.crc32:", "                            obfp.seek(0)\n                            if q is not None and f.crc32 is not None and crc32 != f.crc32:", "R04.2")
W("C04", "encoded header folder CRC mismatch ignored", AI, "                if folder.crc != calculate_crc32(folder_data):\n                    raise Bad7zFile(\"invalid block data\")\n", "                if folder.crc != calculate_crc32(folder_data):\n                    pass\n", "R04.1")
W("C04", "calccrc hashes size before offset", AI, "        write_real_uint64(buf, self.nextheaderofs)\n        write_real_uint64(buf, self.nextheadersize)\n        write_uint32(buf, self.nextheadercrc)\n        startdata",
  "        write_real_uint64(buf, self.nextheadersize)\n        write_real_uint64(buf, self.nextheaderofs)\n        write_uint32(buf, self.nextheadercrc)\n        startdata", "R04.3")
# ---------------------------------------------------------------- C05
W("C05", "no-progress exit removed from Worker.decompress", PY, "                if stalled > 1:\n                    raise DecompressionError(f\"Unexpected end of data: {out_remaining} bytes of {size} are missing.\")\n", "                pass\n", "R05.1")
W("C05", "_read_digest decrements by what was read", PY, "            digest = calculate_crc32(self.fp.read(block), digest)\n            remaining_size -= block\n", "            data = self.fp.read(block)\n            digest = calculate_crc32(data, digest)\n            remaining_size -= len(data)\n", "R05.1")
W("C05", "mode table cycle", PY, "                \"w+b\": \"wb\",\n", "                \"w+b\": \"wb\",\n                \"wb\": \"w+b\",\n", "R05.1")
W("C05", "packsizes preallocated from the declared count", AI, "            self.packsizes = [read_uint64(file) for _ in range(self.numstreams)]\n", "            self.packsizes = [0] * self.numstreams\n", "R05.2")
W("C05", "sys.exit on a bad header", AI, "            raise Bad7zFile(\"invalid header data\")\n\n    def calccrc", "            import sys\n            sys.exit(3)\n\n    def calccrc", "R05.3")
W("C05", "constructor leaks the handle on parse errors", PY, "        except Exception as e:\n            self._fpclose()\n            raise e\n", "        except Exception as e:\n            raise e\n", "R05.3")
# ---------------------------------------------------------------- C06
W("C06", "FilesInfo: DUMMY arm dropped", AI, "            if prop == PROPERTY.DUMMY:\n                # Added by newer versions of 7z to adjust padding.\n                fp.seek(size, os.SEEK_CUR)\n                continue\n", "", "R06.1")
W("C06", "FilesInfo: unknown ids silently skipped", AI, "            else:\n                raise Bad7zFile(f\"invalid type {repr(prop)}\")  # pragma: no-cover\n", "            else:\n                pass\n", "R06.1")
W("C06", "packpos dropped from the data start", PY, "            return self.afterheader + header.main_streams.packinfo.packpos\n", "            return self.afterheader\n", "R06.2")
W("C06", "folder CRCs read one per entry again", AI, "            crcs = read_crcs(file, defined.count(True))\n            cidx = 0\n            for idx, folder in enumerate(self.folders):",
  "            crcs = read_crcs(file, self.numfolders)\n            cidx = 0\n            for idx, folder in enumerate(self.folders):", "R06.3")
W("C06", "SubStreamsInfo no longer materialised", AI, "        elif self.unpackinfo is not None:\n            # SubStreamsInfo is optional: without it every folder holds exactly one stream\n            self.substreamsinfo = SubstreamsInfo.from_folders(self.unpackinfo.folders)\n", "", "R06.4")
W("C06", "EMPTY_FILE arm dropped", AI, "            elif prop == PROPERTY.EMPTY_FILE:\n                self.emptyfiles = read_boolean(buffer, numemptystreams, checkall=False)\n", "", "R06.1")
# ---------------------------------------------------------------- C07
W("C07", "Name record size without the external byte", AI, "            write_uint64(file, name_size + 1)\n", "            write_uint64(file, name_size)\n", "R07.1")
W("C07", "_after_write forgets the digest", PY, "        self.header.main_streams.substreamsinfo.digests.append(crc)\n", "", "R07.3")
W("C07", "signature header: size before offset", AI, "        write_real_uint64(file, self.nextheaderofs)\n        write_real_uint64(file, self.nextheadersize)\n        write_uint32(file, self.nextheadercrc)\n\n    def _write_skeleton",
  "        write_real_uint64(file, self.nextheadersize)\n        write_real_uint64(file, self.nextheaderofs)\n        write_uint32(file, self.nextheadercrc)\n\n    def _write_skeleton", "R07.2")
W("C07", "EmptyStream size in bits", AI, "            write_uint64(file, bits_to_bytes(numfiles))\n", "            write_uint64(file, numfiles)\n", "R07.1")
W("C07", "coder flag: attribute bit 0x40", AI, "            hasattributes = 0x20 if c[\"properties\"] is not None else 0x00\n", "            hasattributes = 0x40 if c[\"properties\"] is not None else 0x00\n", "R07.5")
W("C07", "AES properties: iv flag at bit 5", CO, "        firstbyte = (self.cycles + (ivfirst << 6) + (saltfirst << 7)).to_bytes(1, \"little\")\n", "        firstbyte = (self.cycles + (ivfirst << 5) + (saltfirst << 7)).to_bytes(1, \"little\")\n", "R07.6")
W("C07", "time record: 4 bytes per value declared", AI, "        size = num_defined * 8 + 2\n", "        size = num_defined * 4 + 2\n", "R07.1")
W("C07", "flush_archive records packsize before flushing", PY, "        foutsize = compressor.flush(fp)\n        if len(self.files) > 0:", "        self.header.main_streams.packinfo.packsizes.append(compressor.packsize)\n        foutsize = compressor.flush(fp)\n        if len(self.files) > 0:", "R07.3")
W("C07", "nextheaderofs from the end of the header", PY, "        self.sig_header.nextheaderofs = header_pos - self.afterheader\n", "        self.sig_header.nextheaderofs = header_pos + header_len - self.afterheader\n", "R07.2")
# ---------------------------------------------------------------- C08
W("C08", "append seeks to afterheader", PY, "            pos = self._packed_start() + self.header.main_streams.packinfo.packpositions[-1]\n", "            pos = self._packed_start()\n", "R08.3")
W("C08", "append arm: substream counter not appended", AI, "                    self.main_streams.substreamsinfo.num_unpackstreams_folders.append(0)\n", "                    pass\n", "R08.4")
W("C08", "partial vectors sized by the defined count again", AI, "        if not reduce(and_, defined, True):\n            size += bits_to_bytes(len(defined))\n", "        if not reduce(and_, defined, True):\n            size += bits_to_bytes(num_defined)\n", "R08.2")
W("C08", "attributes no longer re-emitted", AI, "        # attribute\n        self._write_attributes(file)\n", "", "R08.1")
W("C08", "unpacksizes left None without Size property", AI,
  "        else:\n            # without a Size property a folder holds at most one substream, which has the size of the folder\n            self.unpacksizes = []\n            for i in range(len(self.num_unpackstreams_folders)):\n                if self.num_unpackstreams_folders[i] > 1:\n                    raise Bad7zFile(\"sizes of substreams are missing\")\n                elif self.num_unpackstreams_folders[i] == 1:\n                    self.unpacksizes.append(folders[i].get_unpack_size())\n", "", "R08.6")
# ---------------------------------------------------------------- C09
W("C09", "extract() stops normalising targets", PY, "            targets = [remove_trailing_slash(target) for target in targets]\n", "            targets = list(targets)\n", "R09.1")
W("C09", "continue before registering None", PY, "                if member_name not in targets:\n                    self.worker.register_filelike(f.id, None)\n                    continue\n", "                if member_name not in targets:\n                    continue\n", "R09.2")
W("C09", "just_check not cleared", PY, "                self._check(fp, just_check, src_end)\n                just_check = []\n", "                self._check(fp, just_check, src_end)\n", "R09.3")
W("C09", "delayed check moved after the delivering branch", PY, "                # delayed execution of crc check.\n                self._check(fp, just_check, src_end)\n                just_check = []\n                if not isinstance(fileish, MemIO):", "                if not isinstance(fileish, MemIO):", "R09.3")
W("C09", "empty-stream members accumulated for skip-decoding", PY, "                if not f.emptystream:\n                    just_check.append(f)\n", "                just_check.append(f)\n", "R09.3")
# ---------------------------------------------------------------- C10
W("C10", "FileInfo sizes swapped", PY, "                    f.compressed,\n                    f.uncompressed,\n                    f.archivable,", "                    f.uncompressed,\n                    f.compressed,\n                    f.archivable,", "R10.2")
W("C10", "namelist sorted", PY, "        return list(map(lambda x: x.filename, self.files))\n", "        return sorted(map(lambda x: x.filename, self.files))\n", "R10.1")
W("C10", "method renamed without the display list", CO, "            \"name\": \"PPMd\",\n", "            \"name\": \"PPMD\",\n", "R10.4")
W("C10", "needs_password looks at the first folder only", PY, "                [SupportedMethods.needs_password(folder.coders) for folder in self.header.main_streams.unpackinfo.folders]\n", "                [SupportedMethods.needs_password(folder.coders) for folder in self.header.main_streams.unpackinfo.folders[:1]]\n", "R10.5")
W("C10", "getinfo without slash stripping", PY, "        name = remove_trailing_slash(name)\n\n        # https://more-itertools", "        # https://more-itertools", "R10.6")
W("C10", "blocks = number of pack streams", PY, "            len(self.header.main_streams.unpackinfo.folders) if self.header.main_streams is not None else 0,\n", "            self.header.main_streams.packinfo.numstreams if self.header.main_streams is not None else 0,\n", "R10.8")
W("C10", "crc32 property reads another key", PY, "        return self._get_property(\"digest\")\n", "        return self._get_property(\"crc\")\n", "R10.2")
# ---------------------------------------------------------------- C11
W("C11", "constant IV", CO, "        self.iv = get_random_bytes(16)\n", "        self.iv = bytes(16)\n", "R11.1")
W("C11", "8 random IV bytes", CO, "        self.iv = get_random_bytes(16)\n", "        self.iv = get_random_bytes(8)\n", "R11.1")
W("C11", "header encryption flag not forwarded", PY, "            encrypted=self.header_encryption,\n", "            encrypted=False,\n", "R11.3")
W("C11", "raw header written to the file in _encode_header", AI, "        _, raw_header_len, raw_crc = self.write(buf, 0, False)\n", "        _, raw_header_len, raw_crc = self.write(file, 0, False)\n", "R11.3")
W("C11", "password check after chain construction", CO,
  "        if SupportedMethods.needs_password(coders) and password is None:\n            raise PasswordRequired(coders, \"Password is required for extracting given archive.\")\n        # Check filters combination and required parameters\n", "        # Check filters combination and required parameters\n", "R11.4")
W("C11", "encoded arm tested before encrypted", AI, "        if encrypted:\n            filters = DEFAULT_FILTERS.ENCRYPTED_HEADER_FILTER\n            startpos, headercrc = self._encode_header(file, afterheader, filters)\n        elif encoded:\n            filters = DEFAULT_FILTERS.ENCODED_HEADER_FILTER\n            startpos, headercrc = self._encode_header(file, afterheader, filters)\n",
  "        if encoded:\n            filters = DEFAULT_FILTERS.ENCODED_HEADER_FILTER\n            startpos, headercrc = self._encode_header(file, afterheader, filters)\n        elif encrypted:\n            filters = DEFAULT_FILTERS.ENCRYPTED_HEADER_FILTER\n            startpos, headercrc = self._encode_header(file, afterheader, filters)\n", "R11.3")
W("C11", "encrypted default chain without AES", "py7zr/properties.py", "    ENCRYPTED_ARCHIVE_FILTER = [{\"id\": FILTER_LZMA2, \"preset\": 7 | PRESET_DEFAULT}, {\"id\": FILTER_CRYPTO_AES256_SHA256}]\n", "    ENCRYPTED_ARCHIVE_FILTER = [{\"id\": FILTER_LZMA2, \"preset\": 7 | PRESET_DEFAULT}]\n", "R11.2")
W("C11", "password encoded as utf-8 on the reader side", CO, "        key = calculate_key(password.encode(\"utf-16LE\"), numcyclespower, salt, \"sha256\")\n", "        key = calculate_key(password.encode(\"utf-8\"), numcyclespower, salt, \"sha256\")\n", "R07.6")
# ---------------------------------------------------------------- C12
W("C12", "mode r opens r+b", PY, "                \"r\": \"rb\",\n", "                \"r\": \"r+b\",\n", "R12.2")
W("C12", "reset writes to the archive", PY, "            self.fp.seek(self._packed_start())\n            self.worker = Worker(self.files, self._packed_start(), self.header, self.mp)\n            self._reset_decompressor()\n",
  "            self.fp.seek(self._packed_start())\n            self.fp.write(b\"\")\n            self.worker = Worker(self.files, self._packed_start(), self.header, self.mp)\n            self._reset_decompressor()\n", "R12.1")
W("C12", "close flushes regardless of mode", PY, "        if \"w\" in self.mode or \"x\" in self.mode:\n            self._write_flush()\n", "        self._write_flush()\n", "R12.1")
W("C12", "testzip keeps decoder caches", PY, "        self.worker = Worker(self.files, self._packed_start(), self.header, self.mp)\n        self._reset_decompressor()\n        for f in self.files:", "        self.worker = Worker(self.files, self._packed_start(), self.header, self.mp)\n        for f in self.files:", "R12.3")
W("C12", "reset clears only the first folder", PY, "            for i, folder in enumerate(self.header.main_streams.unpackinfo.folders):\n                folder.decompressor = None\n", "            for i, folder in enumerate(self.header.main_streams.unpackinfo.folders[:1]):\n                folder.decompressor = None\n", "R12.3")
W("C12", "worker thread opens the archive r+b", PY, "                fp = open(fp, \"rb\")\n", "                fp = open(fp, \"r+b\")\n", "R12.2")
# ---------------------------------------------------------------- C13
W("C13", "task gets the shared handle", PY, "                            args=(\n                                filename,\n                                folders[i].files,", "                            args=(\n                                fp,\n                                folders[i].files,", "R13.1")
W("C13", "error channel not passed", PY, "                                q,\n                                exc_q,\n                                skip_notarget,\n                            ),", "                                q,\n                                None,\n                                skip_notarget,\n                            ),", "R13.3")
W("C13", "only the last task joined", PY, "                    for p in concurrent_tasks:\n                        p.join()\n", "                    p.join()\n", "R13.3")
W("C13", "re-raise dropped", PY, "                        exc_info = exc_q.get()\n                        raise exc_info[1].with_traceback(exc_info[2])\n", "                        exc_info = exc_q.get()\n", "R13.3")
W("C13", "handle cached on the shared worker", PY, "            fp.seek(src_start)\n            self._extract_single(fp, files, path, src_end, q, skip_notarget)\n", "            self.fp = fp\n            fp.seek(src_start)\n            self._extract_single(fp, files, path, src_end, q, skip_notarget)\n", "R13.2")
W("C13", "task errors swallowed without a channel", PY, "            if exc_q is None:\n                raise e\n            else:", "            if exc_q is None:\n                pass\n            else:", "R13.3")
# ---------------------------------------------------------------- C14
W("C14", "signature header before the header", PY,
  "        (header_pos, header_len, header_crc) = self.header.write(\n            self.fp,\n            self.afterheader,\n            encoded=self.encoded_header_mode,\n            encrypted=self.header_encryption,\n        )\n        self.sig_header.nextheaderofs = header_pos - self.afterheader\n        self.sig_header.calccrc(header_len, header_crc)\n        self.sig_header.write(self.fp)\n",
  "        self.sig_header.write(self.fp)\n        (header_pos, header_len, header_crc) = self.header.write(\n            self.fp,\n            self.afterheader,\n            encoded=self.encoded_header_mode,\n            encrypted=self.header_encryption,\n        )\n        self.sig_header.nextheaderofs = header_pos - self.afterheader\n        self.sig_header.calccrc(header_len, header_crc)\n", "R14.2")
W("C14", "placeholder with a verifying CRC", AI, "        write_uint32(file, 1)\n        write_real_uint64(file, 2)\n        write_real_uint64(file, 3)\n        write_uint32(file, 4)\n", "        write_uint32(file, 0x8D9FE7E5)\n        write_real_uint64(file, 0)\n        write_real_uint64(file, 0)\n        write_uint32(file, 0)\n", "R14.1")
W("C14", "header written before the folder flush", PY, "            if self.header._initialized:\n                folder = self.header.main_streams.unpackinfo.folders[-1]\n                self.worker.flush_archive(self.fp, folder)\n            self._write_header()\n",
  "            self._write_header()\n            if self.header._initialized:\n                folder = self.header.main_streams.unpackinfo.folders[-1]\n                self.worker.flush_archive(self.fp, folder)\n", "R14.2")
W("C14", "trailing write after the commit", PY, "        if \"a\" in self.mode:\n            self._write_flush()\n", "        if \"a\" in self.mode:\n            self._write_flush()\n            self.fp.write(b\"\")\n", "R14.2")
# ---------------------------------------------------------------- C15
W("C15", "rollback removed from write()", PY,
  "        except Exception:\n            # the source could not be archived: forget the member so that the archive stays consistent\n            self.header.files_info.files.pop()\n            self.header.files_info.emptyfiles.pop()\n            self.files.pop()\n            raise\n\n    def writef",
  "        except Exception:\n            raise\n\n    def writef", "R15.1")
W("C15", "rollback forgets self.files", PY,
  "                self.header.files_info.files.pop()\n                self.header.files_info.emptyfiles.pop()\n                self.files.pop()\n                raise\n        else:", "                self.header.files_info.files.pop()\n                self.header.files_info.emptyfiles.pop()\n                raise\n        else:", "R15.1")
W("C15", "gate after header.initialize in _writestr", PY, "        if not isinstance(arcname, str):\n            raise ValueError(\"Unsupported arcname\")\n        if isinstance(data, str):", "        self.header.initialize()\n        if not isinstance(arcname, str):\n            raise ValueError(\"Unsupported arcname\")\n        if isinstance(data, str):", "R15.2")
W("C15", "special files accepted again", PY, "        if \"emptystream\" not in f:\n            # neither a symbolic link, a directory nor a regular file\n            raise ValueError(f\"Unsupported file type: {target}\")\n", "", "R15.2")
W("C15", "__exit__ closes only without exception", PY, "    def __exit__(self, exc_type, exc_val, exc_tb):\n        self.close()\n", "    def __exit__(self, exc_type, exc_val, exc_tb):\n        if exc_type is None:\n            self.close()\n", "R15.3")
# ---------------------------------------------------------------- C16
W("C16", "writef without the gate", PY, "        if not check_archive_path(arcname):\n            raise ValueError(f\"Specified path is bad: {arcname}\")\n        return self._writef(bio, arcname)\n", "        return self._writef(bio, arcname)\n", "R16.1")
W("C16", "public method calling _writef directly", PY, "    def writestr(self, data: Union[str, bytes, bytearray, memoryview], arcname: str):\n", "    def writebytes(self, data: bytes, arcname: str):\n        return self._writef(io.BytesIO(data), arcname)\n\n    def writestr(self, data: Union[str, bytes, bytearray, memoryview], arcname: str):\n", "R16.2")
W("C16", "given arcname bypasses the sanitiser", PY, "        else:\n            arcname = self._sanitize_archive_arcname(arcname)\n        if isinstance(file, str):", "        else:\n            arcname = str(arcname)\n        if isinstance(file, str):", "R16.3")
W("C16", "sanitiser returns before the isabs test", PY, "        if os.path.isabs(path) or re.match(\"^[a-zA-Z]:\", path):\n            # Path is absolute even after stripping.\n            raise AbsolutePathError(arcname)\n        return path\n", "        return path\n", "R16.4")
W("C16", "climb check removed", HE, "            depth -= 1\n            if depth < 0:\n                return False\n", "            depth -= 1\n", "R16.5")
W("C16", "gate raises only a warning", PY, "        if not check_archive_path(arcname):\n            raise ValueError(f\"Specified path is bad: {arcname}\")\n        return self._writestr(data, arcname)\n", "        if not check_archive_path(arcname):\n            pass\n        return self._writestr(data, arcname)\n", "R16.1")
# ---------------------------------------------------------------- C17
W("C17", "class table row wrong", AI, "        (0b11011111, 2),\n", "        (0b11011111, 3),\n", "R17.1")
W("C17", "write_uint32 big endian", AI, "    b = pack(\"<L\", value)\n", "    b = pack(\">L\", value)\n", "R17.3")
W("C17", "reader decodes utf-16BE", AI, "    return val.decode(\"utf-16LE\")\n", "    return val.decode(\"utf-16BE\")\n", "R17.4")
W("C17", "threshold off by a factor", AI, "    if high_byte < 2 << (8 - byte_length - 1):\n", "    if high_byte < 2 << (8 - byte_length):\n", "R17.8")
W("C17", "nine-byte threshold too high", AI, "    if value > 0xFFFFFFFFFFFFFF:\n", "    if value > 0xFFFFFFFFFFFFFFFF:\n", "R17.2")
W("C17", "branch B mask loop one short", AI, "        for x in range(byte_length):\n            mask |= 0x80 >> x\n", "        for x in range(byte_length - 1):\n            mask |= 0x80 >> x\n", "R17.8")
W("C17", "attributes decided by truthiness", AI, "            if \"attributes\" in f.keys() and f[\"attributes\"] is not None:\n", "            if f.get(\"attributes\"):\n", "R17.5")
W("C17", "boolean writer LSB first", AI, "            o[i // 8] |= 1 << (7 - i % 8)\n", "            o[i // 8] |= 1 << (i % 8)\n", "R17.3")
W("C17", "property id DUMMY changed", "py7zr/properties.py", "    DUMMY = binascii.unhexlify(\"19\")\n", "    DUMMY = binascii.unhexlify(\"1a\")\n", "R17.6")
# ---------------------------------------------------------------- C18
W("C18", "post before the worker call", PY, "        self.q.put((\"pre\", None, None))\n", "        self.q.put((\"pre\", None, None))\n        self.q.put((\"post\", None, None))\n", "R18.2")
W("C18", "new tag without dispatch", PY, "                    q.put((\"u\", None, str(decompressed_bytes)))\n", "                    q.put((\"p\", None, str(decompressed_bytes)))\n", "R18.3")
W("C18", "update not forced at the end of the member", PY, "                if out_remaining <= 0 or time_delta >= 1:\n", "                if time_delta >= 1:\n", "R18.4")
W("C18", "handle closed before the reporter is joined", PY, "        if \"r\" in self.mode:\n            if self.reporterd is not None:", "        self._fpclose()\n        if \"r\" in self.mode:\n            if self.reporterd is not None:", "R18.5")
W("C18", "end event carries the compressed size", PY, "                q.put((\"e\", str(f.filename), str(f.uncompressed)))\n", "                q.put((\"e\", str(f.filename), str(f.compressed)))\n", "R18.1")
W("C18", "reporter swaps the fields of the end event", PY, "                    callback.report_end(item[1], item[2])\n", "                    callback.report_end(item[2], item[1])\n", "R18.3")
# ---------------------------------------------------------------- C19
W("C19", "Bad7zFile handler of run_test returns 0", CL, "            except py7zr.exceptions.Bad7zFile:\n                print(\"Header is corrupted. Cannot read as 7z file.\")\n                return 1\n            except py7zr.exceptions.PasswordRequired:\n                print(\"The archive is encrypted but password is not given. FAILED.\")",
  "            except py7zr.exceptions.Bad7zFile:\n                print(\"Header is corrupted. Cannot read as 7z file.\")\n                return 0\n            except py7zr.exceptions.PasswordRequired:\n                print(\"The archive is encrypted but password is not given. FAILED.\")", "R19.2")
W("C19", "DecompressionError handler falls off the end", CL, "            print(\"Error has been occurred during decompression. ABORT.\")\n            return 1\n", "            print(\"Error has been occurred during decompression. ABORT.\")\n", "R19.2")
W("C19", "unit table without g", CL, "        \"g\": 1024 * 1024 * 1024,\n", "", "R19.3")
W("C19", "append opens with mode w", CL, "        with py7zr.SevenZipFile(target, \"a\") as szf:\n", "        with py7zr.SevenZipFile(target, \"w\") as szf:\n", "R19.4")
W("C19", "t ignores the verdict", CL, "                if a.testzip() is None:\n", "                a.testzip()\n                if True:\n", "R19.2")
W("C19", "handler for x missing", CL, "        extract_parser.set_defaults(func=self.run_extract)\n", "", "R19.1")
# ---------------------------------------------------------------- C20
W("C20", "LZMA1 decoder drops max_length", CO, "        return self._decompressor.decompress(data, max_length)\n", "        return self._decompressor.decompress(data)\n", "R20.1")
W("C20", "source read without size", CO, "        data = fd.read(self._block_size)\n        insize = len(data)\n", "        data = fd.read()\n        insize = len(data)\n", "R20.2")
W("C20", "_read_data reads the whole remainder", CO, "        read_size = min(rest_size - unused_s, self.block_size - unused_s)\n", "        read_size = rest_size - unused_s\n", "R20.2")
W("C20", "decode loop requests the whole member", PY, "            tmp = decompressor.decompress(fp, min(out_remaining, max_block_size))\n", "            tmp = decompressor.decompress(fp, out_remaining)\n", "R20.4")
W("C20", "PPMd decoder ignores max_length", CO, "        return self.decoder.decode(data, max_length)\n", "        return self.decoder.decode(data, -1)\n", "R20.1")


# ---------------------------------------------------------------- re-anchored fragments
# The repaired tree moved on under some witnesses: the same mutation, expressed against the current text (old fragment, mutated fragment).
_REANCHOR = {
    "parallel extraction although links are present": (
        "        parallel = not self.password_protected and not self._filePassed and not has_links and not in_memory and not renamed\n",
        "        parallel = not self.password_protected and not self._filePassed and not in_memory and not renamed\n"),
    "regular file: CRC compare only when callback queue given": (
        "                        if f.crc32 is not None and crc32 != f.crc32:\n                            if not isinstance(fileish, MemIO):",
        "                        if q is not None and f.crc32 is not None and crc32 != f.crc32:\n                            if not isinstance(fileish, MemIO):"),
    "_read_digest decrements by what was read": (
        "            if len(data) == 0:\n                break  # the file ends before the declared packed size\n", "            pass\n"),
    "close flushes regardless of mode": (
        "            if \"w\" in self.mode or \"x\" in self.mode:\n                self._write_flush()\n", "            self._write_flush()\n"),
    "signature header before the header": (
        "        \"\"\"Write header and update signature header.\"\"\"\n        (header_pos, header_len, header_crc) = self.header.write(",
        "        \"\"\"Write header and update signature header.\"\"\"\n        self.sig_header.write(self.fp)\n        (header_pos, header_len, header_crc) = self.header.write("),
    "trailing write after the commit": (
        "            if \"a\" in self.mode:\n                self._write_flush()\n", "            if \"a\" in self.mode:\n                self._write_flush()\n                self.fp.write(b\"\")\n"),
    "rollback removed from write()": (
        "        except BaseException:\n            # the source could not be archived (or the call was interrupted): forget the member so that the archive stays consistent\n            self.header.files_info.files.pop()\n            self.header.files_info.emptyfiles.pop()\n            self.files.pop()\n            # what has already gone into the packed stream cannot be taken back\n            self._broken = self._broken or folder.get_compressor().consumed != taken\n            raise\n\n    def writef",
        "        except BaseException:\n            raise\n\n    def writef"),
    "rollback forgets self.files": (
        "                self.header.files_info.files.pop()\n                self.header.files_info.emptyfiles.pop()\n                self.files.pop()\n                # what has already gone",
        "                self.header.files_info.files.pop()\n                self.header.files_info.emptyfiles.pop()\n                # what has already gone"),
    "__exit__ closes only without exception": (
        "    def __exit__(self, exc_type, exc_val, exc_tb):\n        try:\n            self.close()\n",
        "    def __exit__(self, exc_type, exc_val, exc_tb):\n        try:\n            if exc_type is None:\n                self.close()\n"),
    "handle closed before the reporter is joined": (
        "        try:\n            if \"w\" in self.mode or \"x\" in self.mode:\n                self._write_flush()\n",
        "        self._fpclose()\n        try:\n            if \"w\" in self.mode or \"x\" in self.mode:\n                self._write_flush()\n"),
}
_REANCHOR.update({
    "only the last task joined": (
        "                        for p in concurrent_tasks:\n                            p.join()\n", "                        p.join()\n"),
    "header written before the folder flush": (
        "                if self.header._initialized:\n                    folder = self.header.main_streams.unpackinfo.folders[-1]\n                    self.worker.flush_archive(self.fp, folder)\n                self._write_header()\n",
        "                self._write_header()\n                if self.header._initialized:\n                    folder = self.header.main_streams.unpackinfo.folders[-1]\n                    self.worker.flush_archive(self.fp, folder)\n"),
    "sanitiser returns before the isabs test": (
        "        if os.path.isabs(path) or re.match(\"^[a-zA-Z]:\", path):\n            # Path is absolute even after stripping.\n            raise AbsolutePathError(arcname)\n        # a source named",
        "        # a source named"),
    "t ignores the verdict": (
        "                if a.test() is not False and a.testzip() is None:\n", "                a.testzip()\n                if a.test() is not False:\n"),
})
_REANCHOR.update({
    # the witness now removes the (only, link-resolving) guard: the old text removed the textual one of two
    "symlink created without is_path_valid": (
        "                            if is_path_contained(fileish.parent.joinpath(dst), path):\n                                # fileish.unlink(missing_ok=True) > py3.7\n                                if fileish.exists():\n                                    fileish.unlink()\n                                fileish.symlink_to(dst)",
        "                            if True:\n                                # fileish.unlink(missing_ok=True) > py3.7\n                                if fileish.exists():\n                                    fileish.unlink()\n                                fileish.symlink_to(dst)"),
    "regular file: CRC compare only when callback queue given": (
        "                            if f.crc32 is not None and crc32 != f.crc32:\n                                raise CrcError(crc32, f.crc32, f.filename)\n                        except CrcError:",
        "                            if q is not None and f.crc32 is not None and crc32 != f.crc32:\n                                raise CrcError(crc32, f.crc32, f.filename)\n                        except CrcError:"),
    "continue before registering None": (
        "                if member_name not in targets:\n                    unwanted.add(f.id)\n                    continue\n",
        "                if member_name not in targets:\n                    continue\n"),
})
for _w in WITNESSES:
    if _w["name"] in _REANCHOR:
        _w["old"], _w["new"] = _REANCHOR[_w["name"]]
_REANCHOR.update({
    # round-4 fixes moved these anchors (write_pieces, `except Exception`, the check under `not emptystream`, normpath before the climb)
    "archive write of the pre-chain block": (
        "            foutsize += len(data)\n            write_pieces(fp, data)\n            data = fd.read(self._block_size)\n",
        "            foutsize += len(data)\n            write_pieces(fp, raw)\n            data = fd.read(self._block_size)\n"),
    "regular file: CRC compare only when callback queue given": (
        "                            if f.crc32 is not None and crc32 != f.crc32:\n                                raise CrcError(crc32, f.crc32, f.filename)\n                        except Exception:",
        "                            if q is not None and f.crc32 is not None and crc32 != f.crc32:\n                                raise CrcError(crc32, f.crc32, f.filename)\n                        except Exception:"),
    "just_check not cleared": (
        "                    self._check(fp, just_check, src_end)\n                    just_check = []\n",
        "                    self._check(fp, just_check, src_end)\n"),
    "delayed check moved after the delivering branch": (
        "                    self._check(fp, just_check, src_end)\n                    just_check = []\n                    if f.is_junction and not isinstance(fileish, MemIO) and sys.platform == \"win32\":",
        "                    if f.is_junction and not isinstance(fileish, MemIO) and sys.platform == \"win32\":"),
    "sanitiser returns before the isabs test": (
        "        if os.path.isabs(path) or re.match(\"^[a-zA-Z]:\", path):\n            # Path is absolute even after stripping.\n            raise AbsolutePathError(arcname)\n        # what is left",
        "        # what is left"),
})
for _w in WITNESSES:
    if _w["name"] in _REANCHOR:
        _w["old"], _w["new"] = _REANCHOR[_w["name"]]
_REANCHOR.update({
    # round-7 fixes moved these anchors (identity test in the link arm, queued failures with positions, compound name gates)
    "symlink created without is_path_valid": (
        "                            if is_path_contained(fileish.parent.joinpath(dst), path):\n                                if self.own_stats and os.path.lexists(fileish):",
        "                            if True:\n                                if self.own_stats and os.path.lexists(fileish):"),
    "re-raise dropped": (
        "                        position, exc_info = min(failures, key=lambda failure: failure[0])\n                        raise exc_info[1].with_traceback(exc_info[2])\n",
        "                        position, exc_info = min(failures, key=lambda failure: failure[0])\n"),
    "writef without the gate": (
        "        if not check_archive_path(arcname) or names_the_root(arcname):\n            raise ValueError(f\"Specified path is bad: {arcname}\")\n        return self._writef(bio, arcname)\n",
        "        return self._writef(bio, arcname)\n"),
    "gate raises only a warning": (
        "        if not check_archive_path(arcname) or names_the_root(arcname):\n            raise ValueError(f\"Specified path is bad: {arcname}\")\n        return self._writestr(data, arcname)\n",
        "        if not check_archive_path(arcname) or names_the_root(arcname):\n            pass\n        return self._writestr(data, arcname)\n"),
})
for _w in WITNESSES:
    if _w["name"] in _REANCHOR:
        _w["old"], _w["new"] = _REANCHOR[_w["name"]]
