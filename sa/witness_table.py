"""Seeded breakages (see DESIGN.md appendix B). old/new are exact source fragments of the current /repo tree."""
WITNESSES = []


def W(prop, name, file, old, new, expect):
    WITNESSES.append({"property": prop, "name": name, "file": file, "old": old, "new": new, "expect": expect})
