"""Constant evaluation of *source expressions* (module/class level constants, literals, bit arithmetic).

This evaluates literals and operator expressions written in the source; it never imports or runs
py7zr.  Names of the standard library that are plain constants (`lzma.FILTER_*`, `stat.S_IF*`,
`stat.FILE_ATTRIBUTE_*`, `os.SEEK_*`, `errno.E*`) are looked up in the real stdlib modules.
"""
from __future__ import annotations

import ast
import binascii
import errno
import lzma
import operator
import os
import stat
import struct
from typing import Any, Dict, Optional

from .model import Program, AnalysisError


class NotConst(Exception):
    pass


class EnumVal:
    def __init__(self, cls: str, name: str):
        self.cls, self.name = cls, name

    def __eq__(self, o):
        return isinstance(o, EnumVal) and (o.cls, o.name) == (self.cls, self.name)

    def __hash__(self):
        return hash((self.cls, self.name))

    def __repr__(self):
        return f"{self.cls}.{self.name}"


class ClassRef:
    """A reference to a class (package class or external dotted name) appearing in a constant table."""

    def __init__(self, name: str, external: bool = False):
        self.name, self.external = name, external

    def __repr__(self):
        return f"<class {self.name}>"

    def __eq__(self, o):
        return isinstance(o, ClassRef) and o.name == self.name

    def __hash__(self):
        return hash(self.name)


STDLIB_CONST_MODULES = {"lzma": lzma, "stat": stat, "errno": errno, "os": os}
# FILE_ATTRIBUTE_* exist in stat on every platform since 3.5
BINOPS = {
    ast.Add: operator.add, ast.Sub: operator.sub, ast.Mult: operator.mul, ast.FloorDiv: operator.floordiv,
    ast.Mod: operator.mod, ast.LShift: operator.lshift, ast.RShift: operator.rshift, ast.BitOr: operator.or_,
    ast.BitAnd: operator.and_, ast.BitXor: operator.xor, ast.Pow: operator.pow, ast.Div: operator.truediv,
}
UNOPS = {ast.USub: operator.neg, ast.Invert: operator.invert, ast.Not: operator.not_, ast.UAdd: operator.pos}


class ConstEval:
    def __init__(self, prog: Program):
        self.prog = prog
        self._memo: Dict[tuple, Any] = {}
        self._busy = set()

    # -------------------------------------------------------- public
    def module_const(self, module: str, name: str) -> Any:
        key = ("m", module, name)
        if key in self._memo:
            return self._memo[key]
        if key in self._busy:
            raise NotConst(f"cyclic constant {module}.{name}")
        self._busy.add(key)
        try:
            m = self.prog.module(module)
            # a class or function name?
            if name in m.classes:
                v: Any = ClassRef(name)
            else:
                expr = self._module_binding(m, name)
                if expr is None:
                    tgt = m.imports.get(name)
                    if tgt is None:
                        raise NotConst(f"{module}.{name} is not bound at module level")
                    v = self._import_target(tgt, name)
                else:
                    v = self.eval(expr, module)
            self._memo[key] = v
            return v
        finally:
            self._busy.discard(key)

    def class_const(self, clsname: str, attr: str) -> Any:
        key = ("c", clsname, attr)
        if key in self._memo:
            return self._memo[key]
        c = self.prog.cls(clsname)
        for k in self.prog.mro(c):
            for st in k.node.body:
                tgt, val = _binding(st)
                if tgt == attr and val is not None:
                    if any("Enum" in b for b in k.bases):
                        v: Any = EnumVal(k.name, attr)
                    else:
                        v = self.eval(val, k.module, cls=k.name)
                    self._memo[key] = v
                    return v
        raise NotConst(f"{clsname}.{attr} is not a class-level constant")

    def eval(self, e: ast.AST, module: str, cls: Optional[str] = None, env: Optional[Dict[str, Any]] = None) -> Any:
        ev = lambda x: self.eval(x, module, cls, env)  # noqa: E731
        if isinstance(e, ast.Constant):
            return e.value
        if isinstance(e, ast.Name):
            if env is not None and e.id in env:
                return env[e.id]
            if cls is not None:
                try:
                    return self.class_const(cls, e.id)
                except NotConst:
                    pass
            if e.id in ("True", "False", "None"):
                return {"True": True, "False": False, "None": None}[e.id]
            return self.module_const(module, e.id)
        if isinstance(e, ast.Attribute):
            base = e.value
            # stdlib constant: lzma.FILTER_X86, stat.S_IFDIR ...
            if isinstance(base, ast.Name):
                m = self.prog.module(module)
                target = m.imports.get(base.id)
                if target in STDLIB_CONST_MODULES and not (env and base.id in env):
                    mod = STDLIB_CONST_MODULES[target]
                    if hasattr(mod, e.attr) and isinstance(getattr(mod, e.attr), (int, str, bytes)):
                        return getattr(mod, e.attr)
                    raise NotConst(f"{target}.{e.attr}")
            bv = ev(base)
            if isinstance(bv, ClassRef) and not bv.external:
                return self.class_const(bv.name, e.attr)
            if isinstance(bv, ClassRef) and bv.external:
                return ClassRef(f"{bv.name}.{e.attr}", external=True)
            if isinstance(bv, _Instance):
                return self.class_const(bv.cls, e.attr)
            raise NotConst(f"attribute {e.attr} of {bv!r}")
        if isinstance(e, ast.BinOp) and type(e.op) in BINOPS:
            return BINOPS[type(e.op)](ev(e.left), ev(e.right))
        if isinstance(e, ast.UnaryOp) and type(e.op) in UNOPS:
            return UNOPS[type(e.op)](ev(e.operand))
        if isinstance(e, ast.BoolOp):
            vals = [ev(v) for v in e.values]
            if isinstance(e.op, ast.And):
                r = True
                for v in vals:
                    r = r and v
                return r
            r = False
            for v in vals:
                r = r or v
            return r
        if isinstance(e, (ast.Tuple, ast.List)):
            vals = [ev(x) for x in e.elts]
            return tuple(vals) if isinstance(e, ast.Tuple) else vals
        if isinstance(e, ast.Set):
            return {ev(x) for x in e.elts}
        if isinstance(e, ast.Dict):
            return {ev(k): ev(v) for k, v in zip(e.keys, e.values)}
        if isinstance(e, ast.Subscript):
            v = ev(e.value)
            if isinstance(e.slice, ast.Slice):
                lo = ev(e.slice.lower) if e.slice.lower else None
                hi = ev(e.slice.upper) if e.slice.upper else None
                return v[lo:hi]
            return v[ev(e.slice)]
        if isinstance(e, ast.Compare) and len(e.ops) == 1:
            l, r = ev(e.left), ev(e.comparators[0])
            op = e.ops[0]
            table = {ast.Eq: operator.eq, ast.NotEq: operator.ne, ast.Lt: operator.lt, ast.LtE: operator.le,
                     ast.Gt: operator.gt, ast.GtE: operator.ge}
            if type(op) in table:
                return table[type(op)](l, r)
            if isinstance(op, ast.In):
                return l in r
            if isinstance(op, ast.NotIn):
                return l not in r
            raise NotConst("compare")
        if isinstance(e, ast.Call):
            return self._call(e, module, cls, env)
        raise NotConst(type(e).__name__)

    # -------------------------------------------------------- helpers
    def _call(self, e: ast.Call, module: str, cls, env) -> Any:
        ev = lambda x: self.eval(x, module, cls, env)  # noqa: E731
        f = e.func
        name = None
        if isinstance(f, ast.Name):
            name = f.id
        elif isinstance(f, ast.Attribute):
            name = f.attr
        m = self.prog.module(module)
        full = None
        if isinstance(f, ast.Name):
            full = m.imports.get(f.id, f.id)
        elif isinstance(f, ast.Attribute) and isinstance(f.value, ast.Name):
            full = m.imports.get(f.value.id, f.value.id) + "." + f.attr
        if full in ("binascii.unhexlify", "unhexlify", ".unhexlify") or (full or "").endswith("binascii.unhexlify"):
            return binascii.unhexlify(ev(e.args[0]))
        if full in ("struct.calcsize",) or (full or "").endswith("struct.calcsize"):
            return struct.calcsize(ev(e.args[0]))
        if name in ("calculate_crc32", "crc32") and e.args and len(e.args) <= 2 and not e.keywords:
            import zlib
            vals = [ev(a) for a in e.args]
            if isinstance(vals[0], (bytes, bytearray)) and all(isinstance(v, int) for v in vals[1:]):
                return zlib.crc32(bytes(vals[0]), *vals[1:]) & 0xFFFFFFFF
            raise NotConst("crc32 of non-bytes")
        if full in ("struct.pack", "pack") or (full or "").endswith("struct.pack"):
            return struct.pack(*[ev(a) for a in e.args])
        if isinstance(f, ast.Name) and f.id in ("bytes", "int", "len", "tuple", "list", "min", "max", "sum", "bool", "str", "set", "frozenset") and not e.keywords:
            return {"bytes": bytes, "int": int, "len": len, "tuple": tuple, "list": list, "min": min, "max": max,
                    "sum": sum, "bool": bool, "str": str, "set": set, "frozenset": frozenset}[f.id](*[ev(a) for a in e.args])
        if isinstance(f, ast.Name) and f.id == "getattr" and len(e.args) >= 2:
            base = e.args[0]
            attr = ev(e.args[1])
            if isinstance(base, ast.Name) and m.imports.get(base.id) in STDLIB_CONST_MODULES:
                mod = STDLIB_CONST_MODULES[m.imports[base.id]]
                if hasattr(mod, attr):
                    return getattr(mod, attr)
            raise NotConst("getattr")
        if isinstance(f, ast.Attribute) and f.attr == "to_bytes":
            v = ev(f.value)
            args = [ev(a) for a in e.args]
            kw = {k.arg: ev(k.value) for k in e.keywords}
            return v.to_bytes(*args, **kw)
        # a pure package helper whose body is a single `return <expr>` (e.g. bits_to_bytes): inline it
        if isinstance(f, ast.Name) and not e.keywords:
            g = self.prog.modules[module].funcs.get(f.id)
            if g is None:
                tgt = m.imports.get(f.id, "")
                parts = tgt.lstrip(".").split(".")
                if len(parts) >= 2 and parts[-2] in self.prog.modules:
                    g = self.prog.modules[parts[-2]].funcs.get(parts[-1])
            if g is not None:
                body = [s_ for s_ in g.node.body if not (isinstance(s_, ast.Expr) and isinstance(s_.value, ast.Constant))]
                if len(body) == 1 and isinstance(body[0], ast.Return) and body[0].value is not None and len(g.params) == len(e.args):
                    inner = {p: ev(a) for p, a in zip(g.params, e.args)}
                    return self.eval(body[0].value, g.module, None, inner)
        # instantiation of a package "constant holder" class: PROPERTY = Property()
        if isinstance(f, ast.Name) and not e.args and not e.keywords:
            try:
                v = self.module_const(module, f.id)
            except NotConst:
                v = None
            if isinstance(v, ClassRef) and not v.external:
                return _Instance(v.name)
        raise NotConst(f"call {name}")

    def _module_binding(self, m, name: str) -> Optional[ast.AST]:
        found = None
        for st in _flat_module_stmts(m.tree.body):
            tgt, val = _binding(st)
            if tgt == name and val is not None:
                found = val
        return found

    def _import_target(self, dotted: str, name: str) -> Any:
        # from py7zr.properties import FILTER_X86  /  from .properties import X
        parts = dotted.lstrip(".").split(".")
        if parts[0] == "py7zr" and len(parts) >= 3:
            return self.module_const(parts[1], parts[2])
        if dotted.startswith(".") and len(parts) == 2 and parts[0] in self.prog.modules:
            return self.module_const(parts[0], parts[1])
        if parts[0] == "py7zr" and len(parts) == 2:
            # from py7zr import Bad7zFile -> re-exported by __init__
            for mod in self.prog.modules.values():
                if parts[1] in mod.classes:
                    return ClassRef(parts[1])
            raise NotConst(dotted)
        if parts[0] in STDLIB_CONST_MODULES and len(parts) == 2:
            mod = STDLIB_CONST_MODULES[parts[0]]
            if hasattr(mod, parts[1]):
                return getattr(mod, parts[1])
        if len(parts) == 1:
            return ClassRef(dotted, external=True)  # a module
        return ClassRef(dotted, external=True)


class _Instance:
    def __init__(self, cls: str):
        self.cls = cls

    def __repr__(self):
        return f"<instance of {self.cls}>"


def _binding(st: ast.stmt):
    if isinstance(st, ast.Assign) and len(st.targets) == 1 and isinstance(st.targets[0], ast.Name):
        return st.targets[0].id, st.value
    if isinstance(st, ast.AnnAssign) and isinstance(st.target, ast.Name):
        return st.target.id, st.value
    return None, None


def _flat_module_stmts(body):
    for st in body:
        yield st
        if isinstance(st, ast.If):
            # module-level `if` (platform switches): both arms are visited; later bindings win
            yield from _flat_module_stmts(st.body)
            yield from _flat_module_stmts(st.orelse)
        elif isinstance(st, ast.Try):
            yield from _flat_module_stmts(st.body)


def must_const(ce: ConstEval, fn, *a, **k):
    try:
        return fn(*a, **k)
    except NotConst as e:
        raise AnalysisError(f"constant table not evaluable: {e}")
