"""Length domain: byte accounting of the header record writers.

A bytes quantity is abstracted by a linear form over atoms:
  1            constant
  "N"          len(self.files)
  "m<k>"       a multiplicity symbol: number of elements of a loop for which a recognised predicate held
  ("ceil8",s)  ceil(s/8) for a symbol s
  ("S16", s)   sum of len(x.encode('utf-16LE')) over the s selected elements
Path-sensitive abstract interpretation of one small function (branches are enumerated, loops are summarised by
multiplicities); nothing is executed and no path condition is solved.  The all-defined case split (every flag of the
vector true <=> multiplicity symbol == vector length) is the only relational fact used.
"""
from __future__ import annotations

import ast
import copy
from dataclasses import dataclass, field
from typing import Dict, List, Optional, Tuple, Union

from .model import AnalysisError, Func, attr_tail, dotted, norm

Atom = Union[int, str, tuple]


class Len:
    def __init__(self, terms: Optional[Dict[Atom, int]] = None):
        self.t: Dict[Atom, int] = {k: v for k, v in (terms or {}).items() if v != 0}

    @staticmethod
    def const(c: int) -> "Len":
        return Len({1: c})

    @staticmethod
    def sym(s: Atom) -> "Len":
        return Len({s: 1})

    def __add__(self, o: "Len") -> "Len":
        d = dict(self.t)
        for k, v in o.t.items():
            d[k] = d.get(k, 0) + v
        return Len(d)

    def __sub__(self, o: "Len") -> "Len":
        return self + o.scale(-1)

    def scale(self, c: int) -> "Len":
        return Len({k: v * c for k, v in self.t.items()})

    def mul(self, o: "Len") -> "Len":
        """product where at least one side is a constant or a plain symbol times constant terms."""
        if set(self.t) <= {1}:
            return o.scale(self.t.get(1, 0))
        if set(o.t) <= {1}:
            return self.scale(o.t.get(1, 0))
        raise AnalysisError("non-linear length expression")

    def subst(self, a: Atom, b: Atom) -> "Len":
        d: Dict[Atom, int] = {}
        for k, v in self.t.items():
            k2 = k
            if k == a:
                k2 = b
            elif isinstance(k, tuple) and len(k) == 2 and k[1] == a:
                k2 = (k[0], b)
            d[k2] = d.get(k2, 0) + v
        return Len(d)

    def is_const(self) -> bool:
        return set(self.t) <= {1}

    def __eq__(self, o) -> bool:
        return isinstance(o, Len) and self.t == o.t

    def __repr__(self) -> str:
        if not self.t:
            return "0"
        parts = []
        for k, v in sorted(self.t.items(), key=lambda kv: str(kv[0])):
            name = "" if k == 1 else (f"{k[0]}({k[1]})" if isinstance(k, tuple) else str(k))
            parts.append(f"{v}" if k == 1 else (f"{name}" if v == 1 else f"{v}*{name}"))
        return " + ".join(parts)

    def eval(self, val: Dict[str, int], s16: int = 6) -> int:
        tot = 0
        for k, v in self.t.items():
            if k == 1:
                tot += v
            elif isinstance(k, tuple) and k[0] == "ceil8":
                tot += v * (-(-val[k[1]] // 8))
            elif isinstance(k, tuple) and k[0] == "S16":
                tot += v * 8 * val[k[1]]  # e.g. one astral + two BMP characters per name
            elif isinstance(k, tuple) and k[0] == "CHARS":
                tot += v * 3 * val[k[1]]
            else:
                tot += v * val[k]
        return tot


@dataclass
class Vec:
    length: Len
    trues: Optional[Len] = None  # number of True entries when known
    sel: Optional[str] = None  # multiplicity symbol of the elements (for lists of selected items)


@dataclass
class State:
    env: Dict[str, object] = field(default_factory=dict)
    emitted: Len = field(default_factory=Len)
    declared: Optional[Len] = None
    started: bool = False
    alldef: Dict[str, bool] = field(default_factory=dict)  # vector name -> case chosen
    trace: List[str] = field(default_factory=list)
    done: bool = False

    def fork(self) -> "State":
        return copy.deepcopy(self)


PRIM_WIDTH = {"write_byte": 1, "write_uint32": 4, "write_real_uint64": 8}
SIZED_PROPERTIES = {"EMPTY_STREAM", "EMPTY_FILE", "ANTI", "NAME", "CREATION_TIME", "LAST_ACCESS_TIME", "LAST_WRITE_TIME", "ATTRIBUTES",
                    "START_POS", "DUMMY", "COMMENT"}


class RecordAnalyzer:
    """abstractly executes a record-writer function and returns, per path, (declared, emitted) after the size field."""

    def __init__(self, f: Func, nfiles_names=("self.files",), start_after_size: bool = True):
        self.f = f
        self.msyms = 0
        self.files_expr = set(nfiles_names)
        self.results: List[State] = []
        self.partials: List[State] = []

    def new_sym(self) -> str:
        self.msyms += 1
        return f"m{self.msyms}"

    # ------------------------------------------------------------ expressions
    def length_of(self, e: ast.AST, st: State) -> Optional[Len]:
        if isinstance(e, ast.Name):
            v = st.env.get(e.id)
            if isinstance(v, Vec):
                return v.length
            return None
        if norm(e) in self.files_expr:
            return Len.sym("N")
        if isinstance(e, ast.Call) and dotted(e.func) == "enumerate" and e.args:
            return self.length_of(e.args[0], st)
        if isinstance(e, ast.Call) and dotted(e.func) == "zip" and e.args:
            ls = [self.length_of(a, st) for a in e.args]
            if all(l is not None for l in ls) and all(l == ls[0] for l in ls):
                return ls[0]
        return None

    def value(self, e: ast.AST, st: State, per_elem_sym: Optional[str] = None) -> Optional[Len]:
        if isinstance(e, ast.Constant) and isinstance(e.value, int) and not isinstance(e.value, bool):
            return Len.const(e.value)
        if isinstance(e, ast.Name):
            v = st.env.get(e.id)
            return v if isinstance(v, Len) else None
        if isinstance(e, ast.BinOp):
            l, r = self.value(e.left, st, per_elem_sym), self.value(e.right, st, per_elem_sym)
            if l is None or r is None:
                return None
            if isinstance(e.op, ast.Add):
                return l + r
            if isinstance(e.op, ast.Sub):
                return l - r
            if isinstance(e.op, ast.Mult):
                return l.mul(r)
            return None
        if isinstance(e, ast.Call):
            nm = dotted(e.func)
            if nm == "len" and e.args:
                inner = e.args[0]
                ln = self.length_of(inner, st)
                if ln is not None:
                    return ln
                # len(x.encode('utf-16LE')) of the current element
                if isinstance(inner, ast.Call) and attr_tail(inner) == "encode" and inner.args and isinstance(inner.args[0], ast.Constant) \
                        and str(inner.args[0].value).lower().replace("_", "-") == "utf-16le":
                    return Len.sym(("S16", "@elem"))
                # length (in characters / items) of some per-element value
                return Len.sym(("CHARS", "@elem"))
            if nm == "bits_to_bytes" and e.args:
                inner = self.value(e.args[0], st, per_elem_sym)
                if inner is not None and len(inner.t) == 1:
                    (k, c), = inner.t.items()
                    if c == 1 and isinstance(k, str):
                        return Len.sym(("ceil8", k))
                return None
        return None

    # ------------------------------------------------------------ statements
    def run(self) -> List[State]:
        st = State()
        self.exec_block(self.f.node.body, [st])
        return self.results

    def exec_block(self, body: List[ast.stmt], states: List[State]) -> List[State]:
        for s in body:
            nxt: List[State] = []
            for st in states:
                if st.done:
                    nxt.append(st)
                    continue
                nxt += self.exec_stmt(s, st)
            states = nxt
        if body is self.f.node.body:
            self.results = states
        return states

    def all_defined_test(self, cond: ast.AST, st: State) -> Optional[Tuple[str, bool]]:
        """(vector name, truth value of cond in the all-defined case)."""
        if isinstance(cond, ast.UnaryOp) and isinstance(cond.op, ast.Not):
            r = self.all_defined_test(cond.operand, st)
            return (r[0], not r[1]) if r else None
        if isinstance(cond, ast.Call) and dotted(cond.func) in ("reduce", "functools.reduce") and len(cond.args) >= 2 \
                and norm(cond.args[0]) in ("and_", "operator.and_") and isinstance(cond.args[1], ast.Name) and isinstance(st.env.get(cond.args[1].id), Vec):
            return cond.args[1].id, True
        if isinstance(cond, ast.Call) and dotted(cond.func) == "all" and cond.args and isinstance(cond.args[0], ast.Name) and isinstance(st.env.get(cond.args[0].id), Vec):
            return cond.args[0].id, True
        if isinstance(cond, ast.Compare) and len(cond.ops) == 1 and isinstance(cond.ops[0], (ast.Eq, ast.NotEq)):
            l, r = cond.left, cond.comparators[0]
            for a, b in ((l, r), (r, l)):
                if isinstance(b, ast.Call) and dotted(b.func) == "len" and b.args and isinstance(b.args[0], ast.Name) and isinstance(st.env.get(b.args[0].id), Vec):
                    vec = st.env[b.args[0].id]
                    av = self.value(a, st)
                    if av is not None and vec.trues is not None and av == vec.trues:
                        return b.args[0].id, isinstance(cond.ops[0], ast.Eq)
        return None

    def exec_stmt(self, s: ast.stmt, st: State) -> List[State]:
        if isinstance(s, ast.Assign) and len(s.targets) == 1 and isinstance(s.targets[0], ast.Name):
            name = s.targets[0].id
            if isinstance(s.value, ast.List) and not s.value.elts:
                st.env[name] = Vec(Len())
            elif isinstance(s.value, ast.ListComp) and len(s.value.generators) == 1 and self.length_of(s.value.generators[0].iter, st) is not None \
                    and not s.value.generators[0].ifs:
                # one flag/value per element of the iterated sequence; the number of true flags is a fresh multiplicity
                ln = self.length_of(s.value.generators[0].iter, st)
                is_flag = isinstance(s.value.elt, (ast.Compare, ast.BoolOp, ast.UnaryOp))
                st.env[name] = Vec(ln, trues=Len.sym(self.new_sym()) if is_flag else None)
            elif isinstance(s.value, ast.ListComp) and len(s.value.generators) == 1 and self.length_of(s.value.generators[0].iter, st) is not None \
                    and s.value.generators[0].ifs:
                # a selection: one entry per element that passes the filter; its length is a fresh multiplicity (<= the source length)
                is_flag = isinstance(s.value.elt, (ast.Compare, ast.BoolOp, ast.UnaryOp)) or (isinstance(s.value.elt, ast.Call) and dotted(s.value.elt.func) == "bool")
                st.env[name] = Vec(Len.sym(self.new_sym()), trues=Len.sym(self.new_sym()) if is_flag else None)
            elif isinstance(s.value, ast.Call) and attr_tail(s.value) == "count" and isinstance(s.value.func.value, ast.Name) \
                    and isinstance(st.env.get(s.value.func.value.id), Vec) and s.value.args and isinstance(s.value.args[0], ast.Constant) and s.value.args[0].value is True \
                    and st.env[s.value.func.value.id].trues is not None:
                st.env[name] = st.env[s.value.func.value.id].trues
            else:
                v = self.value(s.value, st)
                st.env[name] = v if v is not None else ("opaque", norm(s.value))
                if norm(s.value) == "len(self.files)":
                    st.env[name] = Len.sym("N")
            return [st]
        if isinstance(s, ast.AnnAssign) and isinstance(s.target, ast.Name) and s.value is not None:
            return self.exec_stmt(ast.Assign(targets=[s.target], value=s.value), st)
        if isinstance(s, ast.AugAssign) and isinstance(s.target, ast.Name) and isinstance(s.op, (ast.Add, ast.Sub)):
            cur = st.env.get(s.target.id)
            v = self.value(s.value, st)
            if isinstance(cur, Len) and v is not None:
                st.env[s.target.id] = cur + v if isinstance(s.op, ast.Add) else cur - v
            else:
                st.env[s.target.id] = ("opaque", "aug")
            return [st]
        if isinstance(s, ast.Expr) and isinstance(s.value, ast.Call):
            return self.exec_call(s.value, st)
        if isinstance(s, ast.If):
            ad = self.all_defined_test(s.test, st)
            if ad is not None:
                vec, truth_when_all = ad
                outs: List[State] = []
                for case in (True, False):
                    if vec in st.alldef and st.alldef[vec] != case:
                        continue
                    s2 = st.fork()
                    s2.alldef[vec] = case
                    taken = s.body if (truth_when_all == case) else s.orelse
                    outs += self.exec_block(taken, [s2])
                return outs
            outs = []
            for br, lab in ((s.body, "T"), (s.orelse, "F")):
                s2 = st.fork()
                s2.trace.append(f"{norm(s.test)}={lab}")
                outs += self.exec_block(br, [s2])
            return outs
        if isinstance(s, ast.For):
            return self.exec_loop(s, st)
        if isinstance(s, ast.Return):
            st.done = True
            return [st]
        if isinstance(s, (ast.Pass, ast.Assert)):
            return [st]
        if isinstance(s, ast.Expr):
            return [st]
        raise AnalysisError(f"length domain: unrecognised statement `{norm(s)}` in {self.f.qname}")

    def emit(self, st: State, amount: Len) -> None:
        if st.started:
            st.emitted = st.emitted + amount

    def exec_call(self, c: ast.Call, st: State, mult: Optional[Len] = None, elem_sel: Optional[str] = None) -> List[State]:
        tail = attr_tail(c)
        one = mult if mult is not None else Len.const(1)
        if tail in PRIM_WIDTH:
            # a record starts at write_byte(file, <PROPERTY id>): close the previous one and reset accounting
            is_pid = tail == "write_byte" and len(c.args) > 1 and (
                (isinstance(c.args[1], ast.Attribute) and "PROPERTY" in norm(c.args[1])) or
                (isinstance(c.args[1], ast.Name) and c.args[1].id in self.f.params))
            if is_pid and mult is None:
                if st.started and st.declared is not None:
                    self.results_partial(st)
                st.started = False
                st.declared = None
                st.emitted = Len()
                pid = c.args[1].attr if isinstance(c.args[1], ast.Attribute) else c.args[1].id
                st.env["@record"] = ("opaque", pid)
                st.env["@sized"] = ("opaque", "yes" if (pid in SIZED_PROPERTIES or isinstance(c.args[1], ast.Name)) else "no")
                return [st]
            # DUMMY: the size is a single byte written with write_byte(<expr>.to_bytes(1, ...))
            if tail == "write_byte" and mult is None and not st.started and st.env.get("@sized") == ("opaque", "yes") and len(c.args) > 1 \
                    and isinstance(c.args[1], ast.Call) and attr_tail(c.args[1]) == "to_bytes":
                st.declared = Len.sym(("expr", norm(c.args[1].func.value).strip("()")))
                st.started = True
                st.emitted = Len()
                return [st]
            self.emit(st, one.scale(PRIM_WIDTH[tail]))
            return [st]
        if tail == "write_uint64" and len(c.args) > 1 and mult is None and not st.started and st.env.get("@sized") == ("opaque", "yes"):
            v = self.value(c.args[1], st)
            if v is None:
                raise AnalysisError(f"length domain: size expression `{norm(c.args[1])}` not linear in {self.f.qname}")
            st.declared = v
            st.started = True
            st.emitted = Len()
            return [st]
        if tail == "write_boolean" and len(c.args) > 1 and isinstance(c.args[1], ast.Name) and isinstance(st.env.get(c.args[1].id), Vec):
            vec: Vec = st.env[c.args[1].id]
            ad = next((k.value for k in c.keywords if k.arg == "all_defined"), c.args[2] if len(c.args) > 2 else None)
            flag = isinstance(ad, ast.Constant) and ad.value is True
            nbytes = self._ceil8(vec.length)
            if not flag:
                self.emit(st, nbytes)
                return [st]
            outs = []
            for case in (True, False):
                name = c.args[1].id
                if name in st.alldef and st.alldef[name] != case:
                    continue
                s2 = st.fork()
                s2.alldef[name] = case
                self.emit(s2, Len.const(1) if case else Len.const(1) + nbytes)
                outs.append(s2)
            return outs
        if tail == "write_utf16" and len(c.args) > 1:
            sel = elem_sel or "@one"
            self.emit(st, Len.sym(("S16", sel)) + (one.scale(2)))
            return [st]
        if tail == "write_bytes" and len(c.args) > 1:
            a = c.args[1]
            if isinstance(a, ast.Call) and dotted(a.func) == "bytes" and a.args:
                st.env["@bytes_arg"] = ("opaque", norm(a.args[0]))
                self.emit(st, Len.sym(("expr", norm(a.args[0]))))
                return [st]
            raise AnalysisError(f"length domain: write_bytes of `{norm(a)}`")
        if tail in ("append",):
            return [st]
        return [st]

    def _ceil8(self, l: Len) -> Len:
        if len(l.t) == 1:
            (k, cfc), = l.t.items()
            if cfc == 1 and isinstance(k, str):
                return Len.sym(("ceil8", k))
        if not l.t:
            return Len()
        raise AnalysisError(f"ceil8 of non-atomic length {l}")

    def results_partial(self, st: State) -> None:
        snap = st.fork()
        self.partials.append(snap)

    # ------------------------------------------------------------ loops
    def exec_loop(self, loop: ast.For, st: State) -> List[State]:
        L = self.length_of(loop.iter, st)
        if L is None:
            raise AnalysisError(f"length domain: loop over `{norm(loop.iter)}` has unknown length in {self.f.qname}")
        it = loop.iter
        src = it.args[0] if isinstance(it, ast.Call) and dotted(it.func) == "enumerate" and it.args else it
        src_vec = st.env.get(src.id) if isinstance(src, ast.Name) else None
        elem_sel = src_vec.sel if isinstance(src_vec, Vec) else None
        idx = loop.target.elts[0].id if isinstance(loop.target, ast.Tuple) and isinstance(loop.target.elts[0], ast.Name) else None
        # for flag, item in zip(vector, items): the loop variable bound to a flag vector stands for vector[i]
        self._flagvars = {}
        if isinstance(it, ast.Call) and dotted(it.func) == "zip" and isinstance(loop.target, ast.Tuple):
            for t, a in zip(loop.target.elts, it.args):
                if isinstance(t, ast.Name) and isinstance(a, ast.Name) and isinstance(st.env.get(a.id), Vec) and st.env[a.id].trues is not None:
                    self._flagvars[t.id] = a.id
        self._loop_body(loop.body, st, L, idx, elem_sel, sel_sym=None)
        return [st]

    def _loop_body(self, body: List[ast.stmt], st: State, mult: Len, idx: Optional[str], elem_sel: Optional[str], sel_sym: Optional[str]) -> Len:
        """applies the effects of `body` executed `mult` times; returns the multiplicity that falls through (not `continue`d)."""
        remaining = mult
        for s in body:
            if isinstance(s, ast.If):
                # predicate multiplicity
                t = s.test
                m_true: Optional[Len] = None
                new_sym = None
                if isinstance(t, ast.Subscript) and isinstance(t.value, ast.Name) and isinstance(st.env.get(t.value.id), Vec) \
                        and isinstance(t.slice, ast.Name) and t.slice.id == idx and st.env[t.value.id].trues is not None:
                    m_true = st.env[t.value.id].trues
                    if len(m_true.t) == 1:
                        new_sym = next(iter(m_true.t))
                elif isinstance(t, ast.Name) and t.id in getattr(self, "_flagvars", {}):
                    m_true = st.env[self._flagvars[t.id]].trues
                    if len(m_true.t) == 1:
                        new_sym = next(iter(m_true.t))
                else:
                    new_sym = self.new_sym()
                    m_true = Len.sym(new_sym)
                # nested ifs of the construction idiom: `if name in f.keys(): if f[name] is not None: ...` -> inner predicate refines
                fall_t = self._loop_body(s.body, st, m_true, idx, elem_sel, new_sym if isinstance(new_sym, str) else None)
                cont = any(isinstance(x, ast.Continue) for x in ast.walk(ast.Module(body=s.body, type_ignores=[])))
                m_false = remaining - m_true
                if s.orelse:
                    self._loop_body(s.orelse, st, m_false, idx, elem_sel, None)
                    remaining = remaining  # both arms rejoin
                else:
                    if cont:
                        # elements that reached a `continue` inside leave; fall_t of them rejoin
                        remaining = m_false + fall_t
                continue
            if isinstance(s, ast.Continue):
                return Len()
            if isinstance(s, ast.Pass):
                continue
            if isinstance(s, ast.AugAssign) and isinstance(s.target, ast.Name) and isinstance(s.op, ast.Add):
                cur = st.env.get(s.target.id)
                v = self.value(s.value, st)
                if isinstance(cur, Len) and v is not None:
                    # per-element S16 atoms are tied to the selecting symbol
                    sym = sel_sym or (next(iter(remaining.t)) if len(remaining.t) == 1 and isinstance(next(iter(remaining.t)), str) else None)
                    total = Len()
                    for k, cfc in v.t.items():
                        if isinstance(k, tuple) and k[1] == "@elem":
                            if sym is None:
                                raise AnalysisError("per-element length summed over an unnamed multiplicity")
                            total = total + Len({(k[0], sym): cfc})
                        elif k == 1:
                            total = total + remaining.scale(cfc)
                        else:
                            raise AnalysisError(f"non-constant per-iteration increment {v}")
                    st.env[s.target.id] = cur + total
                else:
                    st.env[s.target.id] = ("opaque", "aug-in-loop")
                continue
            if isinstance(s, ast.Expr) and isinstance(s.value, ast.Call):
                c = s.value
                if attr_tail(c) == "append" and isinstance(c.func.value, ast.Name):
                    name = c.func.value.id
                    vec = st.env.get(name)
                    if not isinstance(vec, Vec):
                        vec = Vec(Len())
                    vec.length = vec.length + remaining
                    a0 = c.args[0] if c.args else None
                    if isinstance(a0, ast.Constant) and a0.value is True:
                        vec.trues = (vec.trues or Len()) + remaining
                    elif isinstance(a0, ast.Constant) and a0.value is False:
                        vec.trues = vec.trues if vec.trues is not None else Len()
                    else:
                        vec.trues = None if vec.trues is None and not (isinstance(a0, ast.Constant)) else vec.trues
                        if len(remaining.t) == 1 and isinstance(next(iter(remaining.t)), str):
                            vec.sel = next(iter(remaining.t))
                    st.env[name] = vec
                    continue
                outs = self.exec_call(c, st, mult=remaining, elem_sel=elem_sel)
                if len(outs) != 1:
                    raise AnalysisError("forking emission inside a loop")
                continue
            if isinstance(s, ast.Assign):
                continue
            raise AnalysisError(f"length domain: unrecognised loop statement `{norm(s)}` in {self.f.qname}")
        return remaining


def compare_paths(states: List[State]) -> List[Tuple[State, Len, Len, Optional[Dict[str, int]]]]:
    """for every finished path with a declared size: (state, declared, emitted, witness-if-unequal)."""
    out = []
    for st in states:
        if st.declared is None:
            continue
        d, e = st.declared, st.emitted
        # all-defined case: every multiplicity symbol that equals a vector's true-count equals its length
        for vec, case in st.alldef.items():
            v = st.env.get(vec)
            if case and isinstance(v, Vec) and v.trues is not None and len(v.trues.t) == 1 and len(v.length.t) == 1:
                a, b = next(iter(v.trues.t)), next(iter(v.length.t))
                d, e = d.subst(a, b), e.subst(a, b)
        wit = None
        if d != e:
            syms = sorted({k if isinstance(k, str) else k[1] for k in list(d.t) + list(e.t) if k != 1 and not (isinstance(k, tuple) and k[0] == "expr")} - {"@one"})
            # smallest valuation (symbols <= 17, multiplicities <= N) on which the two forms differ
            import itertools
            for vals in itertools.product(range(0, 18), repeat=len(syms)):
                val = dict(zip(syms, vals))
                if "N" in val and any(val[s] > val["N"] for s in syms if s != "N"):
                    continue
                alldef_violated = False
                for vec, case in st.alldef.items():
                    v = st.env.get(vec)
                    if isinstance(v, Vec) and v.trues is not None and len(v.trues.t) == 1 and len(v.length.t) == 1:
                        a, b = next(iter(v.trues.t)), next(iter(v.length.t))
                        if a in val and b in val and ((val[a] == val[b]) != case):
                            alldef_violated = True
                if alldef_violated:
                    continue
                try:
                    if d.eval(val) != e.eval(val):
                        wit = val
                        break
                except KeyError:
                    break
        out.append((st, d, e, wit))
    return out
