"""Canonical spellings, applied to the parsed trees before anything is analysed (nothing is executed; positions are kept):
 1. `x = x + e` / `x = x - e` / `x = x >> e` ... (same simple target on both sides)  ->  `x += e` / `x -= e` / `x >>= e` ...
 2. a condition that is given a name in the statement right in front of its ONLY use (`done = d.is_finished()` / `if done and ...:`) is put back
    where it is used.
 3. a dispatch through a module-level dictionary with constant keys (`elif k in TABLE: f(TABLE[k])`) is written out as the chain of comparisons it
    stands for (`elif k == K1: f(V1) elif k == K2: f(V2) ...`, in the order of the literal).
All are spellings of one behaviour; the rules are written against the first form."""
from __future__ import annotations

import ast
import copy
from typing import List


def _same_target(t: ast.AST, v: ast.AST) -> bool:
    if isinstance(t, ast.Name) and isinstance(v, ast.Name):
        return t.id == v.id
    if isinstance(t, ast.Attribute) and isinstance(v, ast.Attribute):
        return t.attr == v.attr and _same_target(t.value, v.value)
    return False


def _boolish(v: ast.AST) -> bool:
    return isinstance(v, (ast.Compare, ast.BoolOp)) or (isinstance(v, ast.UnaryOp) and isinstance(v.op, ast.Not)) or (
        isinstance(v, ast.Call) and isinstance(v.func, ast.Attribute) and v.func.attr.startswith(("is_", "has_", "needs_", "check_")))


class _Chain(ast.NodeTransformer):
    """`len(x) > 0 and len(x) < b` (or `0 < len(x) and len(x) < b`)  ->  `0 < len(x) < b`"""
    def visit_BoolOp(self, n: ast.BoolOp):
        self.generic_visit(n)
        if isinstance(n.op, ast.And) and len(n.values) == 2 and all(isinstance(v, ast.Compare) and len(v.ops) == 1 for v in n.values):
            a, b = n.values
            lo = None
            if isinstance(a.ops[0], ast.Gt) and isinstance(a.comparators[0], ast.Constant):
                lo, x = a.comparators[0], a.left
            elif isinstance(a.ops[0], ast.Lt) and isinstance(a.left, ast.Constant):
                lo, x = a.left, a.comparators[0]
            if lo is not None and isinstance(b.ops[0], ast.Lt) and ast.dump(b.left) == ast.dump(x) and isinstance(x, ast.Call) and isinstance(x.func, ast.Name) and x.func.id == "len":
                return ast.copy_location(ast.Compare(left=lo, ops=[ast.Lt(), ast.Lt()], comparators=[x, b.comparators[0]]), n)
        return n


class _Aug(ast.NodeTransformer):
    def visit_Assign(self, n: ast.Assign):
        self.generic_visit(n)
        if len(n.targets) == 1 and isinstance(n.targets[0], (ast.Name, ast.Attribute)) and isinstance(n.value, ast.BinOp) and isinstance(n.value.op, (ast.Add, ast.Sub, ast.RShift, ast.LShift, ast.BitOr, ast.BitAnd, ast.Mult, ast.FloorDiv)) \
                and _same_target(n.targets[0], n.value.left) and isinstance(n.value.right, (ast.Constant, ast.Name, ast.Call, ast.Attribute)):
            return ast.copy_location(ast.AugAssign(target=n.targets[0], op=n.value.op, value=n.value.right), n)
        return n


def _inline_named_conditions(fn: ast.AST) -> None:
    loads = {}
    stores = {}
    for x in ast.walk(fn):
        if isinstance(x, ast.Name):
            d = loads if isinstance(x.ctx, ast.Load) else stores
            d[x.id] = d.get(x.id, 0) + 1
    for holder in ast.walk(fn):
        for fld in ("body", "orelse", "finalbody"):
            blk = getattr(holder, fld, None)
            if not (isinstance(blk, list) and blk and isinstance(blk[0], ast.stmt)):
                continue
            i = 0
            while i + 1 < len(blk):
                a, b = blk[i], blk[i + 1]
                if isinstance(a, ast.Assign) and len(a.targets) == 1 and isinstance(a.targets[0], ast.Name) and _boolish(a.value) \
                        and stores.get(a.targets[0].id) == 1 and loads.get(a.targets[0].id) == 1 and isinstance(b, (ast.If, ast.While)):
                    nm = a.targets[0].id
                    uses = [x for x in ast.walk(b.test) if isinstance(x, ast.Name) and x.id == nm]
                    # only as the FIRST thing the test evaluates: the order of evaluation stays what it was
                    first = b.test
                    while isinstance(first, ast.BoolOp):
                        first = first.values[0]
                    if isinstance(first, ast.UnaryOp) and isinstance(first.op, ast.Not):
                        first = first.operand
                    if len(uses) == 1 and uses[0] is first:
                        class Sub(ast.NodeTransformer):
                            def visit_Name(self, n):
                                return ast.copy_location(copy.deepcopy(a.value), n) if n is uses[0] else n
                        b.test = Sub().visit(b.test)
                        del blk[i]
                        continue
                i += 1


def _expand_dict_dispatch(tree: ast.Module) -> None:
    tables = {}
    for st in tree.body:
        tgt, val = None, None
        if isinstance(st, ast.Assign) and len(st.targets) == 1 and isinstance(st.targets[0], ast.Name):
            tgt, val = st.targets[0].id, st.value
        elif isinstance(st, ast.AnnAssign) and isinstance(st.target, ast.Name) and st.value is not None:
            tgt, val = st.target.id, st.value
        if tgt and isinstance(val, ast.Dict) and val.keys and all(isinstance(k, (ast.Attribute, ast.Constant)) for k in val.keys) \
                and all(isinstance(v, (ast.Constant, ast.Attribute, ast.Name)) for v in val.values):
            tables[tgt] = val
    if not tables:
        return
    stores = {x.id for x in ast.walk(tree) if isinstance(x, ast.Name) and isinstance(x.ctx, ast.Store)}

    def expand(node: ast.If) -> ast.If:
        t = node.test
        if not (isinstance(t, ast.Compare) and len(t.ops) == 1 and isinstance(t.ops[0], ast.In) and isinstance(t.left, ast.Name) and isinstance(t.comparators[0], ast.Name)
                and t.comparators[0].id in tables and list(x.id for x in ast.walk(tree) if isinstance(x, ast.Name) and isinstance(x.ctx, ast.Store)).count(t.comparators[0].id) == 1):
            return node
        d, var, dname = tables[t.comparators[0].id], t.left.id, t.comparators[0].id
        chain, tail = None, node.orelse
        for k, v in reversed(list(zip(d.keys, d.values))):
            class Sub(ast.NodeTransformer):
                def visit_Subscript(self, n):
                    self.generic_visit(n)
                    if isinstance(n.value, ast.Name) and n.value.id == dname and isinstance(n.slice, ast.Name) and n.slice.id == var:
                        return ast.copy_location(copy.deepcopy(v), n)
                    return n
            body = [Sub().visit(copy.deepcopy(b)) for b in node.body]
            test = ast.copy_location(ast.Compare(left=ast.Name(id=var, ctx=ast.Load()), ops=[ast.Eq()], comparators=[copy.deepcopy(k)]), node.test)
            chain = ast.copy_location(ast.If(test=test, body=body, orelse=(tail if chain is None else [chain])), node)
        return chain

    class T(ast.NodeTransformer):
        def visit_If(self, n: ast.If):
            self.generic_visit(n)
            return expand(n)
    T().visit(tree)


def canonicalise(tree: ast.Module) -> None:
    _Aug().visit(tree)
    _Chain().visit(tree)
    _expand_dict_dispatch(tree)
    for fn in [x for x in ast.walk(tree) if isinstance(x, (ast.FunctionDef, ast.AsyncFunctionDef))]:
        _inline_named_conditions(fn)
    ast.fix_missing_locations(tree)
