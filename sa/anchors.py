"""Anchor normalisation: the rules name the private functions of the repository as they are called today.  When such a function is
renamed (and nothing else changes) the rules would lose their anchor.  For the private functions listed here a *role* is given
as a syntactic predicate; if the known name is missing from its class/module and exactly one function that is NOT in the frozen
list (sa/known_functions.txt) fulfils the role, that function (definition and all references in the package) is renamed back to
the known name before the analysis.  Pure syntax -> syntax; a rename that cannot be resolved uniquely stays an ANALYSIS-ERROR."""
from __future__ import annotations

import ast
from typing import Callable, Dict, List, Optional, Tuple

from .inline import known_functions


def _calls(fn: ast.AST) -> set:
    out = set()
    for n in ast.walk(fn):
        if isinstance(n, ast.Call):
            f = n.func
            out.add(f.attr if isinstance(f, ast.Attribute) else (f.id if isinstance(f, ast.Name) else ""))
    return out


def _attrs(fn: ast.AST) -> set:
    return {n.attr for n in ast.walk(fn) if isinstance(n, ast.Attribute)}


def _strs(fn: ast.AST) -> set:
    return {n.value for n in ast.walk(fn) if isinstance(n, ast.Constant) and isinstance(n.value, str)}


def _raises(fn: ast.AST) -> set:
    out = set()
    for n in ast.walk(fn):
        if isinstance(n, ast.Raise) and isinstance(n.exc, ast.Call):
            f = n.exc.func
            out.add(f.attr if isinstance(f, ast.Attribute) else getattr(f, "id", ""))
    return out


# (module, class or None, known name) -> role predicate over the FunctionDef
ROLES: Dict[Tuple[str, Optional[str], str], Callable[[ast.FunctionDef], bool]] = {
    ("py7zr", "SevenZipFile", "_real_get_contents"): lambda f: "retrieve" in _calls(f) and "nextheadercrc" in _attrs(f),
    ("py7zr", "SevenZipFile", "_extract"): lambda f: "get_sanitized_output_path" in _calls(f),
    ("py7zr", "SevenZipFile", "_write_flush"): lambda f: "flush_archive" in _calls(f),
    ("py7zr", "SevenZipFile", "_write_header"): lambda f: "calccrc" in _calls(f),
    ("py7zr", "SevenZipFile", "_prepare_write"): lambda f: "_write_skeleton" in _calls(f),
    ("py7zr", "SevenZipFile", "_prepare_append"): lambda f: "packpositions" in _attrs(f) and "Worker" in _calls(f),
    ("py7zr", "SevenZipFile", "_make_file_info"): lambda f: "lstat" in _calls(f),
    ("py7zr", "SevenZipFile", "_make_file_info_from_name"): lambda f: "from_now" in _calls(f),
    ("py7zr", "SevenZipFile", "_sanitize_archive_arcname"): lambda f: "AbsolutePathError" in _raises(f),
    ("py7zr", "SevenZipFile", "_read_digest"): lambda f: "calculate_crc32" in _calls(f) and any(isinstance(n, ast.While) for n in ast.walk(f)),
    ("py7zr", "SevenZipFile", "_get_fileinfo_sizes"): lambda f: "num_unpackstreams_folders" in _attrs(f) and "solid" in _attrs(f) and "retrieve" not in _calls(f),
    ("py7zr", "SevenZipFile", "_writeall"): lambda f: "listdir" in _calls(f),
    ("py7zr", "SevenZipFile", "_reset_decompressor"): lambda f: any(isinstance(n, ast.Assign) and any(isinstance(t, ast.Attribute) and t.attr == "decompressor" for t in n.targets) for n in ast.walk(f)) and "Worker" not in _calls(f),
    ("py7zr", "Worker", "_extract_single"): lambda f: "symlink_to" in _calls(f),
    ("py7zr", "Worker", "extract_single"): lambda f: "exc_info" in _calls(f),
    ("py7zr", "Worker", "decompress"): lambda f: "get_decompressor" in _calls(f),
    ("py7zr", "Worker", "_check"): lambda f: "NullIO" in _calls(f),
    ("py7zr", "Worker", "_after_write"): lambda f: "digestsdefined" in _attrs(f) and "compress" not in _calls(f),
    ("py7zr", "Worker", "flush_archive"): lambda f: "flush" in _calls(f) and "packsizes" in _attrs(f),
    ("py7zr", "Worker", "archive"): lambda f: "has_strdata" in _calls(f),
    ("py7zr", "Worker", "_find_link_target"): lambda f: "readlink" in _calls(f),
    ("archiveinfo", "Header", "_encode_header"): lambda f: "HeaderStreamsInfo" in _calls(f),
    ("archiveinfo", "Header", "_extract_header_info"): lambda f: "FILES_INFO" in _attrs(f) and "MAIN_STREAMS_INFO" in _attrs(f) and "retrieve" in _calls(f) and "WriteWithCrc" not in _calls(f),
    ("archiveinfo", "UnpackInfo", "_retrieve_coders_info"): lambda f: "CODERS_UNPACK_SIZE" in _attrs(f) and "read_uint64" in _calls(f),
    ("archiveinfo", "FilesInfo", "_write_names"): lambda f: "write_utf16" in _calls(f),
    ("archiveinfo", "FilesInfo", "_write_attributes"): lambda f: "ATTRIBUTES" in _attrs(f) and "write_uint32" in _calls(f),
    ("archiveinfo", "FilesInfo", "_write_times"): lambda f: "write_real_uint64" in _calls(f) and "write_boolean" in _calls(f),
    ("archiveinfo", "FilesInfo", "_read_times"): lambda f: "ArchiveTimestamp" in _calls(f) and "read_boolean" in _calls(f),
    ("archiveinfo", "FilesInfo", "_read_attributes"): lambda f: "read_uint32" in _calls(f) and "attributes" in _strs(f),
    ("archiveinfo", "FilesInfo", "_read_name"): lambda f: "read_utf16" in _calls(f),
    ("archiveinfo", "SignatureHeader", "_write_skeleton"): lambda f: "write_real_uint64" in _calls(f) and not [n for n in ast.walk(f) if isinstance(n, ast.Assert)] and "getvalue" not in _calls(f),
    ("compressor", "SevenZipDecompressor", "_decompress"): lambda f: "_unpacked" in _attrs(f) and "EOFError" in {getattr(n.exc, "id", "") for n in ast.walk(f) if isinstance(n, ast.Raise) and n.exc is not None},
    ("compressor", "SevenZipDecompressor", "_read_data"): lambda f: "consumed" in _attrs(f) and "read" in _calls(f),
    ("compressor", "SevenZipDecompressor", "_get_alternative_decompressor"): lambda f: "need_property" in _calls(f) and "is_crypto_id" in _calls(f) and "struct" not in {getattr(n.value, "id", "") for n in ast.walk(f) if isinstance(n, ast.Attribute)},
    ("compressor", "SevenZipDecompressor", "_get_lzma_decompressor"): lambda f: "_decode_filter_properties" in _calls(f),
    ("compressor", "SevenZipCompressor", "_set_alternate_compressors_coders"): lambda f: "get_method_id" in _calls(f),
    ("compressor", "SevenZipCompressor", "_set_native_compressors_coders"): lambda f: "LZMA1Compressor" in _calls(f),
}


class _Rename(ast.NodeTransformer):
    def __init__(self, old: str, new: str):
        self.old, self.new = old, new

    def visit_Attribute(self, node: ast.Attribute):
        self.generic_visit(node)
        if node.attr == self.old:
            node.attr = self.new
        return node

    def visit_Name(self, node: ast.Name):
        if node.id == self.old:
            node.id = self.new
        return node


def normalise(trees: Dict[str, ast.Module]) -> List[str]:
    """rename renamed private anchors back to their known names; returns a log of what was done."""
    known = known_functions()
    log: List[str] = []
    if not known:
        return log
    for (mod, cls, name), role in ROLES.items():
        tree = trees.get(mod)
        if tree is None:
            continue
        if cls is None:
            holder = tree.body
        else:
            cd = next((s for s in tree.body if isinstance(s, ast.ClassDef) and s.name == cls), None)
            if cd is None:
                continue
            holder = cd.body
        fns = [s for s in holder if isinstance(s, ast.FunctionDef)]
        if any(f.name == name for f in fns):
            continue
        cands = []
        for f in fns:
            q = f"{mod}:{cls + '.' if cls else ''}{f.name}"
            if q in known:
                continue
            try:
                if role(f):
                    cands.append(f)
            except Exception:
                pass
        if len(cands) == 1:
            old = cands[0].name
            cands[0].name = name
            for t in trees.values():
                _Rename(old, name).visit(t)
            log.append(f"{mod}:{cls + '.' if cls else ''}{old} -> {name}")
    return log
