"""Program model: parse every module of <repo>/py7zr and index classes / functions / imports.

Nothing is imported or executed; only `ast.parse` is applied to the source text.
"""
from __future__ import annotations

import ast
import os
from dataclasses import dataclass, field
from typing import Dict, Iterable, Iterator, List, Optional, Tuple

PKG = "py7zr"


class AnalysisError(Exception):
    """An anchor vanished or an idiom is not recognised: the run is inconclusive (exit 2)."""


@dataclass
class Func:
    module: str  # short module name, e.g. "py7zr", "archiveinfo"
    cls: Optional[str]  # owning class name or None
    name: str
    node: ast.AST  # FunctionDef / AsyncFunctionDef
    outer: Optional["Func"] = None  # enclosing function for nested defs

    @property
    def qname(self) -> str:
        base = f"{self.cls}.{self.name}" if self.cls else self.name
        if self.outer is not None:
            base = f"{self.outer.qname.split(':', 1)[1]}.<locals>.{self.name}"
        return f"{self.module}:{base}"

    @property
    def lineno(self) -> int:
        return self.node.lineno

    @property
    def params(self) -> List[str]:
        a = self.node.args
        return [x.arg for x in a.posonlyargs + a.args + a.kwonlyargs] + (
            [a.vararg.arg] if a.vararg else []
        ) + ([a.kwarg.arg] if a.kwarg else [])

    def decorators(self) -> List[str]:
        out = []
        for d in self.node.decorator_list:
            if isinstance(d, ast.Name):
                out.append(d.id)
            elif isinstance(d, ast.Attribute):
                out.append(d.attr)
        return out

    @property
    def is_property(self) -> bool:
        return "property" in self.decorators()

    @property
    def is_static(self) -> bool:
        return "staticmethod" in self.decorators()

    @property
    def is_classmethod(self) -> bool:
        return "classmethod" in self.decorators()


@dataclass
class Cls:
    module: str
    name: str
    node: ast.ClassDef
    bases: List[str] = field(default_factory=list)  # textual base names
    methods: Dict[str, Func] = field(default_factory=dict)
    outer: Optional[str] = None  # nested-in class


@dataclass
class Module:
    name: str
    relpath: str
    path: str
    source: str
    tree: ast.Module
    funcs: Dict[str, Func] = field(default_factory=dict)  # top-level functions
    classes: Dict[str, Cls] = field(default_factory=dict)
    imports: Dict[str, str] = field(default_factory=dict)  # local name -> dotted target
    lines: List[str] = field(default_factory=list)


def unparse(node: ast.AST) -> str:
    try:
        return ast.unparse(node)
    except Exception:  # pragma: no cover
        return "<?>"


def norm(node: ast.AST) -> str:
    """Normalised statement/expression text used to key findings (no line numbers, no comments)."""
    s = unparse(node)
    s = " ".join(s.split())
    return s if len(s) <= 160 else s[:157] + "..."


class Program:
    def __init__(self, repo: str = "/repo", overrides: Optional[Dict[str, str]] = None):
        self.repo = repo
        self.pkgdir = os.path.join(repo, PKG)
        self.overrides = overrides or {}
        self.modules: Dict[str, Module] = {}
        self.all_funcs: List[Func] = []
        self.all_classes: Dict[str, Cls] = {}
        self.inlined = 0
        self.renamed: List[str] = []
        self._load()

    # ------------------------------------------------------------------ loading
    def _load(self) -> None:
        if not os.path.isdir(self.pkgdir):
            raise AnalysisError(f"package directory {self.pkgdir} not found")
        names = sorted(n for n in os.listdir(self.pkgdir) if n.endswith(".py"))
        parsed = []
        for n in names:
            rel = f"{PKG}/{n}"
            path = os.path.join(self.pkgdir, n)
            if rel in self.overrides:
                src = self.overrides[rel]
            else:
                with open(path, encoding="utf-8") as fh:
                    src = fh.read()
            try:
                tree = ast.parse(src, filename=path)
            except SyntaxError as e:
                raise AnalysisError(f"{rel} does not parse: {e}")
            from .canon import canonicalise
            canonicalise(tree)  # one spelling for `x = x + 1` / `x += 1` and for a condition named right in front of its only use
            parsed.append(Module(n[:-3], rel, path, src, tree, lines=src.splitlines()))
        # private functions that were merely renamed get their known names back (sa/anchors.py)
        from .anchors import normalise
        self.renamed = normalise({m.name: m.tree for m in parsed})
        for m in parsed:
            # calls of helpers that did not exist when the rules were written are expanded in place (sa/inline.py)
            from .inline import Inliner
            self.inlined += Inliner(m.name, m.tree).run()
            self._index(m)
            self.modules[m.name] = m

    def _index(self, m: Module) -> None:
        for node in ast.walk(m.tree):
            if isinstance(node, ast.Import):
                for a in node.names:
                    m.imports[a.asname or a.name.split(".")[0]] = a.name if a.asname else a.name.split(".")[0]
            elif isinstance(node, ast.ImportFrom):
                mod = ("." * node.level) + (node.module or "")
                for a in node.names:
                    m.imports[a.asname or a.name] = f"{mod}.{a.name}"

        def add_func(fn: ast.AST, cls: Optional[str], outer: Optional[Func]) -> Func:
            f = Func(m.name, cls, fn.name, fn, outer)
            self.all_funcs.append(f)
            # nested defs
            for sub in self._direct_defs(fn):
                if isinstance(sub, (ast.FunctionDef, ast.AsyncFunctionDef)):
                    add_func(sub, cls, f)
            return f

        def add_class(cn: ast.ClassDef, outer: Optional[str]) -> None:
            c = Cls(m.name, cn.name, cn, [unparse(b) for b in cn.bases], outer=outer)
            for st in cn.body:
                if isinstance(st, (ast.FunctionDef, ast.AsyncFunctionDef)):
                    c.methods[st.name] = add_func(st, cn.name, None)
                elif isinstance(st, ast.ClassDef):
                    add_class(st, cn.name)
            m.classes[cn.name] = c
            self.all_classes.setdefault(cn.name, c)

        for st in m.tree.body:
            self._index_top(st, m, add_func, add_class)

    def _index_top(self, st, m, add_func, add_class) -> None:
        if isinstance(st, (ast.FunctionDef, ast.AsyncFunctionDef)):
            m.funcs[st.name] = add_func(st, None, None)
        elif isinstance(st, ast.ClassDef):
            add_class(st, None)
        elif isinstance(st, (ast.If, ast.Try)):
            for sub in ast.iter_child_nodes(st):
                if isinstance(sub, ast.stmt):
                    self._index_top(sub, m, add_func, add_class)
                elif isinstance(sub, ast.ExceptHandler):
                    for s2 in sub.body:
                        self._index_top(s2, m, add_func, add_class)

    @staticmethod
    def _direct_defs(fn: ast.AST) -> Iterator[ast.AST]:
        """defs nested directly inside fn (not inside deeper defs)."""
        stack = list(ast.iter_child_nodes(fn))
        while stack:
            n = stack.pop()
            if isinstance(n, (ast.FunctionDef, ast.AsyncFunctionDef, ast.ClassDef)):
                yield n
                continue
            stack.extend(ast.iter_child_nodes(n))

    # ------------------------------------------------------------------ queries
    def module(self, name: str) -> Module:
        if name not in self.modules:
            raise AnalysisError(f"anchor vanished: module {name}")
        return self.modules[name]

    def cls(self, name: str, module: Optional[str] = None) -> Cls:
        if module is not None:
            m = self.module(module)
            if name not in m.classes:
                raise AnalysisError(f"anchor vanished: class {module}:{name}")
            return m.classes[name]
        if name not in self.all_classes:
            raise AnalysisError(f"anchor vanished: class {name}")
        return self.all_classes[name]

    def has_cls(self, name: str) -> bool:
        return name in self.all_classes

    def func(self, module: str, qual: str) -> Func:
        """qual = 'name' or 'Class.name'."""
        f = self.find_func(module, qual)
        if f is None:
            raise AnalysisError(f"anchor vanished: function {module}:{qual}")
        return f

    def find_func(self, module: str, qual: str) -> Optional[Func]:
        m = self.modules.get(module)
        if m is None:
            return None
        if "." in qual:
            cn, fn = qual.split(".", 1)
            c = m.classes.get(cn)
            if c is None:
                return None
            return self.method(c, fn)
        return m.funcs.get(qual)

    def mro(self, c: Cls) -> List[Cls]:
        out, seen, todo = [], set(), [c]
        while todo:
            k = todo.pop(0)
            if k.name in seen:
                continue
            seen.add(k.name)
            out.append(k)
            for b in k.bases:
                bn = b.split(".")[-1]
                if bn in self.all_classes:
                    todo.append(self.all_classes[bn])
        return out

    def method(self, c: Cls, name: str) -> Optional[Func]:
        for k in self.mro(c):
            if name in k.methods:
                return k.methods[name]
        return None

    def subclasses(self, c: Cls) -> List[Cls]:
        out = []
        for k in self.all_classes.values():
            if k is not c and c in self.mro(k):
                out.append(k)
        return out

    def methods_named(self, name: str) -> List[Func]:
        return [f for f in self.all_funcs if f.cls and f.name == name and f.outer is None]

    def funcs_in(self, module: str) -> List[Func]:
        return [f for f in self.all_funcs if f.module == module]

    def loc(self, f_or_mod, node: ast.AST) -> str:
        mod = f_or_mod.module if isinstance(f_or_mod, Func) else f_or_mod
        return f"{PKG}/{mod}.py:{getattr(node, 'lineno', 0)}"

    # ------------------------------------------------------------------ unit counts
    def counts(self) -> Dict[str, int]:
        c = {"modules": len(self.modules), "classes": 0, "functions": 0, "calls": 0, "while": 0, "for": 0, "try": 0}
        for m in self.modules.values():
            for n in ast.walk(m.tree):
                if isinstance(n, ast.ClassDef):
                    c["classes"] += 1
                elif isinstance(n, (ast.FunctionDef, ast.AsyncFunctionDef)):
                    c["functions"] += 1
                elif isinstance(n, ast.Call):
                    c["calls"] += 1
                elif isinstance(n, ast.While):
                    c["while"] += 1
                elif isinstance(n, ast.For):
                    c["for"] += 1
                elif isinstance(n, ast.Try):
                    c["try"] += 1
        return c


FLOORS = {"modules": 12, "classes": 70, "functions": 330, "calls": 1400, "while": 5, "for": 70, "try": 15}


def check_floors(prog: Program) -> Dict[str, int]:
    c = prog.counts()
    for k, v in FLOORS.items():
        if c[k] < v:
            raise AnalysisError(f"unit count {k}={c[k]} below floor {v}: the analyser is not seeing the whole package")
    return c


# ---------------------------------------------------------------------- small AST helpers
def calls_in(node: ast.AST, include_nested_defs: bool = False) -> Iterator[ast.Call]:
    for n in walk(node, include_nested_defs):
        if isinstance(n, ast.Call):
            yield n


_walk_cache: Dict[int, List[ast.AST]] = {}


def walk(node: ast.AST, include_nested_defs: bool = False) -> Iterable[ast.AST]:
    """ast.walk (pre-order) that does not descend into nested function/class definitions (lambdas are descended).
    Results for function definitions are cached (the trees are never mutated)."""
    if not include_nested_defs and isinstance(node, (ast.FunctionDef, ast.AsyncFunctionDef)):
        k = id(node)
        if k not in _walk_cache:
            _walk_cache[k] = list(_walk(node, False))
        return _walk_cache[k]
    return _walk(node, include_nested_defs)


def _walk(node: ast.AST, include_nested_defs: bool = False) -> Iterator[ast.AST]:
    stack = [node]
    first = True
    while stack:
        n = stack.pop()
        if not first and not include_nested_defs and isinstance(n, (ast.FunctionDef, ast.AsyncFunctionDef, ast.ClassDef)):
            continue
        first = False
        yield n
        stack.extend(reversed(list(ast.iter_child_nodes(n))))


def call_name(c: ast.Call) -> str:
    """dotted textual name of the callee: 'os.utime', 'self.fp.seek', 'read_uint64'."""
    return dotted(c.func)


def dotted(e: ast.AST) -> str:
    if isinstance(e, ast.Name):
        return e.id
    if isinstance(e, ast.Attribute):
        return dotted(e.value) + "." + e.attr
    if isinstance(e, ast.Call):
        return dotted(e.func) + "()"
    if isinstance(e, ast.Subscript):
        return dotted(e.value) + "[]"
    return "<expr>"


def attr_tail(c: ast.Call) -> str:
    f = c.func
    if isinstance(f, ast.Attribute):
        return f.attr
    if isinstance(f, ast.Name):
        return f.id
    return ""


def names_in(node: ast.AST) -> List[str]:
    return [n.id for n in ast.walk(node) if isinstance(n, ast.Name)]


def const_str(e: ast.AST) -> Optional[str]:
    if isinstance(e, ast.Constant) and isinstance(e.value, str):
        return e.value
    return None


def kwarg(c: ast.Call, name: str) -> Optional[ast.AST]:
    for k in c.keywords:
        if k.arg == name:
            return k.value
    return None


def arg_or_kw(c: ast.Call, idx: int, name: str) -> Optional[ast.AST]:
    if idx < len(c.args):
        return c.args[idx]
    return kwarg(c, name)


def parent_map(root: ast.AST) -> Dict[ast.AST, ast.AST]:
    pm: Dict[ast.AST, ast.AST] = {}
    for n in ast.walk(root):
        for ch in ast.iter_child_nodes(n):
            pm[ch] = n
    return pm


def enclosing_stmt(pm: Dict[ast.AST, ast.AST], n: ast.AST) -> ast.stmt:
    while not isinstance(n, ast.stmt):
        n = pm[n]
    return n
