"""./check driver."""
from __future__ import annotations

import argparse
import importlib
import json
import os
import sys
import traceback

from .model import AnalysisError
from .report import Ctx, finish, VERIF

PROPS = [f"C{i:02d}" for i in range(1, 21)]


_DEFERRAL_INSTALLED = False
_SHARED_RULES = ("strict_reads", "exits_do_not_swallow", "layout_agreement", "field_order_agreement", "windowed_traversal", "per_member_values")


def _install_deferral() -> None:
    """an anchor that vanished makes ONE rule undecidable, not the whole property: every rule function (rNN_M of the rule modules, the
    shared rule pieces) is wrapped so that its AnalysisError is recorded and the remaining rules still run.  The run still ends as
    analysis-broken (exit 2) - unless other rules found violations, which are then reported (exit 1) next to the ANALYSIS-ERROR lines."""
    global _DEFERRAL_INSTALLED
    if _DEFERRAL_INSTALLED:
        return
    _DEFERRAL_INSTALLED = True
    import re
    import functools

    def defer(fn):
        @functools.wraps(fn)
        def w(ctx, *a, **k):
            try:
                return fn(ctx, *a, **k)
            except AnalysisError as e:
                if not hasattr(ctx, "deferred"):
                    raise
                ctx.deferred.append(str(e))
                return None
        return w
    mods = [importlib.import_module(f"sa.rules.{p.lower()}") for p in PROPS if os.path.exists(os.path.join(VERIF, "sa", "rules", f"{p.lower()}.py"))]
    for m in mods:
        for name, fn in list(vars(m).items()):
            if callable(fn) and re.fullmatch(r"r\d+_\d+[a-z]?", name) and getattr(fn, "__module__", "") == m.__name__:
                setattr(m, name, defer(fn))
    sh = importlib.import_module("sa.rules.shared")
    for name in _SHARED_RULES:
        if hasattr(sh, name):
            setattr(sh, name, defer(getattr(sh, name)))


def run_property(prop: str, tier: str, repo: str, overrides=None, quiet=False, write_evidence=True):
    _install_deferral()
    mod = importlib.import_module(f"sa.rules.{prop.lower()}")
    ctx = Ctx(prop, tier, repo, overrides, quiet=quiet)
    ctx.deferred = []
    mod.run(ctx)
    if tier == "thorough" and overrides is None:
        from . import thorough
        thorough.extend(ctx, mod)
    rc = finish(ctx, mod.EXPLANATION, mod.TRUSTED, write_evidence=write_evidence and not ctx.deferred)
    if ctx.deferred:
        if rc == 0:
            raise AnalysisError("; ".join(ctx.deferred))
        if not quiet:
            for e in ctx.deferred:
                print(f"ANALYSIS-ERROR property={prop} {e}")
    return rc, ctx


def main(argv=None) -> int:
    ap = argparse.ArgumentParser(prog="check")
    ap.add_argument("what")
    ap.add_argument("--tier", default=os.environ.get("VERIF_TIER", "quick"), choices=["quick", "thorough"])
    ap.add_argument("--repo", default=os.environ.get("VERIF_REPO", "/repo"))
    ap.add_argument("--replay")
    ap.add_argument("--jobs", type=int, default=16)
    if argv is None:
        argv = sys.argv[1:]
    if argv and argv[0] == "mutate":
        from . import mutate
        return mutate.main(list(argv[1:]))
    a = ap.parse_args(argv)
    try:
        if a.what == "lint":
            from . import lints
            return lints.run(a.repo)
        if a.what == "selftest":
            from . import witness
            return witness.selftest(a.repo, a.jobs)
        if a.what == "all":
            rc = 0
            for p in PROPS:
                if os.path.exists(os.path.join(VERIF, "sa", "rules", f"{p.lower()}.py")):
                    r, _ = run_property(p, a.tier, a.repo, write_evidence=os.path.realpath(a.repo) == "/repo")
                    rc = max(rc, r)
            return rc
        prop = a.what.upper()
        if prop not in PROPS:
            print(f"unknown property {a.what}")
            return 2
        if a.replay:
            with open(a.replay) as fh:
                rp = json.load(fh)
            rc, ctx = run_property(prop, a.tier, a.repo, write_evidence=False, quiet=True)
            hit = [f for f in ctx.findings if f.key == rp["key"]]
            if hit:
                f = hit[0]
                print(f"REPRODUCED {f.loc}: [{f.rule}] {f.func}: {f.message}\n    construct: {f.construct}")
                if f.path:
                    print("    path: " + " -> ".join(f.path))
                print(f"VIOLATION property={prop} replay={a.replay}")
                return 1
            print(f"not reproduced on the current tree: {rp['key']}")
            return 0
        # evidence describes /repo's current tree only: a run against a scratch copy (--repo) leaves the committed evidence alone
        rc, _ = run_property(prop, a.tier, a.repo, write_evidence=os.path.realpath(a.repo) == "/repo")
        return rc
    except AnalysisError as e:
        print(f"ANALYSIS-ERROR property={a.what} {e}")
        return 2
    except Exception:
        print(f"ANALYSIS-ERROR property={a.what} internal error in the analyser:")
        traceback.print_exc()
        return 2


if __name__ == "__main__":
    sys.exit(main())
