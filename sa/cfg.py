"""Statement-level control-flow graph per function, dominators, guards.

Nodes
  entry / exit (normal return or fall-off) / raise (exception leaves the function)
  stmt    : a simple statement (Expr, Assign, AugAssign, AnnAssign, Return, Raise, Pass, Assert, Delete, Import, ...)
  test    : the condition of an `if` / `while`;   true / false : pseudo nodes on its two out-edges
  iter    : the head of a `for` (evaluates the iterator, binds the target); body / done pseudo nodes
  with    : evaluation of the context managers of a `with`
  handler : entry of an `except` clause
Exceptional edges: every node that lies inside a `try` body has an edge to each handler of that try
(a statement may raise part-way); if no handler is a catch-all the edge also goes outward.  Outside
any try, only explicit `raise` statements have an edge to RAISE (implicit exceptions of calls are not
modelled as edges out of the function: the rules that need them say so).
"""
from __future__ import annotations

import ast
from dataclasses import dataclass, field
from typing import Dict, Iterable, List, Optional, Set, Tuple

CATCH_ALL = {"Exception", "BaseException"}


@dataclass(eq=False)
class Node:
    id: int
    kind: str
    ast: Optional[ast.AST] = None
    succ: List["Node"] = field(default_factory=list)
    pred: List["Node"] = field(default_factory=list)
    exc_succ: Set[int] = field(default_factory=set)  # ids of successors reached via an exceptional edge
    owner: Optional["Node"] = None  # for true/false/body/done pseudo nodes: their test/iter node

    @property
    def lineno(self) -> int:
        return getattr(self.ast, "lineno", 0) if self.ast is not None else 0

    def __repr__(self) -> str:
        t = ""
        if self.ast is not None:
            try:
                t = " ".join(ast.unparse(self.ast).split())[:60]
            except Exception:
                t = "?"
        return f"<{self.id}:{self.kind}@{self.lineno} {t}>"


class CFG:
    def __init__(self, fn: ast.AST):
        self.fn = fn
        self.nodes: List[Node] = []
        self.entry = self._new("entry")
        self.exit = self._new("exit")
        self.raise_ = self._new("raise")
        self.by_ast: Dict[ast.AST, Node] = {}
        self._loop: List[Tuple[Node, Node]] = []  # (continue target, break target)
        self._handlers: List[List[Tuple[Node, bool]]] = []  # stack of [(handler node, is_catch_all)]
        self._finally: List[List[ast.stmt]] = []
        ends = self._block(fn.body, [self.entry])
        for e in ends:
            self._edge(e, self.exit)
        self._dom: Optional[Dict[Node, Set[Node]]] = None
        self._pdom: Optional[Dict[Node, Set[Node]]] = None

    # ------------------------------------------------------------ construction
    def _new(self, kind: str, a: Optional[ast.AST] = None, owner: Optional[Node] = None) -> Node:
        n = Node(len(self.nodes), kind, a, owner=owner)
        self.nodes.append(n)
        if a is not None and kind in ("stmt", "test", "iter", "with", "handler"):
            self.by_ast.setdefault(a, n)
        return n

    def _edge(self, a: Node, b: Node, exc: bool = False) -> None:
        if b not in a.succ:
            a.succ.append(b)
            b.pred.append(a)
        if exc:
            a.exc_succ.add(b.id)

    def _exc_edges(self, n: Node, explicit: bool = False) -> None:
        """edges for 'n may raise'. explicit=True for `raise` statements (always leaves)."""
        for level in reversed(self._handlers):
            caught_all = False
            for h, is_all in level:
                self._edge(n, h, exc=True)
                caught_all = caught_all or is_all
            if caught_all:
                return
        if explicit or self._handlers:
            self._edge(n, self.raise_, exc=True)

    def _simple(self, st: ast.stmt, preds: List[Node]) -> Node:
        n = self._new("stmt", st)
        for p in preds:
            self._edge(p, n)
        if self._handlers:
            self._exc_edges(n)
        return n

    def _block(self, body: List[ast.stmt], preds: List[Node]) -> List[Node]:
        cur = preds
        for st in body:
            cur = self._stmt(st, cur)
        return cur

    def _stmt(self, st: ast.stmt, preds: List[Node]) -> List[Node]:
        if isinstance(st, ast.If):
            t = self._new("test", st.test)
            t.stmt = st  # type: ignore[attr-defined]
            self.by_ast.setdefault(st, t)
            for p in preds:
                self._edge(p, t)
            if self._handlers:
                self._exc_edges(t)
            tn = self._new("true", st.test, owner=t)
            fn_ = self._new("false", st.test, owner=t)
            self._edge(t, tn)
            self._edge(t, fn_)
            a = self._block(st.body, [tn])
            b = self._block(st.orelse, [fn_])
            return a + b
        if isinstance(st, ast.While):
            t = self._new("test", st.test)
            t.stmt = st  # type: ignore[attr-defined]
            self.by_ast.setdefault(st, t)
            for p in preds:
                self._edge(p, t)
            if self._handlers:
                self._exc_edges(t)
            tn = self._new("true", st.test, owner=t)
            fn_ = self._new("false", st.test, owner=t)
            self._edge(t, tn)
            is_true_const = isinstance(st.test, ast.Constant) and bool(st.test.value) is True
            if not is_true_const:
                self._edge(t, fn_)
            brk = self._new("join")
            self._loop.append((t, brk))
            ends = self._block(st.body, [tn])
            self._loop.pop()
            for e in ends:
                self._edge(e, t)
            out = [] if is_true_const else self._block(st.orelse, [fn_])
            if brk.pred:
                out = out + [brk]
            return out
        if isinstance(st, (ast.For, ast.AsyncFor)):
            it = self._new("iter", st)
            for p in preds:
                self._edge(p, it)
            if self._handlers:
                self._exc_edges(it)
            bn = self._new("body", st, owner=it)
            dn = self._new("done", st, owner=it)
            self._edge(it, bn)
            self._edge(it, dn)
            brk = self._new("join")
            self._loop.append((it, brk))
            ends = self._block(st.body, [bn])
            self._loop.pop()
            for e in ends:
                self._edge(e, it)
            out = self._block(st.orelse, [dn])
            if brk.pred:
                out = out + [brk]
            return out
        if isinstance(st, (ast.With, ast.AsyncWith)):
            w = self._new("with", st)
            for p in preds:
                self._edge(p, w)
            if self._handlers:
                self._exc_edges(w)
            return self._block(st.body, [w])
        if isinstance(st, ast.Try) or st.__class__.__name__ == "TryStar":
            hnodes: List[Tuple[Node, bool]] = []
            for h in st.handlers:
                hn = self._new("handler", h)
                is_all = h.type is None or _names_of(h.type) & CATCH_ALL != set()
                hnodes.append((hn, is_all))
            self._handlers.append(hnodes)
            body_ends = self._block(st.body, preds)
            self._handlers.pop()
            else_ends = self._block(st.orelse, body_ends) if st.orelse else body_ends
            ends = list(else_ends)
            for (hn, _), h in zip(hnodes, st.handlers):
                ends += self._block(h.body, [hn])
            if st.finalbody:
                # normal completion copy
                ends = self._block(st.finalbody, ends)
                # exceptional copy: uncaught exception passes through finally then outward
                fe = self._new("finally_exc")
                fin_ends = self._block(st.finalbody, [fe])
                for e in fin_ends:
                    self._exc_edges(e, explicit=True)
                # body nodes that may raise uncaught should reach fe: approximated by linking handlers'
                # raise statements is not possible after the fact; the repo has no `finally` today.
            return ends
        if isinstance(st, ast.Return):
            n = self._simple(st, preds)
            self._edge(n, self.exit)
            return []
        if isinstance(st, ast.Raise):
            n = self._new("stmt", st)
            for p in preds:
                self._edge(p, n)
            self._exc_edges(n, explicit=True)
            return []
        if isinstance(st, ast.Break):
            n = self._simple(st, preds)
            self._edge(n, self._loop[-1][1])
            return []
        if isinstance(st, ast.Continue):
            n = self._simple(st, preds)
            self._edge(n, self._loop[-1][0])
            return []
        if isinstance(st, (ast.FunctionDef, ast.AsyncFunctionDef, ast.ClassDef)):
            n = self._new("stmt", st)
            for p in preds:
                self._edge(p, n)
            return [n]
        if st.__class__.__name__ == "Match":
            # not used by the repository; treat conservatively as a branch over all cases
            t = self._new("test", st.subject)
            for p in preds:
                self._edge(p, t)
            ends: List[Node] = [t]
            for case in st.cases:
                ends += self._block(case.body, [t])
            return ends
        n = self._simple(st, preds)
        # a call to exit()/sys.exit()/os._exit() never returns
        if isinstance(st, ast.Expr) and isinstance(st.value, ast.Call):
            nm = _dotted(st.value.func)
            if nm in ("exit", "sys.exit", "os._exit", "quit"):
                n.noreturn = True  # type: ignore[attr-defined]
                self._edge(n, self.raise_, exc=True)
                return []
        return [n]

    # ------------------------------------------------------------ queries
    def node_of(self, a: ast.AST) -> Optional[Node]:
        return self.by_ast.get(a)

    def stmt_nodes(self) -> List[Node]:
        return [n for n in self.nodes if n.kind in ("stmt", "test", "iter", "with", "handler")]

    def reachable_from(self, start: Node, avoid: Iterable[Node] = (), normal_only: bool = False) -> Set[Node]:
        av = set(avoid)
        seen: Set[Node] = set()
        todo = [start]
        while todo:
            n = todo.pop()
            if n in seen or n in av:
                continue
            seen.add(n)
            for s in n.succ:
                if normal_only and s.id in n.exc_succ:
                    continue
                todo.append(s)
        return seen

    def reaches(self, a: Node, b: Node, avoid: Iterable[Node] = (), normal_only: bool = False) -> bool:
        """is there a path a ->+ b (at least one edge) not passing through `avoid` nodes."""
        av = set(avoid)
        seen: Set[Node] = set()
        todo = [s for s in a.succ if not (normal_only and s.id in a.exc_succ)]
        while todo:
            n = todo.pop()
            if n in seen or n in av:
                continue
            if n is b:
                return True
            seen.add(n)
            for s in n.succ:
                if normal_only and s.id in n.exc_succ:
                    continue
                todo.append(s)
        return False

    def live_nodes(self) -> Set[Node]:
        return self.reachable_from(self.entry)

    def dominators(self) -> Dict[Node, Set[Node]]:
        if self._dom is None:
            self._dom = _dominators(self.entry, lambda n: n.pred, self.live_nodes())
        return self._dom

    def postdominators(self) -> Dict[Node, Set[Node]]:
        """post-dominators with respect to the NORMAL exit; exceptional edges are ignored."""
        if self._pdom is None:
            # nodes that can reach exit via normal edges
            back: Set[Node] = set()
            todo = [self.exit]
            while todo:
                n = todo.pop()
                if n in back:
                    continue
                back.add(n)
                for p in n.pred:
                    if n.id in p.exc_succ:
                        continue
                    todo.append(p)

            def succs(n: Node) -> List[Node]:
                return [s for s in n.succ if s.id not in n.exc_succ and s in back]

            self._pdom = _dominators(self.exit, succs, back)
        return self._pdom

    def dominates(self, a: Node, b: Node) -> bool:
        d = self.dominators()
        return b in d and a in d[b]

    def postdominates(self, a: Node, b: Node) -> bool:
        d = self.postdominators()
        return b in d and a in d[b]

    def guards(self, n: Node) -> List[Tuple[ast.AST, bool]]:
        """(condition expr, polarity) pairs that hold on every path from entry to n."""
        out = []
        d = self.dominators().get(n, set())
        for g in d:
            if g.kind == "true":
                out.append((g.ast, True))
            elif g.kind == "false":
                out.append((g.ast, False))
        return out

    def every_path_to_exit_passes(self, start: Node, through: Iterable[Node], normal_only: bool = True) -> bool:
        """True iff no path start ->* exit avoids all `through` nodes."""
        thr = set(through)
        if start in thr:
            return True
        reach = self.reachable_from(start, avoid=thr, normal_only=normal_only)
        return self.exit not in reach


def _dominators(root: Node, preds, universe: Set[Node]) -> Dict[Node, Set[Node]]:
    nodes = [n for n in universe]
    dom: Dict[Node, Set[Node]] = {n: set(nodes) for n in nodes}
    dom[root] = {root}
    changed = True
    while changed:
        changed = False
        for n in nodes:
            if n is root:
                continue
            ps = [p for p in preds(n) if p in dom]
            if not ps:
                new = {n}
            else:
                new = set.intersection(*(dom[p] for p in ps)) | {n}
            if new != dom[n]:
                dom[n] = new
                changed = True
    return dom


def _names_of(e: ast.AST) -> Set[str]:
    out = set()
    for n in ast.walk(e):
        if isinstance(n, ast.Name):
            out.add(n.id)
        elif isinstance(n, ast.Attribute):
            out.add(n.attr)
    return out


def _dotted(e: ast.AST) -> str:
    if isinstance(e, ast.Name):
        return e.id
    if isinstance(e, ast.Attribute):
        return _dotted(e.value) + "." + e.attr
    return "<expr>"


_cache: Dict[int, CFG] = {}


def cfg_of(fn_node: ast.AST) -> CFG:
    k = id(fn_node)
    if k not in _cache:
        _cache[k] = CFG(fn_node)
    return _cache[k]


def stmt_node_containing(cfg: CFG, target: ast.AST) -> Optional[Node]:
    """CFG node whose ast (statement / test / iter header / with header) contains `target`."""
    best = None
    if target in cfg.by_ast:
        return cfg.by_ast[target]
    for n in cfg.stmt_nodes():
        a = n.ast
        if a is None:
            continue
        if n.kind == "iter":
            parts = [a.iter, a.target]
        elif n.kind == "with":
            parts = [i for it in a.items for i in ([it.context_expr] + ([it.optional_vars] if it.optional_vars else []))]
        elif n.kind == "handler":
            parts = [a.type] if a.type is not None else []
        elif n.kind == "stmt" and isinstance(a, (ast.FunctionDef, ast.AsyncFunctionDef, ast.ClassDef)):
            parts = []
        else:
            parts = [a]
        for p in parts:
            for sub in ast.walk(p):
                if sub is target:
                    best = n
                    return best
    return best
