"""Thorough tier: everything of the quick tier plus (a) a bytecode cross-check of the AST call-site inventory, (b) the rules
re-evaluated on every mutation witness of the property (in memory), (c) the seeded red-team patches of the property."""
from __future__ import annotations

import ast
import dis
import os
import types
from typing import Dict

from .report import Ctx


def _count_calls_code(code: types.CodeType) -> int:
    n = 0
    for ins in dis.get_instructions(code):
        if ins.opname in ("CALL", "CALL_FUNCTION_EX", "CALL_KW", "CALL_FUNCTION", "CALL_METHOD", "CALL_FUNCTION_KW"):
            n += 1
    for c in code.co_consts:
        if isinstance(c, types.CodeType):
            n += _count_calls_code(c)
    return n


def dis_crosscheck(ctx: Ctx) -> Dict[str, Dict[str, int]]:
    out = {}
    for name, m in ctx.prog.modules.items():
        code = compile(m.source, m.path, "exec")  # compiled, never executed
        n_dis = _count_calls_code(code)
        n_ast = sum(1 for n in ast.walk(m.tree) if isinstance(n, ast.Call))
        # decorators, class definitions, f-string formatting and `assert`/`with` helpers add CALLs that are not ast.Call nodes
        n_extra = sum(len(n.decorator_list) for n in ast.walk(m.tree) if isinstance(n, (ast.FunctionDef, ast.ClassDef))) + \
            sum(1 for n in ast.walk(m.tree) if isinstance(n, ast.ClassDef)) + sum(1 for n in ast.walk(m.tree) if isinstance(n, ast.With)) * 2
        out[name] = {"ast_calls": n_ast, "bytecode_calls": n_dis}
        if n_dis + 5 < n_ast:
            ctx.note(f"dis cross-check: module {name} has {n_ast} AST call nodes but only {n_dis} CALL instructions (walker/compile mismatch)")
    return out


def extend(ctx: Ctx, mod) -> None:
    ctx.extra["dis_crosscheck"] = dis_crosscheck(ctx)
    from . import witness
    res = witness.run_for_property(ctx.prop, ctx.repo)
    ctx.extra["witnesses"] = res
    wit = [r for r in res if not r["name"].startswith("refactor/")]
    ref = [r for r in res if r["name"].startswith("refactor/")]
    fired = sum(1 for r in wit if r["status"] in ("fired", "fired-other"))
    appl = sum(1 for r in wit if r["status"] != "n/a")
    ctx.extra["witnesses_fired"] = f"{fired}/{appl}"
    ctx.extra["refactorings_silent"] = f"{sum(1 for r in ref if r['status'] == 'silent')}/{sum(1 for r in ref if r['status'] != 'n/a')}"
    for r in wit:
        if r["status"] in ("missed", "error"):
            ctx.note(f"witness not detected: {r['name']} (expected {r['expect']}): {r.get('detail', '')[:100]}")
    for r in ref:
        if r["status"] == "ALARM":
            ctx.note(f"false alarm on behaviour-preserving refactoring {r['name']}: {r.get('rules')} {r.get('detail', '')[:100]}")
    # sensitivity sample: syntactic mutants of the property's anchor functions, analysed in memory by this property's rules only
    try:
        from . import mutate
        ctx.extra["mutation_sample"] = mutate.sample_for_property(ctx.prop, ctx.repo)
    except Exception as e:  # noqa  (informational only)
        ctx.note(f"mutation sample not available: {type(e).__name__}: {e}")
